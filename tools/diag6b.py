#!/usr/bin/env python3
"""C06 replay: for each offending optional field, its type after each chain prefix (only when it changes)"""
import json, sys, os, re
sys.path.insert(0, os.path.dirname(os.path.dirname(os.path.abspath(__file__))))
from vlib import core, passlib
from tools.diag_c05 import CH
from tools.fields_of import fields_of, bad_optional
from checks.c06 import object_text
d = json.load(open(sys.argv[1])); job = d["job"]; lang = job["lang"]
ctx = core.Ctx("STEP", "quick", 0)
try:
    binp = core.build_harness(ctx)
    chain = [p if isinstance(p, dict) else {"p": p} for p in CH[lang]]
    jobs = [{"schemas": job["schemas"], "passes": chain[:i]} for i in range(len(chain) + 1)]
    rs = passlib.run_jobs(binp, jobs)
    final = rs[-1]["outcome"]
    for s_ in job["schemas"] + [{"pkg": s_["pkg"], "objects": []} for s_ in job["schemas"]]:
        pass
    objs = set(re.findall(r'\(mkObject ("(?:[^"]|"")*") \[[^\]]*\] \(TStruct .*?"([^"]*)" \1\)\)', final))
    for qname, pkg in sorted(objs):
        name = qname.strip('"')
        bad = bad_optional(object_text(final, pkg, name))
        for fname, ty in bad:
            print("== %s.%s field %s" % (pkg, name, fname))
            prev = None
            for i, r in enumerate(rs):
                fs = [(t, q) for n, t, q in fields_of(object_text(r["outcome"], pkg, name)) if n == fname]
                if fs != prev:
                    print("  after %-45s %s" % (chain[i - 1]["p"] if i else "(input)", [(t[:260], q) for t, q in fs]))
                prev = fs
finally:
    ctx.cleanup()
