module verif/copyspec

go 1.21
