// copyspec: translator for C18. Reads the struct declarations and every DeepCopy method of
// /repo/internal/ast (and the ordered map) with go/parser and emits, per struct, the Go type
// shape of every declared field and the copy mode the DeepCopy body applies to it.
// Output: JSON on stdout (check.py renders Gen/CopySpec_gen.v from it).
//
// Anything the translator does not recognise is reported as mode "Unknown" (never as fine).
package main

import (
	"encoding/json"
	"fmt"
	"go/ast"
	"go/parser"
	"go/token"
	"os"
	"path/filepath"
	"sort"
	"strings"
)

type Field struct {
	Name string `json:"name"`
	Type string `json:"type"` // rendered gty
	Mode string `json:"mode"`
	Why  string `json:"why,omitempty"`
}

type Struct struct {
	Name    string  `json:"name"`
	File    string  `json:"file"`
	HasCopy bool    `json:"has_copy"`
	Fields  []Field `json:"fields"`
}

var structs = map[string]*ast.StructType{}
var structFile = map[string]string{}
var namedOther = map[string]ast.Expr{} // named non-struct types: Kind, Types, Path, JenniesHints, ...

func exprString(e ast.Expr) string {
	switch x := e.(type) {
	case *ast.Ident:
		return x.Name
	case *ast.SelectorExpr:
		return exprString(x.X) + "." + x.Sel.Name
	case *ast.StarExpr:
		return "*" + exprString(x.X)
	case *ast.ArrayType:
		return "[]" + exprString(x.Elt)
	case *ast.MapType:
		return "map[" + exprString(x.Key) + "]" + exprString(x.Value)
	case *ast.IndexListExpr:
		parts := []string{}
		for _, i := range x.Indices {
			parts = append(parts, exprString(i))
		}
		return exprString(x.X) + "[" + strings.Join(parts, ",") + "]"
	case *ast.IndexExpr:
		return exprString(x.X) + "[" + exprString(x.Index) + "]"
	case *ast.InterfaceType:
		return "any"
	case *ast.FuncType:
		return "func"
	case *ast.CallExpr:
		return exprString(x.Fun) + "(...)"
	case *ast.UnaryExpr:
		return x.Op.String() + exprString(x.X)
	case *ast.CompositeLit:
		return exprString(x.Type) + "{...}"
	}
	return fmt.Sprintf("%T", e)
}

var scalarIdents = map[string]bool{"string": true, "bool": true, "int": true, "int64": true, "int32": true,
	"uint8": true, "float64": true, "float32": true, "uint64": true, "uint32": true, "int8": true, "int16": true, "uint16": true}

// gty rendering: GScalar | GAny | (GNamed "X") | (GPtr t) | (GSlice t) | (GMap t) | (GOMap t) | (GOpaque "...")
func gty(e ast.Expr, depth int) string {
	switch x := e.(type) {
	case *ast.Ident:
		if scalarIdents[x.Name] {
			return "GScalar"
		}
		if x.Name == "any" {
			return "GAny"
		}
		if _, ok := structs[x.Name]; ok {
			return "(GNamed \"" + x.Name + "\")"
		}
		if under, ok := namedOther[x.Name]; ok && depth < 5 {
			return gty(under, depth+1)
		}
		return "(GOpaque \"" + x.Name + "\")"
	case *ast.InterfaceType:
		return "GAny"
	case *ast.StarExpr:
		// *orderedmap.Map[K, V] is one allocation: the ordered map itself
		if il, ok := x.X.(*ast.IndexListExpr); ok && strings.HasSuffix(exprString(il.X), "orderedmap.Map") {
			return gty(x.X, depth)
		}
		return "(GPtr " + gty(x.X, depth) + ")"
	case *ast.ArrayType:
		return "(GSlice " + gty(x.Elt, depth) + ")"
	case *ast.MapType:
		return "(GMap " + gty(x.Value, depth) + ")"
	case *ast.IndexListExpr:
		if strings.HasSuffix(exprString(x.X), "orderedmap.Map") && len(x.Indices) == 2 {
			return "(GOMap " + gty(x.Indices[1], depth) + ")"
		}
	}
	return "(GOpaque \"" + exprString(e) + "\")"
}

func isSel(e ast.Expr, recv, field string) bool {
	s, ok := e.(*ast.SelectorExpr)
	if !ok || s.Sel.Name != field {
		return false
	}
	id, ok := s.X.(*ast.Ident)
	return ok && id.Name == recv
}

// x.F.DeepCopy()
func isDeepCopyCallOn(e ast.Expr, isBase func(ast.Expr) bool) bool {
	c, ok := e.(*ast.CallExpr)
	if !ok || len(c.Args) != 0 {
		return false
	}
	s, ok := c.Fun.(*ast.SelectorExpr)
	if !ok || s.Sel.Name != "DeepCopy" {
		return false
	}
	return isBase(s.X)
}

// func(x T) T { return x.DeepCopy() }   or   func(_ K, x T) T { return x.DeepCopy() }
func isElementDeepCopyFunc(e ast.Expr) bool {
	f, ok := e.(*ast.FuncLit)
	if !ok || len(f.Body.List) != 1 {
		return false
	}
	r, ok := f.Body.List[0].(*ast.ReturnStmt)
	if !ok || len(r.Results) != 1 {
		return false
	}
	params := []string{}
	for _, p := range f.Type.Params.List {
		for _, n := range p.Names {
			params = append(params, n.Name)
		}
	}
	if len(params) == 0 {
		return false
	}
	last := params[len(params)-1]
	return isDeepCopyCallOn(r.Results[0], func(b ast.Expr) bool {
		id, ok := b.(*ast.Ident)
		return ok && id.Name == last
	})
}

type analysis struct {
	recv  string
	clone string
	modes map[string]string
	why   map[string]string
}

func (a *analysis) set(field, mode, why string) {
	// a later statement refines an earlier "Fresh" marker; anything else conflicting is Unknown
	old, had := a.modes[field]
	if !had || old == "FreshSlice" || old == "FreshMap" || old == "Zero" {
		a.modes[field] = mode
		a.why[field] = why
		return
	}
	if old == mode {
		return
	}
	a.modes[field] = "Unknown"
	a.why[field] = "conflicting: " + old + " then " + mode + " (" + why + ")"
}

func (a *analysis) classifyValue(field string, v ast.Expr) {
	recvF := func(e ast.Expr) bool { return isSel(e, a.recv, field) }
	switch {
	case recvF(v):
		a.set(field, "Shallow", "clone."+field+" = recv."+field)
	case isDeepCopyCallOn(v, recvF):
		a.set(field, "Call", "recv."+field+".DeepCopy()")
	default:
		if c, ok := v.(*ast.CallExpr); ok {
			fn := exprString(c.Fun)
			if fn == "make" && len(c.Args) >= 1 {
				switch c.Args[0].(type) {
				case *ast.ArrayType:
					a.set(field, "FreshSlice", "make slice")
					return
				case *ast.MapType:
					a.set(field, "FreshMap", "make map")
					return
				}
				if id, ok := c.Args[0].(*ast.Ident); ok {
					if under, ok := namedOther[id.Name]; ok {
						if _, isMap := under.(*ast.MapType); isMap {
							a.set(field, "FreshMap", "make named map")
							return
						}
						if _, isArr := under.(*ast.ArrayType); isArr {
							a.set(field, "FreshSlice", "make named slice")
							return
						}
					}
				}
			}
			if fn == "tools.Map" && len(c.Args) == 2 && recvF(c.Args[0]) && isElementDeepCopyFunc(c.Args[1]) {
				a.set(field, "SliceCall", "tools.Map(recv."+field+", x => x.DeepCopy())")
				return
			}
			if s, ok := c.Fun.(*ast.SelectorExpr); ok && s.Sel.Name == "Map" && recvF(s.X) && len(c.Args) == 1 && isElementDeepCopyFunc(c.Args[0]) {
				a.set(field, "OMapCall", "recv."+field+".Map((_, o) => o.DeepCopy())")
				return
			}
		}
		a.set(field, "Unknown", "unrecognised value expression "+exprString(v))
	}
}

func (a *analysis) cloneField(e ast.Expr) (string, bool) {
	s, ok := e.(*ast.SelectorExpr)
	if !ok {
		return "", false
	}
	id, ok := s.X.(*ast.Ident)
	if !ok || id.Name != a.clone {
		return "", false
	}
	return s.Sel.Name, true
}

func (a *analysis) stmt(st ast.Stmt) {
	switch s := st.(type) {
	case *ast.AssignStmt:
		if len(s.Lhs) != 1 || len(s.Rhs) != 1 {
			return
		}
		field, ok := a.cloneField(s.Lhs[0])
		if !ok {
			return
		}
		// clone.F = append(clone.F, recv.F...)
		if c, ok := s.Rhs[0].(*ast.CallExpr); ok && exprString(c.Fun) == "append" && len(c.Args) == 2 && c.Ellipsis != token.NoPos {
			if f2, ok := a.cloneField(c.Args[0]); ok && f2 == field && isSel(c.Args[1], a.recv, field) {
				a.set(field, "SliceFreshShallow", "append(clone."+field+", recv."+field+"...)")
				return
			}
		}
		a.classifyValue(field, s.Rhs[0])
	case *ast.RangeStmt:
		// for _, x := range recv.F { clone.F = append(clone.F, x.DeepCopy()) }
		// for k, v := range recv.F { clone.F[k] = v }
		sel, ok := s.X.(*ast.SelectorExpr)
		if !ok {
			return
		}
		id, ok := sel.X.(*ast.Ident)
		if !ok || id.Name != a.recv {
			return
		}
		field := sel.Sel.Name
		if len(s.Body.List) != 1 {
			a.set(field, "Unknown", "range body with several statements")
			return
		}
		as, ok := s.Body.List[0].(*ast.AssignStmt)
		if !ok || len(as.Lhs) != 1 || len(as.Rhs) != 1 {
			a.set(field, "Unknown", "range body not an assignment")
			return
		}
		valName := ""
		if v, ok := s.Value.(*ast.Ident); ok {
			valName = v.Name
		}
		keyName := ""
		if k, ok := s.Key.(*ast.Ident); ok {
			keyName = k.Name
		}
		if f2, ok := a.cloneField(as.Lhs[0]); ok && f2 == field {
			if c, ok := as.Rhs[0].(*ast.CallExpr); ok && exprString(c.Fun) == "append" && len(c.Args) == 2 {
				if f3, ok := a.cloneField(c.Args[0]); ok && f3 == field {
					if isDeepCopyCallOn(c.Args[1], func(b ast.Expr) bool { i, ok := b.(*ast.Ident); return ok && i.Name == valName }) {
						a.set(field, "SliceCall", "range + append(x.DeepCopy())")
						return
					}
					if i, ok := c.Args[1].(*ast.Ident); ok && i.Name == valName {
						a.set(field, "SliceFreshShallow", "range + append(x)")
						return
					}
				}
			}
		}
		if ix, ok := as.Lhs[0].(*ast.IndexExpr); ok {
			if f2, ok := a.cloneField(ix.X); ok && f2 == field {
				if k, ok := ix.Index.(*ast.Ident); ok && k.Name == keyName {
					if v, ok := as.Rhs[0].(*ast.Ident); ok && v.Name == valName {
						a.set(field, "MapFreshShallow", "range + clone."+field+"[k] = v")
						return
					}
				}
			}
		}
		a.set(field, "Unknown", "unrecognised range body")
	case *ast.IfStmt:
		// if recv.F != nil { tmp := recv.F.DeepCopy(); clone.F = &tmp }
		// if len(recv.F) != 0 { clone.F = make(...) }
		if s.Else != nil || s.Init != nil {
			return
		}
		if len(s.Body.List) == 2 {
			def, ok1 := s.Body.List[0].(*ast.AssignStmt)
			as, ok2 := s.Body.List[1].(*ast.AssignStmt)
			if ok1 && ok2 && def.Tok == token.DEFINE && len(def.Lhs) == 1 && len(as.Lhs) == 1 {
				tmp, _ := def.Lhs[0].(*ast.Ident)
				field, ok := a.cloneField(as.Lhs[0])
				if ok && tmp != nil {
					if u, ok := as.Rhs[0].(*ast.UnaryExpr); ok && u.Op == token.AND {
						if i, ok := u.X.(*ast.Ident); ok && i.Name == tmp.Name &&
							isDeepCopyCallOn(def.Rhs[0], func(b ast.Expr) bool { return isSel(b, a.recv, field) }) {
							a.set(field, "PtrCall", "if recv."+field+" != nil { tmp := recv."+field+".DeepCopy(); clone."+field+" = &tmp }")
							return
						}
					}
					a.set(field, "Unknown", "unrecognised if body")
					return
				}
			}
		}
		for _, b := range s.Body.List {
			a.stmt(b)
		}
	}
}

func analyse(name string, fn *ast.FuncDecl) (map[string]string, map[string]string) {
	a := &analysis{modes: map[string]string{}, why: map[string]string{}}
	if fn.Recv != nil && len(fn.Recv.List) == 1 && len(fn.Recv.List[0].Names) == 1 {
		a.recv = fn.Recv.List[0].Names[0].Name
	}
	handleLit := func(cl *ast.CompositeLit) bool {
		if exprString(cl.Type) != name {
			return false
		}
		for _, el := range cl.Elts {
			kv, ok := el.(*ast.KeyValueExpr)
			if !ok {
				continue
			}
			k, ok := kv.Key.(*ast.Ident)
			if !ok {
				continue
			}
			a.classifyValue(k.Name, kv.Value)
		}
		return true
	}
	for _, st := range fn.Body.List {
		switch s := st.(type) {
		case *ast.AssignStmt:
			if s.Tok == token.DEFINE && len(s.Lhs) == 1 && len(s.Rhs) == 1 {
				if cl, ok := s.Rhs[0].(*ast.CompositeLit); ok && a.clone == "" {
					if id, ok := s.Lhs[0].(*ast.Ident); ok && handleLit(cl) {
						a.clone = id.Name
						continue
					}
				}
			}
			a.stmt(st)
		case *ast.ReturnStmt:
			if len(s.Results) == 1 {
				if cl, ok := s.Results[0].(*ast.CompositeLit); ok {
					handleLit(cl)
				}
			}
		default:
			a.stmt(st)
		}
	}
	return a.modes, a.why
}

func main() {
	repo := "/repo"
	if len(os.Args) > 1 {
		repo = os.Args[1]
	}
	fset := token.NewFileSet()
	var files []*ast.File
	var names []string
	for _, dir := range []string{"internal/ast"} {
		matches, _ := filepath.Glob(filepath.Join(repo, dir, "*.go"))
		sort.Strings(matches)
		for _, m := range matches {
			if strings.HasSuffix(m, "_test.go") {
				continue
			}
			f, err := parser.ParseFile(fset, m, nil, 0)
			if err != nil {
				fmt.Fprintln(os.Stderr, "parse error:", err)
				os.Exit(1)
			}
			files = append(files, f)
			names = append(names, strings.TrimPrefix(m, repo+"/"))
		}
	}
	for i, f := range files {
		for _, d := range f.Decls {
			gd, ok := d.(*ast.GenDecl)
			if !ok || gd.Tok != token.TYPE {
				continue
			}
			for _, sp := range gd.Specs {
				ts := sp.(*ast.TypeSpec)
				if st, ok := ts.Type.(*ast.StructType); ok {
					structs[ts.Name.Name] = st
					structFile[ts.Name.Name] = names[i]
				} else {
					namedOther[ts.Name.Name] = ts.Type
				}
			}
		}
	}
	copyFns := map[string]*ast.FuncDecl{}
	for _, f := range files {
		for _, d := range f.Decls {
			fn, ok := d.(*ast.FuncDecl)
			if !ok || fn.Name.Name != "DeepCopy" || fn.Recv == nil || len(fn.Recv.List) != 1 {
				continue
			}
			t := fn.Recv.List[0].Type
			if st, ok := t.(*ast.StarExpr); ok {
				t = st.X
			}
			if id, ok := t.(*ast.Ident); ok {
				copyFns[id.Name] = fn
			}
		}
	}
	var out []Struct
	var sn []string
	for n := range structs {
		sn = append(sn, n)
	}
	sort.Strings(sn)
	for _, n := range sn {
		st := structs[n]
		s := Struct{Name: n, File: structFile[n]}
		var modes, why map[string]string
		if fn, ok := copyFns[n]; ok {
			s.HasCopy = true
			modes, why = analyse(n, fn)
		}
		for _, fl := range st.Fields.List {
			for _, nm := range fl.Names {
				f := Field{Name: nm.Name, Type: gty(fl.Type, 0)}
				if s.HasCopy {
					m, ok := modes[nm.Name]
					switch {
					case !ok:
						f.Mode = "Missing"
					case m == "FreshSlice" || m == "FreshMap":
						f.Mode = "Missing"
						f.Why = "container allocated but never filled"
					default:
						f.Mode = m
						f.Why = why[nm.Name]
					}
				} else {
					f.Mode = "NoCopyMethod"
				}
				s.Fields = append(s.Fields, f)
			}
		}
		out = append(out, s)
	}
	enc := json.NewEncoder(os.Stdout)
	enc.SetIndent("", " ")
	_ = enc.Encode(out)
}
