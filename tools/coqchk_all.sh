#!/bin/bash
# tools/coqchk_all.sh — re-check every compiled Props module (and everything it depends on) with the
# independent checker coqchk and collect the context summaries (axioms, type-in-type, unsafe fixpoints,
# assumed positivity) in evidence/coqchk_summary.txt.  Thorough-tier aid: minutes per module.
cd /verif/coq || exit 2
OUT=/verif/evidence/coqchk_summary.txt
mkdir -p /verif/scratch; TMP=$(mktemp -d /verif/scratch/coqchk.XXXX)
ls Props/C*.vo | sed 's|Props/\(C[0-9]*\)\.vo|\1|' | sort > $TMP/mods
cat $TMP/mods | xargs -P ${COQCHK_JOBS:-6} -I{} sh -c "timeout 5400 coqchk -silent -o -Q . Cog Cog.Props.{} > $TMP/{}.log 2>&1; echo \$? > $TMP/{}.rc"
{
  echo "coqchk -silent -o -Q . Cog Cog.Props.<id>   (Coq $(coqc --version | head -1))"
  date -u
  for m in $(cat $TMP/mods); do
    echo "=== Props/$m.vo  exit=$(cat $TMP/$m.rc)"
    sed -n '/CONTEXT SUMMARY/,$p' $TMP/$m.log | grep -v '^ *$'
  done
} > $OUT
rm -rf $TMP
grep -c "exit=0" $OUT; grep "exit=[^0]" $OUT
