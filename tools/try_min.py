#!/usr/bin/env python3
"""dev aid: run hand-written (format, schema text, type, documents) through cog + the driver and print what
the generated code does.  usage: try_min.py cases.json   (list of {fmt, text, type, docs})"""
import json, os, sys
sys.path.insert(0, os.path.dirname(os.path.dirname(os.path.abspath(__file__))))
from vlib import core, gencode
from gen import srcgen
cases = json.load(open(sys.argv[1]))
ctx = core.Ctx("TRYMIN", "quick", 0)
camp = gencode.Campaign(ctx, "m")
for k, c in enumerate(cases):
    pkg = "m%02d" % k
    c["sid"] = camp.add_schema_text(pkg, c["fmt"], c["text"].replace("PKG", pkg))
b = camp.prepare()
for c in cases:
    g = b.gen[c["sid"]]
    print("=====", c.get("name", c["sid"]), c["fmt"], g.status, g.stage, g.message[:300])
    if c["sid"] in b.compile_errors:
        print("  COMPILE ERROR:", b.compile_errors[c["sid"]][:500])
    if c["sid"] in b.import_fixups:
        print("  unused imports removed:", b.import_fixups[c["sid"]])
    if c["sid"] in b.ok_sids():
        c["job"] = camp.add_job(c["sid"], c["type"], [srcgen.loads(d) for d in c["docs"]])
camp.run()
items = [{"fmt": c["fmt"], "path": b.schema_path(c["sid"]), "type": c["type"], "docs": c["docs"]} for c in cases if "job" in c]
ver = gencode.ref_validate(ctx, items)
for c, v in zip([c for c in cases if "job" in c], ver):
    r = camp.results[c["job"]]
    print("-----", c.get("name", c["sid"]), "reference validator:", v)
    for d, x in zip(c["docs"], r["res"]):
        print("  doc", d)
        print("     std", x["std"], "enc", srcgen.dumps(x["enc"]) if x["enc"] is not None else None, "| validate", x["vals"], x["val"],
              "| strict", x["strict"], x["spaths"], "senc", srcgen.dumps(x["senc"]) if x["senc"] is not None else None)
    print("  equals", r["eq"])
if "--keep" in sys.argv:
    print(ctx.scratch)
else:
    ctx.cleanup()
