#!/usr/bin/env python3
"""dev aid: generate N schemas per format, run cog, build the driver, run a few documents."""
import json, os, random, sys, time
sys.path.insert(0, os.path.dirname(os.path.dirname(os.path.abspath(__file__))))
from vlib import core, gencode
from gen import srcgen

def main():
    n = int(sys.argv[1]) if len(sys.argv) > 1 else 5
    seed = int(sys.argv[2]) if len(sys.argv) > 2 else 1
    fmts = sys.argv[3].split(",") if len(sys.argv) > 3 else list(srcgen.FORMATS)
    ctx = core.Ctx("TRYGEN", "quick", seed)
    rng = ctx.rng
    b = gencode.Batch(ctx, "b0")
    t0 = time.time()
    k = 0
    for fmt in fmts:
        for i in range(n):
            s = srcgen.SrcGen(rng, max_depth=3, fmt=fmt).schema("s%03d" % k)
            k += 1
            b.add(s, fmt)
    b.generate()
    print("gen %.1fs" % (time.time() - t0))
    for sid, g in b.gen.items():
        if g.status != "OK":
            print(sid, b.schemas[sid][1], g)
    b.build_driver()
    print("build %.1fs" % (time.time() - t0), "compile errors:", len(b.compile_errors))
    for sid, e in b.compile_errors.items():
        print("COMPILE", sid, b.schemas[sid][1], e[:600])
    jobs = []
    for sid in b.ok_sids():
        s = b.schemas[sid][0]
        dg = srcgen.DocGen(rng, s)
        docs = [srcgen.dumps(dg.valid()) for _ in range(3)]
        jobs.append({"id": sid, "sid": sid, "type": "Root", "docs": docs})
    res = b.run(jobs)
    print("run %.1fs" % (time.time() - t0))
    items = [{"fmt": b.schemas[j["sid"]][1], "path": b.schema_path(j["sid"]), "type": "Root", "docs": j["docs"]} for j in jobs]
    ver = gencode.ref_validate(ctx, items)
    print("validate %.1fs" % (time.time() - t0))
    for j, r, v in zip(jobs, res, ver):
        print(j["sid"], b.schemas[j["sid"]][1], "ref:", v, [ (x["std"], x["strict"]) for x in r["res"]] if r else None)
        if "-v" in sys.argv:
            for d, x in zip(j["docs"], r["res"]):
                print("   ", d[:300]); print("   ->", json.dumps(x, default=str)[:400])
    print("scratch", ctx.scratch)

main()
