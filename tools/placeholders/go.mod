module placeholders

go 1.21
