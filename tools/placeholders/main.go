// placeholders: translator for C02.  Reads the jennies of /repo (Go sources with go/parser, templates as
// text) and emits the texts cog writes into GENERATED FILES when it meets a case it does not implement:
//
//   * Go string literals (outside panic / error constructors) that are exactly "unknown", or start with
//     "unhandled", "unsupported default value case", "/* unhandled" -- returned or assigned by the type
//     formatters and default-value printers;
//   * template lines carrying the marker "found an unimplemented" / "intentionally left uncommented".
//
// Output: JSON list on stdout, one entry per site:
//   {"lang","text","mode":"word"|"substring","file","line","func","kind":"go-literal"|"sprintf-format"|"template-line"}
// A site the translator cannot classify (marker word inside a concatenation or a non-literal format) is
// emitted with kind "unrecognised" and the raw source text: the Coq side treats it as not modelled.
package main

import (
	"encoding/json"
	"fmt"
	"go/ast"
	"go/parser"
	"go/token"
	"os"
	"path/filepath"
	"regexp"
	"sort"
	"strconv"
	"strings"
)

type Site struct {
	Lang string `json:"lang"`
	Text string `json:"text"`
	Mode string `json:"mode"`
	File string `json:"file"`
	Line int    `json:"line"`
	Func string `json:"func"`
	Kind string `json:"kind"`
}

var langOfDir = map[string]string{"golang": "go", "java": "java", "python": "python", "typescript": "typescript", "php": "php",
	"jsonschema": "jsonschema", "openapi": "openapi"}

var marker = regexp.MustCompile(`^(unknown$|unhandled|unsupported default value case|/\* unhandled)`)
var looseMarker = regexp.MustCompile(`(?i)\bunhandled\b|\bunimplemented\b|unsupported default value|should never be here`)
var tmplMarker = regexp.MustCompile(`found an unimplemented|intentionally left uncommented`)
var identLike = regexp.MustCompile(`^[A-Za-z_][A-Za-z0-9_]*$`)

func errorCall(call *ast.CallExpr) bool {
	switch f := call.Fun.(type) {
	case *ast.Ident:
		return f.Name == "panic"
	case *ast.SelectorExpr:
		if x, ok := f.X.(*ast.Ident); ok {
			if (x.Name == "fmt" && f.Sel.Name == "Errorf") || (x.Name == "errors" && f.Sel.Name == "New") || x.Name == "log" {
				return true
			}
		}
	}
	return false
}

func sprintfCall(call *ast.CallExpr) bool {
	if f, ok := call.Fun.(*ast.SelectorExpr); ok {
		if x, ok := f.X.(*ast.Ident); ok {
			return x.Name == "fmt" && (f.Sel.Name == "Sprintf" || f.Sel.Name == "Sprint")
		}
	}
	return false
}

func main() {
	repo := os.Args[1]
	root := filepath.Join(repo, "internal", "jennies")
	var sites []Site
	fset := token.NewFileSet()
	_ = filepath.Walk(root, func(path string, info os.FileInfo, err error) error {
		if err != nil || info.IsDir() {
			return nil
		}
		rel, _ := filepath.Rel(repo, path)
		parts := strings.Split(filepath.ToSlash(rel), "/")
		lang := langOfDir[parts[2]]
		if lang == "" {
			return nil
		}
		if strings.HasSuffix(path, ".tmpl") {
			raw, _ := os.ReadFile(path)
			for i, ln := range strings.Split(string(raw), "\n") {
				if !tmplMarker.MatchString(ln) {
					continue
				}
				text := ln
				for _, cut := range []string{"//", "{{", "→"} {
					if k := strings.Index(text, cut); k >= 0 {
						text = text[:k]
					}
				}
				text = strings.TrimSpace(text)
				if text == "" {
					continue
				}
				sites = append(sites, Site{Lang: lang, Text: text, Mode: "substring", File: filepath.ToSlash(rel), Line: i + 1, Kind: "template-line"})
			}
			return nil
		}
		if !strings.HasSuffix(path, ".go") || strings.HasSuffix(path, "_test.go") {
			return nil
		}
		file, err := parser.ParseFile(fset, path, nil, 0)
		if err != nil {
			fmt.Fprintln(os.Stderr, "parse error:", err)
			os.Exit(1)
		}
		for _, decl := range file.Decls {
			fn, ok := decl.(*ast.FuncDecl)
			if !ok || fn.Body == nil {
				continue
			}
			name := fn.Name.Name
			if fn.Recv != nil && len(fn.Recv.List) > 0 {
				t := fn.Recv.List[0].Type
				if st, ok := t.(*ast.StarExpr); ok {
					t = st.X
				}
				if id, ok := t.(*ast.Ident); ok {
					name = id.Name + "." + name
				}
			}
			var stack []ast.Node
			ast.Inspect(fn.Body, func(n ast.Node) bool {
				if n == nil {
					stack = stack[:len(stack)-1]
					return true
				}
				stack = append(stack, n)
				lit, ok := n.(*ast.BasicLit)
				if !ok || lit.Kind != token.STRING {
					return true
				}
				val, err := strconv.Unquote(lit.Value)
				if err != nil {
					return true
				}
				inError, inSprintf, inConcat, inCase := false, false, false, false
				for i := len(stack) - 2; i >= 0; i-- {
					switch p := stack[i].(type) {
					case *ast.CallExpr:
						if errorCall(p) {
							inError = true
						}
						if sprintfCall(p) && len(p.Args) > 0 && p.Args[0] == ast.Expr(lit) {
							inSprintf = true
						}
					case *ast.BinaryExpr:
						if p.Op == token.ADD {
							inConcat = true
						}
						if p.Op == token.EQL || p.Op == token.NEQ {
							inCase = true
						}
					case *ast.CaseClause:
						for _, e := range p.List {
							if e == ast.Expr(lit) {
								inCase = true
							}
						}
					}
				}
				if inError || inCase {
					return true
				}
				text := val
				kind := "go-literal"
				if inSprintf {
					kind = "sprintf-format"
					if k := strings.Index(text, "%"); k >= 0 {
						text = text[:k]
					}
				}
				// a literal that is itself a quoted string in the target language
				if len(text) > 2 && strings.HasPrefix(text, "\"") && strings.HasSuffix(text, "\"") {
					text = text[1 : len(text)-1]
				}
				pos := fset.Position(lit.Pos())
				switch {
				case marker.MatchString(text) && !inConcat:
					mode := "substring"
					if identLike.MatchString(text) {
						mode = "word"
					}
					sites = append(sites, Site{Lang: lang, Text: strings.TrimRight(text, " "), Mode: mode, File: filepath.ToSlash(rel), Line: pos.Line, Func: name, Kind: kind})
				case marker.MatchString(text) || looseMarker.MatchString(val):
					sites = append(sites, Site{Lang: lang, Text: val, Mode: "substring", File: filepath.ToSlash(rel), Line: pos.Line, Func: name, Kind: "unrecognised"})
				}
				return true
			})
		}
		return nil
	})
	sort.Slice(sites, func(i, j int) bool {
		if sites[i].File != sites[j].File {
			return sites[i].File < sites[j].File
		}
		return sites[i].Line < sites[j].Line
	})
	out, _ := json.MarshalIndent(sites, "", " ")
	fmt.Println(string(out))
}
