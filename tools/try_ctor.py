#!/usr/bin/env python3
"""dev aid (C10): N generated default-declaring schemas per format -> constructors in Go and Python vs declared."""
import json, os, sys, time
sys.path.insert(0, os.path.dirname(os.path.dirname(os.path.abspath(__file__))))
from vlib import core, gencode, gencode_py
from gen import srcgen, ctorgen

n = int(sys.argv[1]) if len(sys.argv) > 1 else 4
seed = int(sys.argv[2]) if len(sys.argv) > 2 else 1
fmts = sys.argv[3].split(",") if len(sys.argv) > 3 else list(srcgen.FORMATS)
ctx = core.Ctx("TRYCTOR", "quick", seed)
b = gencode_py.PyBatch(ctx, "b0")
k = 0
S = {}
for fmt in fmts:
    for i in range(n):
        s = ctorgen.CtorGen(ctx.rng, fmt).schema("s%03d" % k); k += 1
        b.add(s, fmt, text=ctorgen.render(s, fmt)); S[s["pkg"]] = s
t0 = time.time()
b.generate(); print("gen %.1fs" % (time.time() - t0))
b.build_driver(); print("build %.1fs" % (time.time() - t0))
for sid, s in S.items():
    fmt = b.schemas[sid][1]
    g = b.gen[sid]
    print("=====", sid, fmt, g.status, g.stage, g.message[:200], "| py:", b.pygen.get(sid))
    if "-t" in sys.argv: print(ctorgen.render(s, fmt))
    if g.status != "OK": continue
    if sid in b.compile_errors: print("  GO COMPILE:", b.compile_errors[sid][:500])
    for key, decls in ctorgen.all_declared(s).items():
        name = ctorgen.object_name(s, key, g.objects)
        pyname = ctorgen.object_name(s, key, b.pygen[sid].objects) if sid in b.pygen and b.pygen[sid].status == "OK" else None
        job = {"id": "j", "sid": sid, "type": name, "docs": [], "ops": ["ctor"]}
        gr = b.run([job])[0] if sid in b.ok_sids() and name else None
        pr = b.run_py([dict(job, type=pyname)])[0] if pyname else None
        print("  --", key, name, pyname)
        print("     declared:", [(d["field"], d["kind"], srcgen.dumps(d["value"])) for d in decls])
        print("     GO:", gr and (gr.get("ctors"), srcgen.dumps(gr["ctor"]) if gr.get("ctor") is not None else None))
        print("     PY:", pr and (pr.get("import"), pr.get("ctors"), pr.get("ctor_exc"), srcgen.dumps(pr["ctor"]) if pr.get("ctor") is not None else None))
if "-k" in sys.argv: print("scratch", ctx.scratch)
else: ctx.cleanup()
