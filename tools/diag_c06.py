#!/usr/bin/env python3
"""diagnose a C06 replay: offending objects, and the first pass of the chain after which each violation appears"""
import json, sys, os, re
sys.path.insert(0, os.path.dirname(os.path.dirname(os.path.abspath(__file__))))
from vlib import core, passlib
from tools.diag_c05 import CH  # noqa
d = json.load(open(sys.argv[1])); job = d["job"]; lang = job["lang"]
ctx = core.Ctx("DIAG6", "quick", 0)
try:
    binp = core.build_harness(ctx)
    chain = [p if isinstance(p, dict) else {"p": p} for p in CH.get(lang, [])] if lang in CH else []
    r = passlib.run_jobs(binp, [{"schemas": job["schemas"], "passes": [], "lang": lang}])[0]
    path = os.path.join(ctx.scratch, "off.v")
    with open(path, "w") as f:
        f.write(passlib.PREAMBLE % "Model.Spec06")
        f.write('Eval vm_compute in (match %s with Ok out => nf_offenders "%s" out | _ => [] end).\n' % (r["outcome"], lang))
    rc, out = core.coqc_file(path)
    offs = re.findall(r'\("([^"]*)", "([^"]*)", "([^"]*)"\)', re.sub(r"\s+", " ", out))
    print("offenders:", offs)
    for pkg, name, v in offs[:4]:
        m = re.search(r'\("%s", \(mkObject "%s".*?\) "%s" "%s"\)\)' % (re.escape(name), re.escape(name), re.escape(pkg), re.escape(name)), r["outcome"])
        if m:
            print("  AFTER CHAIN %s.%s: %s" % (pkg, name, m.group(0)[:1200]))
    print("INPUT:", r["input"][:3000])
finally:
    ctx.cleanup()
