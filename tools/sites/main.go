// sites: translator for C03. Lists every place where Go's randomised map iteration order can
// enter cog: every `range` statement whose operand has map type (go/types, so named map types,
// struct fields, generic parameters and index expressions are all resolved), and every call of
// a helper that returns the keys/values of a map in iteration order (tools.Keys,
// Languages.AsLanguageRefs, maps.Keys/Values, ... - found from the code, not from a name list).
// Each site gets a syntactic class of what the loop does with the order:
//
//   KeyedWrite       only `m2[k] = pure` / `delete(m2, k)` / `omap.Remove(k)` keyed by the loop key
//   CollectThenSort  only appends of pure values to one slice that is sorted (sort.* / slices.Sort*)
//                    before any other use
//   Commutative      only boolean any/all accumulation, counting, constant assignment, insertion of
//                    a constant into a set, early `return <constants>` under a pure condition
//   Combined         several of the above on distinct accumulators
//   Observable       anything else (never dropped, never guessed)
//
// The program is compiled INSIDE /repo's module through `go build -overlay` (as
// /repo/cmd/verifsites/main.go) so that golang.org/x/tools/go/packages - a dependency of cog,
// present in its module cache - is available offline; /repo itself is never written.
//
//   verifsites <repo> [-rewrite <outdir>]
//
// stdout: JSON {sites: [...], rewritten: {repo file -> rewritten copy}}.  With -rewrite, every
// reachable file containing a map range is copied to <outdir> with each `for k, v := range m`
// replaced by an iteration over verifhorder.Pairs(m) (key order dictated by the harness); used by
// the correspondence harness to SEARCH order dependence deterministically.  Build-time only.
package main

import (
	"bytes"
	"crypto/sha256"
	"encoding/hex"
	"encoding/json"
	"fmt"
	"go/ast"
	"go/printer"
	"go/token"
	"go/types"
	"os"
	"path/filepath"
	"sort"
	"strconv"
	"strings"

	"golang.org/x/tools/go/packages"
)

type Site struct {
	File     string   `json:"file"`
	Func     string   `json:"func"`
	Operand  string   `json:"operand"`
	Ordinal  int      `json:"ordinal"` // n-th site with the same (file, func, operand)
	Kind     string   `json:"kind"`    // range | call
	Class    string   `json:"class"`
	Atoms    []string `json:"atoms"`
	Why      string   `json:"why,omitempty"`
	Reach    bool     `json:"reach"` // package is linked into the cog binary / library
	Line     int      `json:"line"`
	KeyType  string   `json:"key_type"`
	BodyHash string   `json:"body_hash"`
}

type ctx struct {
	pkg   *packages.Package
	info  *types.Info
	fset  *token.FileSet
	file  *ast.File
	fname string
}

func (c *ctx) str(n ast.Node) string {
	var b bytes.Buffer
	_ = printer.Fprint(&b, c.fset, n)
	return strings.Join(strings.Fields(b.String()), " ")
}

func isMap(t types.Type) bool {
	if t == nil {
		return false
	}
	switch u := t.Underlying().(type) {
	case *types.Map:
		return true
	case *types.Interface:
		// type parameter with a map core type
		if tp, ok := t.(*types.TypeParam); ok {
			_ = tp
			if ct := coreType(u); ct != nil {
				_, ok := ct.(*types.Map)
				return ok
			}
		}
	}
	return false
}

func coreType(i *types.Interface) types.Type {
	var res types.Type
	for k := 0; k < i.NumEmbeddeds(); k++ {
		switch e := i.EmbeddedType(k).(type) {
		case *types.Union:
			for j := 0; j < e.Len(); j++ {
				u := e.Term(j).Type().Underlying()
				if res != nil && !types.Identical(res, u) {
					return nil
				}
				res = u
			}
		default:
			u := e.Underlying()
			if _, ok := u.(*types.Interface); ok {
				continue
			}
			res = u
		}
	}
	return res
}

// ---------------------------------------------------------------- purity
var purePkgs = map[string]bool{"strings": true, "strconv": true, "path/filepath": true, "path": true,
	"unicode": true, "math": true, "unicode/utf8": true}
var pureFmt = map[string]bool{"Sprintf": true, "Sprint": true, "Errorf": true}

func (c *ctx) calleeObj(call *ast.CallExpr) types.Object {
	switch f := call.Fun.(type) {
	case *ast.Ident:
		return c.info.Uses[f]
	case *ast.SelectorExpr:
		return c.info.Uses[f.Sel]
	case *ast.IndexExpr:
		if id, ok := f.X.(*ast.Ident); ok {
			return c.info.Uses[id]
		}
		if s, ok := f.X.(*ast.SelectorExpr); ok {
			return c.info.Uses[s.Sel]
		}
	}
	return nil
}

// pure: evaluating the expression has no effect and reads no state a loop iteration could have
// written through a call. Calls are allowed only to conversions, builtins, side-effect-free
// stdlib string helpers and DeepCopy methods (C18).
func (c *ctx) pure(e ast.Expr) bool {
	ok := true
	ast.Inspect(e, func(n ast.Node) bool {
		if !ok {
			return false
		}
		switch x := n.(type) {
		case *ast.FuncLit:
			ok = false
		case *ast.UnaryExpr:
			if x.Op == token.ARROW {
				ok = false
			}
		case *ast.CallExpr:
			if tv, found := c.info.Types[x.Fun]; found && tv.IsType() {
				return true // conversion
			}
			obj := c.calleeObj(x)
			switch o := obj.(type) {
			case *types.Builtin:
				switch o.Name() {
				case "len", "cap", "make", "new", "append", "min", "max", "complex", "real", "imag":
					return true
				}
				ok = false
			case *types.Func:
				if o.Pkg() != nil {
					p := o.Pkg().Path()
					if purePkgs[p] || (p == "fmt" && pureFmt[o.Name()]) {
						return true
					}
				}
				if o.Name() == "DeepCopy" {
					return true
				}
				// kind predicates / payload getters of the IR (internal/ast): read-only
				if o.Pkg() != nil && strings.HasSuffix(o.Pkg().Path(), "/internal/ast") && isGetterName(o.Name()) {
					return true
				}
				ok = false
			default:
				ok = false
			}
		}
		return true
	})
	return ok
}

func isGetterName(n string) bool {
	for _, p := range []string{"As", "Is", "Has"} {
		if strings.HasPrefix(n, p) && len(n) > len(p) && n[len(p)] >= 'A' && n[len(p)] <= 'Z' {
			return true
		}
	}
	return false
}

func (c *ctx) isConst(e ast.Expr) bool {
	if tv, ok := c.info.Types[e]; ok && tv.Value != nil {
		return true
	}
	switch x := e.(type) {
	case *ast.Ident:
		return x.Name == "true" || x.Name == "false" || x.Name == "nil"
	case *ast.CompositeLit:
		return len(x.Elts) == 0 // struct{}{}
	}
	return false
}

func (c *ctx) usesIdent(n ast.Node, obj types.Object) bool {
	if obj == nil || n == nil {
		return false
	}
	found := false
	ast.Inspect(n, func(m ast.Node) bool {
		if id, ok := m.(*ast.Ident); ok && (c.info.Uses[id] == obj || c.info.Defs[id] == obj) {
			found = true
		}
		return !found
	})
	return found
}

func (c *ctx) objOf(e ast.Expr) types.Object {
	id, ok := e.(*ast.Ident)
	if !ok || id.Name == "_" {
		return nil
	}
	if o := c.info.Defs[id]; o != nil {
		return o
	}
	return c.info.Uses[id]
}

func (c *ctx) isOrderedMap(t types.Type) bool {
	if t == nil {
		return false
	}
	if p, ok := t.(*types.Pointer); ok {
		t = p.Elem()
	}
	n, ok := t.(*types.Named)
	return ok && n.Obj().Pkg() != nil && strings.HasSuffix(n.Obj().Pkg().Path(), "internal/orderedmap") && n.Obj().Name() == "Map"
}

func isNumeric(t types.Type) bool {
	b, ok := t.Underlying().(*types.Basic)
	return ok && b.Info()&types.IsNumeric != 0
}

func isBool(t types.Type) bool {
	b, ok := t.Underlying().(*types.Basic)
	return ok && b.Info()&types.IsBoolean != 0
}

// ---------------------------------------------------------------- loop classification
type loopInfo struct {
	key, val types.Object
	operand  ast.Expr
	atoms    []string
	collect  map[string]ast.Expr // rendered slice expression -> expr, appended to in the loop
	why      string
}

func (c *ctx) classifyStmts(li *loopInfo, stmts []ast.Stmt) bool {
	for _, s := range stmts {
		if !c.classifyStmt(li, s) {
			return false
		}
	}
	return true
}

func (c *ctx) fail(li *loopInfo, n ast.Node, why string) bool {
	if li.why == "" {
		li.why = why + ": " + trunc(c.str(n), 90)
	}
	return false
}

func trunc(s string, n int) string {
	if len(s) > n {
		return s[:n] + "..."
	}
	return s
}

func (c *ctx) classifyStmt(li *loopInfo, s ast.Stmt) bool {
	switch st := s.(type) {
	case *ast.EmptyStmt:
		return true
	case *ast.BranchStmt:
		if st.Tok == token.CONTINUE && st.Label == nil {
			return true
		}
		return c.fail(li, s, "branch out of the loop")
	case *ast.IfStmt:
		if st.Init != nil || !c.pure(st.Cond) {
			return c.fail(li, st.Cond, "condition with a call or init statement")
		}
		if !c.classifyStmts(li, st.Body.List) {
			return false
		}
		switch e := st.Else.(type) {
		case nil:
			return true
		case *ast.BlockStmt:
			return c.classifyStmts(li, e.List)
		case *ast.IfStmt:
			return c.classifyStmt(li, e)
		}
		return c.fail(li, s, "else form")
	case *ast.ReturnStmt:
		for _, r := range st.Results {
			if !c.isConst(r) {
				return c.fail(li, s, "return of a non-constant from inside the loop")
			}
		}
		li.atoms = append(li.atoms, "Commutative:return-const")
		return true
	case *ast.IncDecStmt:
		if tv, ok := c.info.Types[st.X]; ok && isNumeric(tv.Type) {
			li.atoms = append(li.atoms, "Commutative:count")
			return true
		}
		return c.fail(li, s, "inc/dec of non-numeric")
	case *ast.ExprStmt:
		call, ok := st.X.(*ast.CallExpr)
		if !ok {
			return c.fail(li, s, "expression statement")
		}
		// delete(m2, k)
		if id, ok := call.Fun.(*ast.Ident); ok && id.Name == "delete" && len(call.Args) == 2 {
			if _, isB := c.info.Uses[id].(*types.Builtin); isB && li.key != nil && c.objOf(call.Args[1]) == li.key && c.pure(call.Args[0]) {
				li.atoms = append(li.atoms, "KeyedWrite:delete")
				return true
			}
		}
		// omap.Remove(k)
		if sel, ok := call.Fun.(*ast.SelectorExpr); ok && sel.Sel.Name == "Remove" && len(call.Args) == 1 {
			if tv, ok := c.info.Types[sel.X]; ok && c.isOrderedMap(tv.Type) && li.key != nil && c.objOf(call.Args[0]) == li.key && c.pure(sel.X) {
				li.atoms = append(li.atoms, "KeyedWrite:omap-remove")
				return true
			}
		}
		return c.fail(li, s, "call with possible side effects")
	case *ast.AssignStmt:
		if len(st.Lhs) != 1 || len(st.Rhs) != 1 {
			return c.fail(li, s, "multi-assignment")
		}
		lhs, rhs := st.Lhs[0], st.Rhs[0]
		if st.Tok == token.DEFINE {
			// a loop-local variable holding a pure value
			if c.pure(rhs) {
				return true
			}
			return c.fail(li, s, "local defined from a call")
		}
		// m2[k] = pure  /  set[pure] = const
		if ix, ok := lhs.(*ast.IndexExpr); ok && st.Tok == token.ASSIGN {
			if tv, ok := c.info.Types[ix.X]; ok && isMap(tv.Type) && c.pure(ix.X) {
				if li.key != nil && c.objOf(ix.Index) == li.key && c.pure(rhs) {
					li.atoms = append(li.atoms, "KeyedWrite:index")
					return true
				}
				if c.pure(ix.Index) && c.isConst(rhs) {
					li.atoms = append(li.atoms, "Commutative:set-insert")
					return true
				}
			}
			if li.key != nil && c.objOf(ix.Index) == li.key {
				return c.fail(li, s, "keyed write whose value is computed by a call")
			}
			return c.fail(li, s, "indexed write not keyed by the loop key")
		}
		// s = append(s, pure...)
		if call, ok := rhs.(*ast.CallExpr); ok && st.Tok == token.ASSIGN {
			if id, ok := call.Fun.(*ast.Ident); ok && id.Name == "append" && len(call.Args) >= 2 {
				if _, isB := c.info.Uses[id].(*types.Builtin); isB && c.str(call.Args[0]) == c.str(lhs) && c.pure(lhs) {
					for _, a := range call.Args[1:] {
						if !c.pure(a) {
							return c.fail(li, a, "appended value computed by a call")
						}
					}
					li.collect[c.str(lhs)] = lhs
					li.atoms = append(li.atoms, "CollectThenSort:append")
					return true
				}
			}
		}
		tv, ok := c.info.Types[lhs]
		if !ok || !c.pure(lhs) {
			return c.fail(li, s, "assignment target")
		}
		switch st.Tok {
		case token.ASSIGN:
			if c.isConst(rhs) {
				li.atoms = append(li.atoms, "Commutative:const-assign")
				return true
			}
			// x = x || e ; x = x && e
			if be, ok := rhs.(*ast.BinaryExpr); ok && (be.Op == token.LOR || be.Op == token.LAND) && isBool(tv.Type) &&
				(c.str(be.X) == c.str(lhs) || c.str(be.Y) == c.str(lhs)) && c.pure(rhs) {
				li.atoms = append(li.atoms, "Commutative:bool-acc")
				return true
			}
		case token.ADD_ASSIGN, token.OR_ASSIGN, token.AND_ASSIGN, token.MUL_ASSIGN, token.XOR_ASSIGN:
			if isNumeric(tv.Type) && c.pure(rhs) {
				li.atoms = append(li.atoms, "Commutative:count")
				return true
			}
		}
		return c.fail(li, s, "assignment that keeps a loop-dependent value")
	case *ast.DeclStmt:
		return true
	}
	return c.fail(li, s, "statement form")
}

var sortFuncs = map[string]bool{"sort.Strings": true, "sort.Ints": true, "sort.Float64s": true, "sort.Slice": true,
	"sort.SliceStable": true, "slices.Sort": true, "slices.SortFunc": true, "slices.SortStableFunc": true}

func (c *ctx) isSortOf(s ast.Stmt, slice string) bool {
	es, ok := s.(*ast.ExprStmt)
	if !ok {
		return false
	}
	call, ok := es.X.(*ast.CallExpr)
	if !ok || len(call.Args) == 0 {
		return false
	}
	fn, ok := c.calleeObj(call).(*types.Func)
	if !ok || fn.Pkg() == nil {
		return false
	}
	return sortFuncs[fn.Pkg().Path()+"."+fn.Name()] && c.str(call.Args[0]) == slice
}

func (c *ctx) mentions(n ast.Node, text string) bool {
	found := false
	ast.Inspect(n, func(m ast.Node) bool {
		if e, ok := m.(ast.Expr); ok && !found {
			switch e.(type) {
			case *ast.Ident, *ast.SelectorExpr:
				if c.str(e) == text {
					found = true
				}
			}
		}
		return !found
	})
	return found
}

// sortedBeforeUse: among the statements following the loop in its block, the first one that
// mentions the slice is a sort of exactly that slice.
func (c *ctx) sortedBeforeUse(following []ast.Stmt, slice string) bool {
	for _, s := range following {
		if c.isSortOf(s, slice) {
			return true
		}
		if c.mentions(s, slice) {
			return false
		}
	}
	return false
}

func summarize(atoms []string) string {
	kinds := map[string]bool{}
	for _, a := range atoms {
		kinds[strings.SplitN(a, ":", 2)[0]] = true
	}
	switch len(kinds) {
	case 0:
		return "Commutative" // empty body / only local definitions and `continue`
	case 1:
		for k := range kinds {
			return k
		}
	}
	return "Combined"
}

func uniq(xs []string) []string {
	m := map[string]bool{}
	out := []string{}
	for _, x := range xs {
		if !m[x] {
			m[x] = true
			out = append(out, x)
		}
	}
	sort.Strings(out)
	return out
}

// ---------------------------------------------------------------- walking
type walker struct {
	c        *ctx
	sites    *[]Site
	funcName string
	counts   map[string]int
	reach    bool
	ranges   *[]rangeSite
	helpers  map[types.Object]bool
}

type rangeSite struct {
	r  *ast.RangeStmt
	id string
}

func (w *walker) add(kind string, operand ast.Expr, node ast.Node, class string, atoms []string, why, keyType string) string {
	c := w.c
	op := c.str(operand)
	k := w.funcName + "\x00" + op + "\x00" + kind
	w.counts[k]++
	h := sha256.Sum256([]byte(c.str(node)))
	rel := c.fname
	*w.sites = append(*w.sites, Site{File: rel, Func: w.funcName, Operand: op, Ordinal: w.counts[k], Kind: kind, Class: class,
		Atoms: uniq(atoms), Why: why, Reach: w.reach, Line: c.fset.Position(node.Pos()).Line, KeyType: keyType,
		BodyHash: hex.EncodeToString(h[:6])})
	return fmt.Sprintf("%s:%s:%s#%d", rel, w.funcName, op, w.counts[k])
}

func (w *walker) block(list []ast.Stmt) {
	for i, s := range list {
		w.stmt(s, list[i+1:])
	}
}

func (w *walker) stmt(s ast.Stmt, following []ast.Stmt) {
	c := w.c
	if ls, ok := s.(*ast.LabeledStmt); ok {
		w.stmt(ls.Stmt, following)
		return
	}
	if r, ok := s.(*ast.RangeStmt); ok {
		if tv, ok := c.info.Types[r.X]; ok && isMap(tv.Type) {
			li := &loopInfo{operand: r.X, collect: map[string]ast.Expr{}}
			if r.Key != nil {
				li.key = c.objOf(r.Key)
			}
			if r.Value != nil {
				li.val = c.objOf(r.Value)
			}
			class := "Observable"
			if r.Tok == token.ASSIGN {
				li.why = "loop variables assigned to outer variables"
			} else if c.classifyStmts(li, r.Body.List) {
				class = summarize(li.atoms)
				for text := range li.collect {
					if !c.sortedBeforeUse(following, text) {
						class = "Observable"
						li.why = "slice " + text + " is appended to in map order and not sorted before its next use"
					}
				}
			}
			kt := ""
			if m, ok := tv.Type.Underlying().(*types.Map); ok {
				kt = m.Key().String()
			}
			id := w.add("range", r.X, r, class, li.atoms, li.why, kt)
			*w.ranges = append(*w.ranges, rangeSite{r, id})
		}
	}
	// calls of order-leaking helpers anywhere in this statement (not descending into nested
	// statements: they are visited on their own)
	w.helperCalls(s, following)
	// recurse into nested statement lists
	switch st := s.(type) {
	case *ast.BlockStmt:
		w.block(st.List)
	case *ast.IfStmt:
		w.block(st.Body.List)
		if st.Else != nil {
			w.stmt(st.Else, nil)
		}
	case *ast.ForStmt:
		w.block(st.Body.List)
	case *ast.RangeStmt:
		w.block(st.Body.List)
	case *ast.SwitchStmt:
		w.block(st.Body.List)
	case *ast.TypeSwitchStmt:
		w.block(st.Body.List)
	case *ast.SelectStmt:
		w.block(st.Body.List)
	case *ast.CaseClause:
		w.block(st.Body)
	case *ast.CommClause:
		w.block(st.Body)
	}
	// function literals inside the statement's own expressions
	w.funcLits(s)
}

func ownExprs(s ast.Stmt) []ast.Node {
	var out []ast.Node
	switch st := s.(type) {
	case *ast.ExprStmt:
		out = append(out, st.X)
	case *ast.AssignStmt:
		for _, e := range st.Lhs {
			out = append(out, e)
		}
		for _, e := range st.Rhs {
			out = append(out, e)
		}
	case *ast.ReturnStmt:
		for _, e := range st.Results {
			out = append(out, e)
		}
	case *ast.IfStmt:
		if st.Init != nil {
			out = append(out, ownExprs(st.Init)...)
		}
		out = append(out, st.Cond)
	case *ast.ForStmt:
		if st.Init != nil {
			out = append(out, ownExprs(st.Init)...)
		}
		if st.Cond != nil {
			out = append(out, st.Cond)
		}
		if st.Post != nil {
			out = append(out, ownExprs(st.Post)...)
		}
	case *ast.RangeStmt:
		out = append(out, st.X)
	case *ast.SwitchStmt:
		if st.Init != nil {
			out = append(out, ownExprs(st.Init)...)
		}
		if st.Tag != nil {
			out = append(out, st.Tag)
		}
	case *ast.TypeSwitchStmt:
		if st.Init != nil {
			out = append(out, ownExprs(st.Init)...)
		}
		out = append(out, ownExprs(st.Assign)...)
	case *ast.CaseClause:
		for _, e := range st.List {
			out = append(out, e)
		}
	case *ast.DeclStmt:
		out = append(out, st.Decl)
	case *ast.DeferStmt:
		out = append(out, st.Call)
	case *ast.GoStmt:
		out = append(out, st.Call)
	case *ast.SendStmt:
		out = append(out, st.Chan, st.Value)
	case *ast.IncDecStmt:
		out = append(out, st.X)
	}
	return out
}

func (w *walker) funcLits(s ast.Stmt) {
	for _, e := range ownExprs(s) {
		ast.Inspect(e, func(n ast.Node) bool {
			if fl, ok := n.(*ast.FuncLit); ok {
				w.block(fl.Body.List)
				return false
			}
			return true
		})
	}
}

func (w *walker) helperCalls(s ast.Stmt, following []ast.Stmt) {
	c := w.c
	for _, e := range ownExprs(s) {
		ast.Inspect(e, func(n ast.Node) bool {
			if _, ok := n.(*ast.FuncLit); ok {
				return false
			}
			call, ok := n.(*ast.CallExpr)
			if !ok {
				return true
			}
			obj := c.calleeObj(call)
			fn, ok := obj.(*types.Func)
			if !ok {
				return true
			}
			if fn.Origin() != nil {
				fn = fn.Origin()
			}
			std := fn.Pkg() != nil && (fn.Pkg().Path() == "maps" || fn.Pkg().Path() == "golang.org/x/exp/maps") &&
				(fn.Name() == "Keys" || fn.Name() == "Values" || fn.Name() == "All")
			if !w.helpers[fn] && !std {
				return true
			}
			// classified by what happens to the result
			class, why := "Observable", "result of an order-leaking helper used without sorting"
			if as, ok := s.(*ast.AssignStmt); ok && len(as.Lhs) == 1 && len(as.Rhs) == 1 && as.Rhs[0] == ast.Expr(call) {
				if c.sortedBeforeUse(following, c.str(as.Lhs[0])) {
					class, why = "CollectThenSort", ""
				}
			}
			// slices.Sorted(maps.Keys(m))
			var operand ast.Expr = call.Fun
			if len(call.Args) > 0 {
				operand = call.Args[0]
			} else if sel, ok := call.Fun.(*ast.SelectorExpr); ok {
				operand = sel.X
			}
			w.add("call", operand, call, class, []string{"HelperCall:" + fn.Name()}, why, "")
			return true
		})
	}
}

// leaksOrder: the function contains a map range that appends to a slice which is not sorted
// and returns a slice: its callers see map order.
func leaksOrder(c *ctx, fd *ast.FuncDecl) bool {
	if fd.Body == nil || fd.Type.Results == nil {
		return false
	}
	returnsSlice := false
	for _, r := range fd.Type.Results.List {
		if tv, ok := c.info.Types[r.Type]; ok {
			if _, ok := tv.Type.Underlying().(*types.Slice); ok {
				returnsSlice = true
			}
		}
	}
	if !returnsSlice {
		return false
	}
	leak := false
	var visit func(list []ast.Stmt)
	visit = func(list []ast.Stmt) {
		for i, s := range list {
			if r, ok := s.(*ast.RangeStmt); ok {
				if tv, ok := c.info.Types[r.X]; ok && isMap(tv.Type) {
					li := &loopInfo{collect: map[string]ast.Expr{}}
					if r.Key != nil {
						li.key = c.objOf(r.Key)
					}
					if c.classifyStmts(li, r.Body.List) && len(li.collect) > 0 && len(r.Body.List) == 1 {
						for text := range li.collect {
							if !c.sortedBeforeUse(list[i+1:], text) {
								// returned?
								for _, f := range list[i+1:] {
									if ret, ok := f.(*ast.ReturnStmt); ok {
										for _, e := range ret.Results {
											if c.str(e) == text {
												leak = true
											}
										}
									}
								}
							}
						}
					}
				}
			}
		}
	}
	visit(fd.Body.List)
	return leak
}

func funcName(fd *ast.FuncDecl) string {
	if fd.Recv != nil && len(fd.Recv.List) > 0 {
		t := fd.Recv.List[0].Type
		for {
			switch x := t.(type) {
			case *ast.StarExpr:
				t = x.X
				continue
			case *ast.IndexExpr:
				t = x.X
				continue
			case *ast.IndexListExpr:
				t = x.X
				continue
			}
			break
		}
		if id, ok := t.(*ast.Ident); ok {
			return id.Name + "." + fd.Name.Name
		}
	}
	return fd.Name.Name
}

// ---------------------------------------------------------------- rewriting
type edit struct {
	off  int
	del  int
	text string
}

func rewriteFile(c *ctx, src []byte, ranges []rangeSite) []byte {
	var edits []edit
	tf := c.fset.File(c.file.Pos())
	for i, rs := range ranges {
		r := rs.r
		// `for K, V := range X {`  ->  `for _, verifP<i> := range verifhorder.Pairs(X) { K, V := verifP<i>.K, verifP<i>.V; _, _ = K, V;`
		name := fmt.Sprintf("verifP%d", i)
		forOff := tf.Offset(r.For)
		xOff, xEnd := tf.Offset(r.X.Pos()), tf.Offset(r.X.End())
		lb := tf.Offset(r.Body.Lbrace)
		head := fmt.Sprintf("for _, %s := range verifhorder.Pairs(%s, %s) ", name, string(src[xOff:xEnd]), strconv.Quote(rs.id))
		var bind string
		tok := ":="
		if r.Tok == token.ASSIGN {
			tok = "="
		}
		ks, vs := "", ""
		if id, ok := r.Key.(*ast.Ident); r.Key != nil && (!ok || id.Name != "_") {
			ks = string(src[tf.Offset(r.Key.Pos()):tf.Offset(r.Key.End())])
		}
		if r.Value != nil {
			if id, ok := r.Value.(*ast.Ident); !ok || id.Name != "_" {
				vs = string(src[tf.Offset(r.Value.Pos()):tf.Offset(r.Value.End())])
			}
		}
		switch {
		case ks != "" && vs != "":
			bind = fmt.Sprintf(" %s, %s %s %s.K, %s.V; _, _ = %s, %s;", ks, vs, tok, name, name, ks, vs)
		case ks != "":
			bind = fmt.Sprintf(" %s %s %s.K; _ = %s;", ks, tok, name, ks)
		case vs != "":
			bind = fmt.Sprintf(" %s %s %s.V; _ = %s;", vs, tok, name, vs)
		default:
			bind = fmt.Sprintf(" _ = %s;", name)
		}
		edits = append(edits, edit{off: forOff, del: lb - forOff, text: head})
		edits = append(edits, edit{off: lb + 1, del: 0, text: bind})
	}
	// import right after the package clause
	pkgEnd := tf.Offset(c.file.Name.End())
	edits = append(edits, edit{off: pkgEnd, del: 0, text: "\nimport verifhorder \"github.com/grafana/cog/internal/verifhorder\"\n"})
	sort.SliceStable(edits, func(i, j int) bool { return edits[i].off < edits[j].off })
	var out bytes.Buffer
	pos := 0
	for _, e := range edits {
		out.Write(src[pos:e.off])
		out.WriteString(e.text)
		pos = e.off + e.del
	}
	out.Write(src[pos:])
	return out.Bytes()
}

func main() {
	if len(os.Args) < 2 {
		fmt.Fprintln(os.Stderr, "usage: verifsites <repo> [-rewrite outdir]")
		os.Exit(2)
	}
	repo, _ := filepath.Abs(os.Args[1])
	rewriteDir := ""
	if len(os.Args) >= 4 && os.Args[2] == "-rewrite" {
		rewriteDir = os.Args[3]
	}
	cfg := &packages.Config{Mode: packages.NeedName | packages.NeedFiles | packages.NeedSyntax | packages.NeedTypes |
		packages.NeedTypesInfo | packages.NeedImports | packages.NeedDeps, Dir: repo, Tests: false}
	pkgs, err := packages.Load(cfg, "./internal/...", "./cmd/...", ".")
	if err != nil {
		fmt.Fprintln(os.Stderr, "load:", err)
		os.Exit(1)
	}
	sort.Slice(pkgs, func(i, j int) bool { return pkgs[i].PkgPath < pkgs[j].PkgPath })
	// reachability: transitive imports of cmd/cli and of the root (library) package
	reach := map[string]bool{}
	var mark func(p *packages.Package)
	mark = func(p *packages.Package) {
		if reach[p.PkgPath] {
			return
		}
		reach[p.PkgPath] = true
		for _, q := range p.Imports {
			mark(q)
		}
	}
	var modPath string
	for _, p := range pkgs {
		if strings.HasSuffix(p.PkgPath, "/cmd/cli") {
			modPath = strings.TrimSuffix(p.PkgPath, "/cmd/cli")
		}
	}
	nerr := 0
	for _, p := range pkgs {
		if p.PkgPath == modPath || p.PkgPath == modPath+"/cmd/cli" {
			mark(p)
		}
		for _, e := range p.Errors {
			fmt.Fprintln(os.Stderr, "type error:", p.PkgPath, e)
			nerr++
		}
	}
	if nerr > 0 || modPath == "" {
		// an untyped package would silently lose sites: refuse
		fmt.Fprintln(os.Stderr, "sites: packages did not load cleanly")
		os.Exit(1)
	}
	// pass 1: order-leaking helpers
	helpers := map[types.Object]bool{}
	for _, p := range pkgs {
		for _, f := range p.Syntax {
			c := &ctx{pkg: p, info: p.TypesInfo, fset: p.Fset, file: f}
			for _, d := range f.Decls {
				if fd, ok := d.(*ast.FuncDecl); ok && leaksOrder(c, fd) {
					helpers[p.TypesInfo.Defs[fd.Name]] = true
				}
			}
		}
	}
	sites := []Site{}
	rewritten := map[string]string{}
	nfiles := 0
	for _, p := range pkgs {
		for _, f := range p.Syntax {
			fname := p.Fset.Position(f.Pos()).Filename
			rel, err := filepath.Rel(repo, fname)
			if err != nil || strings.HasPrefix(rel, "..") {
				continue
			}
			if strings.HasSuffix(rel, "_test.go") || strings.HasPrefix(rel, "cmd/verif") {
				continue
			}
			nfiles++
			c := &ctx{pkg: p, info: p.TypesInfo, fset: p.Fset, file: f, fname: rel}
			var ranges []rangeSite
			counts := map[string]int{}
			for _, d := range f.Decls {
				switch x := d.(type) {
				case *ast.FuncDecl:
					if x.Body == nil {
						continue
					}
					w := &walker{c: c, sites: &sites, funcName: funcName(x), counts: counts, reach: reach[p.PkgPath], ranges: &ranges, helpers: helpers}
					w.block(x.Body.List)
				case *ast.GenDecl:
					// function literals in package-level variable initialisers
					w := &walker{c: c, sites: &sites, funcName: "<package-level>", counts: counts, reach: reach[p.PkgPath], ranges: &ranges, helpers: helpers}
					ast.Inspect(x, func(n ast.Node) bool {
						if fl, ok := n.(*ast.FuncLit); ok {
							w.block(fl.Body.List)
							return false
						}
						return true
					})
				}
			}
			if rewriteDir != "" && len(ranges) > 0 && reach[p.PkgPath] {
				src, err := os.ReadFile(fname)
				if err != nil {
					fmt.Fprintln(os.Stderr, err)
					os.Exit(1)
				}
				out := filepath.Join(rewriteDir, strings.ReplaceAll(rel, "/", "__"))
				if err := os.WriteFile(out, rewriteFile(c, src, ranges), 0o644); err != nil {
					fmt.Fprintln(os.Stderr, err)
					os.Exit(1)
				}
				rewritten[fname] = out
			}
		}
	}
	sort.SliceStable(sites, func(i, j int) bool {
		if sites[i].File != sites[j].File {
			return sites[i].File < sites[j].File
		}
		return sites[i].Line < sites[j].Line
	})
	hs := []string{}
	for h := range helpers {
		hs = append(hs, h.Pkg().Path()+"."+h.Name())
	}
	sort.Strings(hs)
	enc := json.NewEncoder(os.Stdout)
	enc.SetIndent("", " ")
	_ = enc.Encode(map[string]any{"sites": sites, "rewritten": rewritten, "helpers": hs, "files_scanned": nfiles, "packages": len(pkgs)})
}
