#!/usr/bin/env python3
"""Development aid for the language-chain pass models (coq/Model/PassesChain.v): like
try_passes.py, plus
  * --seq NAME   run a fixed pass sequence (go, java, php, python, typescript, or a
                 comma-separated list of pass kinds) or a prefix of it (--prefix) on every case
  * --chain      generator feature "chain" (shapes the chain passes care about)
  * jobs that kill the harness (fatal stack overflow on a reference cycle) are checked too:
    the model must answer OutOfFuel for them, and must not answer OutOfFuel for any other job
  * cases in which a later pass runs on a result where an earlier pass left shared pointers
    (flag `alias_sensitive` of Model/SpecChain.v) are counted apart and not compared.

  tools/try_chain.py --kinds disjunction_to_type --n 500 --seed 3 --depth 4 --chain
  tools/try_chain.py --seq go --prefix --n 500 --seed 1 --chain
"""
import argparse
import json
import os
import random
import sys

sys.path.insert(0, os.path.dirname(os.path.dirname(os.path.abspath(__file__))))
from gen import irgen  # noqa: E402
from vlib import core, passlib  # noqa: E402

PHP_INLINE = {"p": "inline_objects_with_types", "kinds": ["scalar", "array", "map", "disjunction"]}
SEQS = {
    "go": ["anonymous_structs_to_named", "not_required_field_as_nullable_type", "disjunction_with_null_to_optional",
           "disjunction_of_constants_to_enum", "anonymous_enum_to_explicit_type", "prefix_enum_values",
           "flatten_disjunctions", "disjunction_of_anonymous_structs_to_explicit", "disjunction_infer_mapping",
           "undiscriminated_disjunction_to_any", "disjunction_to_type"],
    "java": ["anonymous_structs_to_named", "not_required_field_as_nullable_type", "disjunction_with_null_to_optional",
             "disjunction_of_constants_to_enum", "anonymous_enum_to_explicit_type", "flatten_disjunctions",
             "disjunction_infer_mapping", "undiscriminated_disjunction_to_any", "disjunction_to_type",
             "remove_intersections"],
    "php": ["anonymous_structs_to_named", "not_required_field_as_nullable_type", "disjunction_with_null_to_optional",
            "disjunction_of_constants_to_enum", "anonymous_enum_to_explicit_type", "sanitize_enum_member_names",
            "flatten_disjunctions", "disjunction_infer_mapping", "undiscriminated_disjunction_to_any", PHP_INLINE],
    "python": ["anonymous_structs_to_named", "not_required_field_as_nullable_type", "disjunction_with_null_to_optional",
               "disjunction_of_constants_to_enum", "flatten_disjunctions", "disjunction_infer_mapping",
               "rename_numeric_enum_values"],
    "typescript": ["rename_numeric_enum_values"],
}

ap = argparse.ArgumentParser()
ap.add_argument("--kinds", default="")
ap.add_argument("--seq", default="")
ap.add_argument("--prefix", action="store_true", help="with --seq: a random non-empty prefix of the sequence")
ap.add_argument("--n", type=int, default=300)
ap.add_argument("--seed", type=int, default=1)
ap.add_argument("--depth", type=int, default=4)
ap.add_argument("--maxpasses", type=int, default=1)
ap.add_argument("--show", type=int, default=3)
ap.add_argument("--chain", action="store_true")
ap.add_argument("--tame", action="store_true", help="with --chain: fewer panic-prone shapes")
ap.add_argument("--resolving", action="store_true")
ap.add_argument("--dump", default="", help="write the disagreeing jobs (JSON lines) to this file")
a = ap.parse_args()

rng = random.Random(a.seed)
ctx = core.Ctx("TRYC", "quick", a.seed)


def repo_state():
    """HEAD and dirtiness of the implementation's working tree (other checks patch it temporarily)"""
    rc1, head = core.sh(["git", "-C", core.REPO, "rev-parse", "HEAD"])
    rc2, dirty = core.sh(["git", "-C", core.REPO, "status", "--short", "--", "internal", "cmd"])
    return head.strip(), dirty.strip()


def mkpass(rng, schemas, k, g):
    return dict(k) if isinstance(k, dict) else irgen.gen_pass(rng, schemas, k, g)


def coq_eval(name, text):
    path = os.path.join(ctx.scratch, name + ".v")
    with open(path, "w") as f:
        f.write(passlib.PREAMBLE % "Model.SpecChain")
        f.write(text)
    rc, out = core.coqc_file(path)
    return rc, out


try:
    ok, log = core.coq_make(["Model/SpecChain.vo"])
    if not ok:
        print(log[-3000:])
        sys.exit(1)
    jobs = []
    for _ in range(a.n):
        g = irgen.IRGen(rng, max_depth=a.depth, features={"resolving": a.resolving, "chain": a.chain, "tame": a.tame})
        schemas = g.schemas()
        if a.seq:
            seq = SEQS.get(a.seq) or a.seq.split(",")
            if a.prefix:
                seq = seq[:rng.randint(1, len(seq))]
            passes = [mkpass(rng, schemas, k, g) for k in seq]
        else:
            kinds = a.kinds.split(",")
            passes = [mkpass(rng, schemas, rng.choice(kinds), g) for _ in range(rng.randint(1, a.maxpasses))]
        jobs.append({"schemas": schemas, "passes": passes})
    repo0 = repo_state()
    binp = core.build_harness(ctx)
    results = passlib.run_jobs(binp, jobs)
    repo1 = repo_state()
    if repo0 != repo1 or repo0[1]:
        print("WARNING: %s was modified while the cases ran (HEAD %s -> %s, dirty: %r / %r): "
              "the implementation results below are not those of HEAD" % (core.REPO, repo0[0][:8], repo1[0][:8], repo0[1], repo1[1]))
    st = {}
    for r in results:
        k = r["status"] if r["status"] != "OK" else r["outcome"][:4]
        st[k] = st.get(k, 0) + 1
    print("outcomes:", st)
    # fatal jobs: recover the printed input and pass terms from runs that cannot crash
    fatal = [i for i, r in enumerate(results) if r["status"] == "FATAL"]
    if fatal:
        ins = passlib.run_jobs(binp, [{"schemas": jobs[i]["schemas"], "passes": []} for i in fatal])
        pss = passlib.run_jobs(binp, [{"schemas": [], "passes": jobs[i]["passes"]} for i in fatal])
        for i, x, y in zip(fatal, ins, pss):
            assert x["status"] == "OK" and y["status"] == "OK", (x, y)
            results[i] = {"status": "OK", "input": x["input"], "passes": y["passes"], "outcome": "OutOfFuel",
                          "after": x["input"], "fatal": True}
    ev = passlib.eval_cases(ctx, "try", results,
                            [("MM", "case_mismatch"), ("UM", "case_unmodelled"), ("AL", "case_alias")], imports="Model.SpecChain")
    al = set(ev["AL"])
    bad = [i for i in ev["MM"] if i not in al]
    print("cases=%d unmodelled=%d fatal=%d alias_sensitive=%d (of which disagree: %d) MISMATCH=%d" % (
        len(jobs), len(ev["UM"]), len(fatal), len(al), len([i for i in ev["MM"] if i in al]), len(bad)))
    bad = sorted(bad, key=lambda i: len(json.dumps(jobs[i])))
    if a.dump:
        with open(a.dump, "w") as f:
            for i in bad:
                f.write(json.dumps(jobs[i]) + "\n")
    for i in bad[:a.show]:
        print("----- case", i)
        print("JOB:", json.dumps(jobs[i]))
        print("INPUT:", results[i]["input"])
        print("PASSES:", results[i]["passes"])
        print("IMPL:", results[i]["outcome"])
        rc, out = coq_eval("show", "Eval vm_compute in process %s %s.\n" % (results[i]["passes"], results[i]["input"]))
        print("MODEL:", " ".join(out.split()))
finally:
    ctx.cleanup()
