#!/usr/bin/env python3
"""dev aid: run a check module's run() directly (no Props compilation)."""
import importlib, json, os, sys, time
sys.path.insert(0, os.path.dirname(os.path.dirname(os.path.abspath(__file__))))
from vlib import core
prop = sys.argv[1]
tier = sys.argv[2] if len(sys.argv) > 2 else "quick"
seed = int(sys.argv[3]) if len(sys.argv) > 3 else 0
replay = sys.argv[4] if len(sys.argv) > 4 and not sys.argv[4].startswith("--") else None
mod = importlib.import_module("checks." + prop.lower())
ctx = core.Ctx(prop.upper(), tier, seed)
ok, log = core.coq_make([t for t in mod.COQ_TARGETS if not t.startswith("Props/")])
print("make", ok, log[-400:] if not ok else "")
verdict = core.Verdict(ctx)
ALL = {}
_orig = verdict.propfail
def _pf(sig, payload):
    key = json.dumps(sig, sort_keys=True)
    size = len(json.dumps(payload.get("job", {}).get("docs", "")))
    if key not in ALL or size < ALL[key][0]:
        ALL[key] = (size, payload)
    ALL.setdefault("#" + key, [0])[0] += 1
    return "dup" if "--dry" in sys.argv else _orig(sig, payload)
verdict.propfail = _pf
res = mod.run(ctx, verdict, replay=replay)
cov = res["coverage"]
cov.pop("samples", None)
json.dump(cov, open("/tmp/gt/cov.json","w"), indent=1, default=str); print(json.dumps(cov, indent=1, default=str)[:4000])
print("unexplained mismatches:", len(res["unexplained_mismatches"]))
json.dump(res["unexplained_mismatches"], open("/tmp/gt/um_%s.json" % prop, "w"), indent=1, default=str)
for u in res["unexplained_mismatches"][:3]:
    print(json.dumps(u, default=str)[:1500])
os.makedirs("/tmp/gt/pf_" + prop, exist_ok=True)
for f in os.listdir("/tmp/gt/pf_" + prop): os.remove("/tmp/gt/pf_" + prop + "/" + f)
n = 0
for key, val in ALL.items():
    if key.startswith("#"): continue
    n += 1
    out_path = "/tmp/gt/pf_%s/%02d.json" % (prop, n)
    print("PROPFAIL x%d %s -> %s" % (ALL["#" + key][0], key, out_path))
    json.dump({"signature": json.loads(key), **val[1]}, open(out_path, "w"), indent=1, default=str)
rc = verdict.finish()
print("rc", rc, "wall %.1fs" % (time.time() - ctx.t0))
if "--keep" not in sys.argv:
    ctx.cleanup()
