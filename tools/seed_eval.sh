#!/bin/bash
# tools/seed_eval.sh PROP IDX  — confirm a seeded change (scratch worktree /tmp/seed_PROP, files in /tmp/seedout_PROP)
# and run the registered quick check of PROP against it; store everything under seeded/PROP-IDX/.
set -u
PROP=$1; I=$2; WT=/tmp/seed_$PROP; OUT=/tmp/seedout_$PROP; DEST=/verif/seeded/$PROP-$I
export GOFLAGS=-mod=mod GOPROXY=off GOSUMDB=off GOTOOLCHAIN=local
mkdir -p $DEST
cp $OUT/patch_$I.diff $DEST/patch.diff; cp $OUT/demo_${I}_test.go $DEST/demo_test.go; cp $OUT/meta_$I.json $DEST/meta_agent.json
PLACE=$(head -1 $DEST/demo_test.go | sed -n 's/.*place at \([^; ]*\).*/\1/p')
RUNCMD=$(head -1 $DEST/demo_test.go | grep -o 'go test [^(;]*')
[ -n "$RUNCMD" ] || { echo "NO RUN COMMAND in demo header"; exit 3; }
cd $WT && git checkout -q -- . && git clean -fdq
R="{}"
git apply $DEST/patch.diff || { echo "PATCH DOES NOT APPLY"; exit 3; }
go build ./... >/dev/null 2>&1; BUILD=$?
go test -vet=off -count=1 ./... > /tmp/seed_suite_$PROP.log 2>&1; SUITE=$?
cp $DEST/demo_test.go $WT/$PLACE
(cd $WT && eval "$RUNCMD") > /tmp/seed_demo_with_$PROP.log 2>&1; DEMO_WITH=$?
git apply -R $DEST/patch.diff
(cd $WT && eval "$RUNCMD") > /tmp/seed_demo_without_$PROP.log 2>&1; DEMO_WITHOUT=$?
git checkout -q -- . && git clean -fdq
echo "build=$BUILD suite=$SUITE demo_with_patch=$DEMO_WITH (want !=0) demo_without=$DEMO_WITHOUT (want 0)"
cd /verif
# run the registered quick check against the change. Other agents build their harnesses from /repo
# while this runs, so the change is applied to a scratch worktree and the check is pointed at it
# (VERIF_REPO); with SEED_IN_PLACE=1 it is applied to /repo itself and undone straight afterwards.
if [ "${SEED_IN_PLACE:-0}" = "1" ]; then
  git -C /repo apply $DEST/patch.diff || { echo "PATCH DOES NOT APPLY TO /repo"; exit 3; }
  ./check.py $PROP --tier quick > $DEST/check_quick.log 2>&1; CHECK=$?
  git -C /repo checkout -- .
  git -C /repo status --short | head -3
else
  RUN=/tmp/seedrun_$PROP
  git -C /repo worktree remove --force $RUN 2>/dev/null
  git -C /repo worktree add -q --detach $RUN HEAD && git -C $RUN apply $DEST/patch.diff || { echo "PATCH DOES NOT APPLY"; exit 3; }
  VERIF_REPO=$RUN ./check.py $PROP --tier quick > $DEST/check_quick.log 2>&1; CHECK=$?
  git -C /repo worktree remove --force $RUN
  # restore tables regenerated from the scratch copy
  python3 -c "
import sys; sys.path.insert(0,'/verif')
import importlib
from vlib import core
m=importlib.import_module('checks.$PROP'.lower())
if hasattr(m,'regen'):
    c=core.Ctx('$PROP','quick',0); m.regen(c); c.cleanup()"
fi
grep -E "VIOLATION|KNOWN-FINDING|obligation no longer|coq evaluated|outcomes" $DEST/check_quick.log | cut -c1-220
echo "check_exit=$CHECK"
python3 - <<PY
import json
m=json.load(open("$DEST/meta_agent.json"))
json.dump({"property":"$PROP","breaks":m.get("summary"),"needs_to_manifest":m.get("manifests_when"),"files_touched":m.get("files_touched"),
 "confirmed":{"build_exit":$BUILD,"test_suite_exit":$SUITE,"demo_exit_with_patch":$DEMO_WITH,"demo_exit_without_patch":$DEMO_WITHOUT,
 "commands":["git apply patch.diff (scratch worktree)","go build ./...","go test -vet=off -count=1 ./...","demo: $RUNCMD (with and without the patch)","git -C /repo apply patch.diff; ./check.py $PROP --tier quick; git -C /repo checkout -- ."]},
 "check_quick_exit":$CHECK,"detected":$CHECK==1}, open("$DEST/meta.json","w"), indent=1)
PY
