#!/usr/bin/env python3
"""dev aid: model vs generated code on std decode / encode / Equals."""
import json, os, random, sys, time
sys.path.insert(0, os.path.dirname(os.path.dirname(os.path.abspath(__file__))))
from vlib import core, gencode
from gen import srcgen

def g_list(xs): return "[" + "; ".join(xs) + "]"
def g_opt(x): return "None" if x is None else "(Some %s)" % x

def main():
    n = int(sys.argv[1]) if len(sys.argv) > 1 else 5
    seed = int(sys.argv[2]) if len(sys.argv) > 2 else 1
    fmts = sys.argv[3].split(",") if len(sys.argv) > 3 else list(srcgen.FORMATS)
    ndocs = int(sys.argv[4]) if len(sys.argv) > 4 else 3
    ctx = core.Ctx("TRYMODEL", "quick", seed)
    rng = ctx.rng
    b = gencode.Batch(ctx, "b0")
    t0 = time.time()
    k = 0
    for fmt in fmts:
        for i in range(n):
            s = srcgen.SrcGen(rng, max_depth=3, fmt=fmt).schema("s%03d" % k)
            k += 1
            b.add(s, fmt)
    b.generate()
    for sid, g in b.gen.items():
        if g.status != "OK":
            print(sid, b.schemas[sid][1], g)
    b.build_driver()
    print("build %.1fs" % (time.time() - t0), "compile errors:", {s: e[:200] for s, e in b.compile_errors.items()})
    jobs = []
    for sid in b.ok_sids():
        s = b.schemas[sid][0]
        dg = srcgen.DocGen(rng, s)
        for r in range(ndocs):
            d0 = dg.valid()
            docs = [d0]
            m = dg.mutate_leaf(d0)
            docs.append(m[0] if m else dg.valid())
            f = dg.faulty()
            docs.append(f[0] if f else dg.valid())
            jobs.append({"id": "%s_%d" % (sid, r), "sid": sid, "type": "Root", "docs": [srcgen.dumps(d) for d in docs],
                         "pydocs": docs, "ops": ["std", "equals"]})
    res = b.run(jobs)
    print("run %.1fs" % (time.time() - t0))
    cases = []
    for j, r in zip(jobs, res):
        if r is None:
            print("driver died on", j["id"]); continue
        nd = len(j["docs"])
        obs = [g_opt(srcgen.doc_to_gallina(x["enc"])) if x["std"] == "ok" else "None" for x in r["res"]]
        mat = g_list(g_list({"t": "(Some true)", "f": "(Some false)"}.get(c, "None") for c in row[:nd]) for row in r["eq"][:nd])
        term = "(ctx_%s, %s, %s, %s, %s, %s)" % (j["sid"], srcgen.g_str(j["sid"]), srcgen.g_str("Root"),
                g_list(srcgen.doc_to_gallina(d) for d in j["pydocs"]), g_list(obs), mat)
        cases.append((j["sid"], term, j, r))
    defs = """
Definition case := (schemas * string * string * list json * list (option json) * list (list (option bool)))%type.
Definition c_unm (c : case) : bool := let '(ctx, p, n, docs, obs, mat) := c in
  negb (ctx_supported ctx) || existsb (fun d => is_unmodelled (decode_object ctx p n d)) docs.
Definition c_std (c : case) : bool := let '(ctx, p, n, docs, obs, mat) := c in
  negb (c_unm c) && negb (forallb (fun x => x) (map (fun dj => std_agrees (std_roundtrip ctx p n (fst dj)) (snd dj)) (combine docs obs))).
Definition c_eq (c : case) : bool := let '(ctx, p, n, docs, obs, mat) := c in
  negb (c_unm c) && negb (matrix_eqb (model_eq_matrix ctx p n (map (decode_object ctx p n) docs)) mat).
"""
    # monkeypatch preamble additions through imports string trick
    imports = "Model.GoSem"
    old = gencode.PREAMBLE
    gencode.PREAMBLE = old + defs.replace("%", "%%")
    ev = gencode.eval_cases(ctx, "cases", imports, b, [(c[0], c[1]) for c in cases], "case",
                            [("UNM", "c_unm"), ("STD", "c_std"), ("EQ", "c_eq")], shard=40)
    print("coq %.1fs" % (time.time() - t0), {k: len(v) for k, v in ev.items()}, "of", len(cases))
    shown = 0
    for kind in ("STD", "EQ", "UNM"):
        for i in ev[kind][:4]:
            sid, term, j, r = cases[i]
            print("=====", kind, j["id"], b.schemas[sid][1])
            for d, x in zip(j["docs"], r["res"]):
                print("  doc", d[:400]); print("   ->", x["std"], srcgen.dumps(x["enc"])[:400] if x["enc"] is not None else None)
            print("  eq", [row[:len(j["docs"])] for row in r["eq"][:len(j["docs"])]])
            body = "Definition c : case := %s.\n" % term
            body += "Eval vm_compute in (let '(ctx, p, n, docs, obs, mat) := c in (ctx_supported ctx, map (decode_object ctx p n) docs, map (std_roundtrip ctx p n) docs, model_eq_matrix ctx p n (map (decode_object ctx p n) docs))).\n"
            rc, out = gencode.coq_print(ctx, "dbg_%d" % i, imports, b, [sid], body)
            print(out[-2500:])
            shown += 1
    gencode.PREAMBLE = old
    print("scratch", ctx.scratch)

main()
