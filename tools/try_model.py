#!/usr/bin/env python3
"""dev aid: model vs generated code on std decode / encode / Equals."""
import json, os, random, sys, time
sys.path.insert(0, os.path.dirname(os.path.dirname(os.path.abspath(__file__))))
from vlib import core, gencode
from gen import srcgen

def g_list(xs): return "[" + "; ".join(xs) + "]"
def g_opt(x): return "None" if x is None else "(Some %s)" % x

def main():
    sys.argv = [a for a in sys.argv if a != "-s"] + (["-s"] if "-s" in sys.argv else [])
    n = int(sys.argv[1]) if len(sys.argv) > 1 else 5
    seed = int(sys.argv[2]) if len(sys.argv) > 2 else 1
    fmts = sys.argv[3].split(",") if len(sys.argv) > 3 else list(srcgen.FORMATS)
    ndocs = int(sys.argv[4]) if len(sys.argv) > 4 else 3
    ctx = core.Ctx("TRYMODEL", "quick", seed)
    rng = ctx.rng
    b = gencode.Batch(ctx, "b0")
    t0 = time.time()
    k = 0
    for fmt in fmts:
        for i in range(n):
            s = srcgen.SrcGen(rng, max_depth=3, fmt=fmt).schema("s%03d" % k)
            k += 1
            b.add(s, fmt)
    b.generate()
    for sid, g in b.gen.items():
        if g.status != "OK":
            print(sid, b.schemas[sid][1], g)
    b.build_driver()
    print("build %.1fs" % (time.time() - t0), "compile errors:", {s: e[:200] for s, e in b.compile_errors.items()})
    jobs = []
    for sid in b.ok_sids():
        s = b.schemas[sid][0]
        dg = srcgen.DocGen(rng, s)
        for r in range(ndocs):
            d0 = dg.valid()
            docs = [d0]
            m = dg.mutate_leaf(d0)
            docs.append(m[0] if m else dg.valid())
            f = dg.faulty()
            docs.append(f[0] if f else dg.valid())
            if "-s" in sys.argv:
                docs = [srcgen.stress_doc(rng, d) for d in docs]
            jobs.append({"id": "%s_%d" % (sid, r), "sid": sid, "type": "Root", "docs": [srcgen.dumps(d) for d in docs],
                         "pydocs": docs, "fault": (f[1], f[2]) if f else None})
    res = b.run(jobs)
    print("run %.1fs" % (time.time() - t0))
    cases = []
    for j, r in zip(jobs, res):
        if r is None:
            print("driver died on", j["id"]); continue
        cases.append((j["sid"], gencode.gcase_term(j["sid"], j["sid"], "Root", j["pydocs"], r), j, r))
    import collections
    st = collections.Counter()
    for c in cases:
        for x in c[3]["res"]:
            st["std_" + x["std"]] += 1; st["strict_" + x["strict"]] += 1; st["vals_" + (x["vals"] or "none")] += 1
            if x["val"]: st["val_paths"] += len(x["val"])
            if x["std"] == "ok" and x["strict"] == "ok" and not srcgen.json_same(x["enc"], x["senc"]): st["enc!=senc"] += 1
        for row in c[3]["eq"]:
            for e in row: st["eq_" + e] += 1
    print(dict(st))
    imports = "Model.GoSem"
    ev = gencode.eval_cases(ctx, "cases", imports, b, [(c[0], c[1]) for c in cases], "gcase", gencode.GCASE_DEFS, shard=40)
    print("coq %.1fs" % (time.time() - t0), {k: len(v) for k, v in ev.items()}, "of", len(cases))
    shown = 0
    for kind in ("STD", "STRICT", "VAL", "EQ", "WT", "SPEC"):
        for i in ev[kind][:4]:
            sid, term, j, r = cases[i]
            print("=====", kind, j["id"], b.schemas[sid][1])
            for d, x in zip(j["docs"], r["res"]):
                print("  doc", d[:400]); print("   ->", x["std"], srcgen.dumps(x["enc"])[:300] if x["enc"] is not None else None, "| val", x["vals"], x["val"], "| strict", x["strict"], x["spaths"], srcgen.dumps(x["senc"])[:300] if x["senc"] is not None else None)
            print("  eq", r["eq"], "fault", j["fault"])
            body = "Definition c : gcase := %s.\n" % term
            what = {"STD": "map (std_roundtrip ctx p n) docs", "STRICT": "(map (strict_object ctx p n) docs, map (strict_roundtrip ctx p n) docs)",
                    "VAL": "map (model_validate ctx p n) docs",
                    "WT": "map (fun v => (wt ctx (TRef attrs0 p n) v, v)) (ok_values ctx p n docs)",
                    "SPEC": "let vs := ok_values ctx p n docs in map (fun a => map (fun b => (keys_aligned a b, eqc ctx (TRef attrs0 p n) false a b, vsim a b, json_eqb (erase_empty (encode ctx (TRef attrs0 p n) a)) (erase_empty (encode ctx (TRef attrs0 p n) b)))) vs) vs",
                    "EQ": "model_eq_matrix ctx p n (map (decode_object ctx p n) docs ++ map (strict_object ctx p n) docs)"}[kind]
            body += "Eval vm_compute in (let '(ctx, p, n, docs, obs, mat) := c in (%s)).\n" % what
            rc, out = gencode.coq_print(ctx, "dbg_%d" % i, imports, b, [sid], body)
            print(out[-2500:])
            shown += 1
    print("scratch", ctx.scratch)

main()
