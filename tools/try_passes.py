#!/usr/bin/env python3
"""Development aid: run generated (IR, pass list) cases through the real passes and through the
Coq model, print the cases where they disagree.

  tools/try_passes.py --kinds disjunction_to_type,flatten_disjunctions --n 300 [--seed 1] [--depth 4] [--maxpasses 1] [--show 3]
"""
import argparse
import json
import os
import random
import sys

sys.path.insert(0, os.path.dirname(os.path.dirname(os.path.abspath(__file__))))
from gen import irgen  # noqa: E402
from vlib import core, passlib  # noqa: E402

ap = argparse.ArgumentParser()
ap.add_argument("--kinds", required=True)
ap.add_argument("--n", type=int, default=300)
ap.add_argument("--seed", type=int, default=1)
ap.add_argument("--depth", type=int, default=4)
ap.add_argument("--maxpasses", type=int, default=1)
ap.add_argument("--show", type=int, default=3)
ap.add_argument("--resolving", action="store_true", help="no dangling references inside loaded packages")
ap.add_argument("--imports", default="Model.Spec15")
ap.add_argument("--fn", default="case_mismatch")
a = ap.parse_args()

kinds = a.kinds.split(",")
rng = random.Random(a.seed)
ctx = core.Ctx("TRY", "quick", a.seed)
try:
    ok, log = core.coq_make(["Model/Spec15.vo"])
    if not ok:
        print(log[-3000:])
        sys.exit(1)
    jobs = []
    for _ in range(a.n):
        g = irgen.IRGen(rng, max_depth=a.depth, features={"resolving": a.resolving})
        schemas = g.schemas()
        passes = [irgen.gen_pass(rng, schemas, rng.choice(kinds), g) for _ in range(rng.randint(1, a.maxpasses))]
        jobs.append({"schemas": schemas, "passes": passes})
    binp = core.build_harness(ctx)
    results = passlib.run_jobs(binp, jobs)
    st = {}
    for r in results:
        k = r["status"] if r["status"] != "OK" else r["outcome"][:4]
        st[k] = st.get(k, 0) + 1
    print("outcomes:", st)
    ev = passlib.eval_cases(ctx, "try", results, [("MM", a.fn), ("UM", "case_unmodelled")], imports=a.imports)
    print("cases=%d unmodelled=%d BAD(%s)=%d" % (len(jobs), len(ev["UM"]), a.fn, len(ev["MM"])))
    bad = sorted(ev["MM"], key=lambda i: len(json.dumps(jobs[i])))
    for i in bad[:a.show]:
        print("----- case", i)
        print("JOB:", json.dumps(jobs[i]))
        print("INPUT:", results[i]["input"])
        print("PASSES:", results[i]["passes"])
        print("IMPL:", results[i]["outcome"])
        # model output
        path = os.path.join(ctx.scratch, "show.v")
        with open(path, "w") as f:
            f.write(passlib.PREAMBLE % a.imports)
            f.write("Eval vm_compute in process %s %s.\n" % (results[i]["passes"], results[i]["input"]))
        rc, out = core.coqc_file(path)
        print("MODEL:", " ".join(out.split()))
finally:
    ctx.cleanup()
