"""Editor-side oracle for C20 (run with python3-vt: needs `jsonschema`).
usage: c20_editor.py <schemas dir>   stdin: JSON lines {"file": "pipeline"|"compiler_passes"|"veneers", "doc": <value>}
stdout: one line per job: 1 (validates against schemas/<file>.json), 0 (does not), E <text> (schema unusable)."""
import json
import sys

import jsonschema


def main():
    sdir = sys.argv[1]
    validators = {}
    for line in sys.stdin:
        line = line.strip()
        if not line:
            continue
        job = json.loads(line)
        f = job["file"]
        if f not in validators:
            try:
                schema = json.load(open("%s/%s.json" % (sdir, f)))
                cls = jsonschema.validators.validator_for(schema, default=jsonschema.Draft202012Validator)
                cls.check_schema(schema)
                validators[f] = cls(schema)
            except Exception as e:  # noqa: BLE001
                validators[f] = "E " + repr(e)[:200]
        v = validators[f]
        if isinstance(v, str):
            print(v)
            continue
        try:
            print(1 if v.is_valid(job["doc"]) else 0)
        except Exception as e:  # noqa: BLE001
            print("E " + repr(e)[:200])


if __name__ == "__main__":
    main()
