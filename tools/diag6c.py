#!/usr/bin/env python3
"""C06 replay: the offending object's non-nullable optional fields, traced through the chain"""
import json, sys, os, re
sys.path.insert(0, os.path.dirname(os.path.dirname(os.path.abspath(__file__))))
from vlib import core, passlib
from tools.diag_c05 import CH
from tools.fields_of import fields_of, bad_optional
from checks.c06 import object_text
d = json.load(open(sys.argv[1])); job = d["job"]; lang = job["lang"]
pkg, name = d["offending_object"].split(".", 1)
ctx = core.Ctx("STEP", "quick", 0)
try:
    binp = core.build_harness(ctx)
    chain = [p if isinstance(p, dict) else {"p": p} for p in CH[lang]]
    jobs = [{"schemas": job["schemas"], "passes": chain[:i]} for i in range(len(chain) + 1)]
    rs = passlib.run_jobs(binp, jobs)
    final = rs[-1]["outcome"]
    ft = object_text(final, pkg, name)
    print("FINAL OBJECT:", ft[:700])
    for fname, ty in bad_optional(ft):
        print("== field", fname)
        prev = None
        for i, r in enumerate(rs):
            fs = [(t, q) for n, t, q in fields_of(object_text(r["outcome"], pkg, name)) if n == fname]
            if fs != prev:
                print("  after %-45s %s" % (chain[i - 1]["p"] if i else "(input)", [(t[:300], q) for t, q in fs]))
            prev = fs
    it = object_text(rs[0]["outcome"], pkg, name)
    print("INPUT OBJECT:", it[:500])
finally:
    ctx.cleanup()
