#!/usr/bin/env python3
"""dev aid (C10/C11): hand-written schema (+documents) -> what the generated Go and Python do.
usage: try_py.py <fmt> <schema file> [Type] [doc json ...]   (-k keeps scratch, -s prints sources, -ir prints IRs)"""
import json, os, sys
sys.path.insert(0, os.path.dirname(os.path.dirname(os.path.abspath(__file__))))
from vlib import core, gencode, gencode_py
from gen import srcgen

args = [a for a in sys.argv[1:] if not a.startswith("-")]
flags = [a for a in sys.argv[1:] if a.startswith("-")]
fmt, path = args[0], args[1]
typ = args[2] if len(args) > 2 else "Root"
docs = args[3:]
ctx = core.Ctx("TRYPY", "quick", 0)
b = gencode_py.PyBatch(ctx, "b0")
text = open(path).read()
sid = b.add({"pkg": "p0", "root": typ, "defs": [], "fmt": fmt}, fmt, text=text)
b.generate()
print("GO gen:", b.gen[sid]); print("PY gen:", b.pygen.get(sid))
if "-ir" in flags:
    print("PRE IR:", b.gen[sid].pre_ir); print("GO IR:", b.gen[sid].post_ir); print("PY IR:", b.pygen[sid].post_ir if sid in b.pygen else None)
if b.gen[sid].status == "OK":
    if "-s" in flags:
        print(open(os.path.join(b.module_dir, "p0", "types_gen.go")).read())
        print(b.py_source(sid))
    b.build_driver()
    for s, e in b.compile_errors.items():
        print("GO COMPILE ERROR:", e)
    job = {"id": "j", "sid": sid, "type": typ, "docs": docs, "ops": ["std", "ctor"]}
    if sid in b.ok_sids():
        r = b.run([job])[0]
        print("GO:", json.dumps(r, default=str))
    r = b.run_py([dict(job, ops=["ctor", "rt"])])[0]
    print("PY:", json.dumps(r, default=str))
    if docs:
        print("REF:", gencode.ref_validate(ctx, [{"fmt": fmt, "path": b.schema_path(sid), "type": typ, "docs": docs}]))
if "-k" in flags:
    print("scratch", ctx.scratch)
else:
    ctx.cleanup()
