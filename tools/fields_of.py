"""parse the fields of a printed Gallina object: [(name, typetext, required)]"""
import re
def fields_of(objtext):
    out = []
    for m in re.finditer(r'\(mkField ("(?:[^"]|"")*") \[[^\]]*\] \(', objtext):
        i = m.end() - 1; depth = 0; j = i; instr = False
        while j < len(objtext):
            c = objtext[j]
            if c == '"':
                instr = not instr
            elif not instr:
                if c == '(':
                    depth += 1
                elif c == ')':
                    depth -= 1
                    if depth == 0:
                        break
            j += 1
        ty = objtext[i:j + 1]
        req = objtext[j + 1:j + 8].strip().startswith("true")
        out.append((m.group(1), ty, req))
    return out
def bad_optional(objtext):
    return [(n, t) for n, t, r in fields_of(objtext) if not r and not re.match(r'\(T\w+ \{\| nullable := true', t) and not t.startswith("(TDisj")]
