#!/bin/bash
# tools/seed_recheck.sh ID...   (ID = C06-1 ...; no argument = every seeded/<id>)
# Re-run the registered quick check of each seeded change against a scratch worktree of /repo with the change
# applied (the confirmation of the change itself was done by tools/seed_eval.sh and is recorded in meta.json).
# Prints one line per change; exit 1 if some change is not detected.
cd /verif
IDS="$@"; [ -n "$IDS" ] || IDS=$(ls seeded | grep -- "-" | sort)
MISSED=0
for ID in $IDS; do
  PROP=${ID%%-*}; RUN=/tmp/seedrun_$ID
  git -C /repo worktree remove --force $RUN 2>/dev/null
  git -C /repo worktree add -q --detach $RUN HEAD || { echo "$ID: cannot create worktree"; continue; }
  if ! git -C $RUN apply /verif/seeded/$ID/patch.diff 2>/dev/null; then
    echo "$ID: patch no longer applies to /repo HEAD (the code it changes was repaired or moved)"; git -C /repo worktree remove --force $RUN; continue
  fi
  VERIF_REPO=$RUN timeout 1800 ./check.py $PROP --tier quick > /verif/scratch/recheck_$ID.log 2>&1; RC=$?
  git -C /repo worktree remove --force $RUN
  NV=$(grep -c '^VIOLATION' /verif/scratch/recheck_$ID.log); NF=$(grep '^VIOLATION' /verif/scratch/recheck_$ID.log | grep -vc 'no-failing-input-found')
  echo "$ID: exit=$RC violations=$NV with-failing-input=$NF"
  [ "$RC" = "1" ] || MISSED=$((MISSED+1))
done
# tables regenerated from the scratch copies are restored from /repo
python3 - <<'PY'
import sys, importlib
sys.path.insert(0, '/verif')
from vlib import core
for p in sorted({x.split('-')[0] for x in __import__('os').listdir('/verif/seeded') if '-' in x}):
    try:
        m = importlib.import_module('checks.' + p.lower())
        if hasattr(m, 'regen'):
            c = core.Ctx(p, 'quick', 0); m.regen(c); c.cleanup()
    except Exception as e:
        print("regen", p, e)
PY
exit $([ $MISSED = 0 ] && echo 0 || echo 1)
