#!/usr/bin/env python3
"""dev aid: front-end models (coq/Model/FrontEnd.v) vs the pre-chain IR of the real front-ends."""
import os, sys, json
sys.path.insert(0, os.path.dirname(os.path.dirname(os.path.abspath(__file__))))
from vlib import core, gencode
from gen import srcgen
n = int(sys.argv[1]) if len(sys.argv) > 1 else 20
seed = int(sys.argv[2]) if len(sys.argv) > 2 else 0
fmts = sys.argv[3].split(",") if len(sys.argv) > 3 else ["jsonschema"]
ctx = core.Ctx("TRYFE", "quick", seed)
camp = gencode.Campaign(ctx, "fe")
plan = []
k = 0
for fmt in fmts:
    for _ in range(n):
        s = srcgen.SrcGen(ctx.rng, max_depth=3, fmt=fmt,
                          features=srcgen.ALL_FEATURES + srcgen.EXTRA_FEATURES + srcgen.FRONTEND_FEATURES).schema("s%03d" % k)
        k += 1
        camp.add_schema(s, fmt)
        plan.append((s["pkg"], s))
camp.batch.generate()
from checks import c01
st = c01.frontend_stream(ctx, camp, plan, verbose=True)
print(json.dumps({k_: v for k_, v in st.items() if k_ != "examples"}, indent=1))
for e in st.get("examples", [])[:3]:
    print("=====", e["format"]); print(e["schema_text"][:1500]); print("MODEL:", e.get("model", "")[:3000]); print("OBSERVED:", e["observed"][:3000])
ctx.cleanup()
