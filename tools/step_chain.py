#!/usr/bin/env python3
"""step a replay's language chain pass by pass and print what a regex finds after each prefix
usage: step_chain.py replay.json 'regex'"""
import json, sys, os, re
sys.path.insert(0, os.path.dirname(os.path.dirname(os.path.abspath(__file__))))
from vlib import core, passlib
from tools.diag_c05 import CH
d = json.load(open(sys.argv[1])); job = d["job"]; lang = job["lang"]
ctx = core.Ctx("STEP", "quick", 0)
try:
    binp = core.build_harness(ctx)
    chain = [p if isinstance(p, dict) else {"p": p} for p in CH[lang]]
    jobs = [{"schemas": job["schemas"], "passes": chain[:i]} for i in range(len(chain) + 1)]
    rs = passlib.run_jobs(binp, jobs)
    prev = None
    for i, r in enumerate(rs):
        m = re.findall(sys.argv[2], r["outcome"])
        if m != prev:
            print(i, chain[i - 1] if i else None, m[:3])
        prev = m
finally:
    ctx.cleanup()
