#!/usr/bin/env python3
"""integrate an agent's deliverables: merge a scratch_known_*.json into known_findings.json and append the
check(...) entries found in the agent's final report (task output jsonl) to tools/manifest_entries.py
usage: integrate_agent.py <scratch_known.json> <task-output-file> <PROP> [<PROP> ...]"""
import json, re, sys, html
known, outfile, props = sys.argv[1], sys.argv[2], sys.argv[3:]
d = json.load(open('/verif/known_findings.json'))
ids = {f['id'] for f in d['findings']}
prop = json.load(open(known))
ents = prop['findings'] if isinstance(prop, dict) else prop
n = 0
for e in ents:
    if e['id'] in ids:
        continue
    if not isinstance(e.get('witness'), str):
        e['witness'] = json.dumps(e.get('witness'))
    e.setdefault('status', 'open')
    d['findings'].append(e); n += 1
json.dump(d, open('/verif/known_findings.json', 'w'), indent=1)
print("merged", n, "findings")

def texts(o):
    if isinstance(o, dict):
        for k, v in o.items():
            if k in ('text', 'result') and isinstance(v, str):
                yield v
            else:
                yield from texts(v)
    elif isinstance(o, list):
        for x in o:
            yield from texts(x)
blob = open(outfile).read()
found = {}
for line in blob.split('\n'):
    if 'check(' not in line:
        continue
    try:
        o = json.loads(line)
    except Exception:
        continue
    for t in texts(o):
        for p in props:
            for m in re.finditer(r'(check\("%s",.*?\n\s*"DESIGN\.md[^"]*"\))' % p, t, re.S):
                found[p] = html.unescape(m.group(1))
s = open('/verif/tools/manifest_entries.py').read()
for p in props:
    if p in found and 'check("%s"' % p not in s:
        open('/verif/tools/manifest_entries.py', 'a').write(found[p] + "\n")
        print("manifest entry added:", p, len(found[p]))
    elif p not in found:
        print("NO manifest entry found for", p)
