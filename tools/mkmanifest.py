#!/usr/bin/env python3
"""Writes /verif/MANIFEST.json from the table below (kept as code so the 20 entries stay uniform)."""
import json
import os

V = os.path.dirname(os.path.dirname(os.path.abspath(__file__)))

CHECKS = {}
NOT_APPLICABLE = {}


def check(pid, text, note, technique, design_ref):
    CHECKS[pid] = dict(text=text, note=note, technique=technique, design_ref=design_ref)


exec(open(os.path.join(V, "tools", "manifest_entries.py")).read())

all_ids = [json.loads(l)["id"] for l in open(os.path.join(V, "properties.jsonl"))]
m = {
    "version": 1,
    "setup_cmd": "./check.py --setup",
    "hooks": {
        "guard": "verif",
        "enable": "no source hooks: harness files under /verif/harness are injected at build time with `go build -overlay` (new cmd/verifh package and add-only files), /repo's tree is never modified",
        "baseline_off_cmd": "cd /repo && GOFLAGS=-mod=mod GOPROXY=off GOSUMDB=off GOTOOLCHAIN=local go test -vet=off -count=1 ./...",
        "source_commits": [],
        "add_only": True,
    },
    "engines": [
        {"name": "coq", "path": "coq/", "serves_properties": sorted(CHECKS),
         "kind_free_text": "Coq 8.16.1 development (model, proofs, property theorems); coq_makefile + make, full .vo build"},
        {"name": "verifh", "path": "harness/verifh/", "serves_properties": sorted(CHECKS),
         "kind_free_text": "Go harness compiled from /repo's working tree with go build -overlay; runs the implementation for the correspondence check"},
    ],
    "checks": [],
    "not_applicable": [],
    "notes": "All checks: ./check.py <id> --tier quick|thorough; VERIF_SEED/VERIF_TIER honoured. See DESIGN.md.",
}
for pid in all_ids:
    if pid in CHECKS:
        c = CHECKS[pid]
        m["checks"].append({
            "property_id": pid,
            "quick_cmd": "./check.py %s --tier quick" % pid,
            "thorough_cmd": "./check.py %s --tier thorough" % pid,
            "evidence_file": "evidence/%s.json" % pid,
            "replay_cmd_template": "./check.py %s --replay {path}" % pid,
            "engine": "coq",
            "level_claimed": {"category": "proof", "text": c["text"], "design_ref": c["design_ref"]},
            "level_note": c["note"],
            "technique": c["technique"],
        })
    else:
        m["not_applicable"].append({"property_id": pid, "reason": NOT_APPLICABLE.get(
            pid, "not yet claimed: the Coq model and correspondence for this property are not built yet (work in progress, see DESIGN.md section 8)")})
json.dump(m, open(os.path.join(V, "MANIFEST.json"), "w"), indent=1)
print("checks:", len(m["checks"]), "not_applicable:", len(m["not_applicable"]))
