#!/usr/bin/env python3
"""diagnose a C05 replay: for language chains, find the first pass of the chain after which a reference dangles"""
import json, sys, os
sys.path.insert(0, os.path.dirname(os.path.dirname(os.path.abspath(__file__))))
from vlib import core, passlib
from checks import c05
CH = {"go": ["anonymous_structs_to_named","not_required_field_as_nullable_type","disjunction_with_null_to_optional","disjunction_of_constants_to_enum","anonymous_enum_to_explicit_type","prefix_enum_values","flatten_disjunctions","disjunction_of_anonymous_structs_to_explicit","disjunction_infer_mapping","undiscriminated_disjunction_to_any","disjunction_to_type"],
 "java": ["anonymous_structs_to_named","not_required_field_as_nullable_type","disjunction_with_null_to_optional","disjunction_of_constants_to_enum","anonymous_enum_to_explicit_type","flatten_disjunctions","disjunction_infer_mapping","undiscriminated_disjunction_to_any","disjunction_to_type","remove_intersections"],
 "php": ["anonymous_structs_to_named","not_required_field_as_nullable_type","disjunction_with_null_to_optional","disjunction_of_constants_to_enum","anonymous_enum_to_explicit_type","sanitize_enum_member_names","flatten_disjunctions","disjunction_infer_mapping","undiscriminated_disjunction_to_any",{"p":"inline_objects_with_types","kinds":["scalar","array","map","disjunction"]}],
 "python": ["anonymous_structs_to_named","not_required_field_as_nullable_type","disjunction_with_null_to_optional","disjunction_of_constants_to_enum","flatten_disjunctions","disjunction_infer_mapping","rename_numeric_enum_values"]}
d = json.load(open(sys.argv[1])); job = d["job"]
ctx = core.Ctx("DIAG", "quick", 0)
try:
    binp = core.build_harness(ctx)
    if job.get("lang"):
        chain = [p if isinstance(p, dict) else {"p": p} for p in CH[job["lang"]]]
    else:
        chain = job["passes"]
    for k in range(1, len(chain) + 1):
        sub = {"schemas": job["schemas"], "passes": chain[:k]}
        r = passlib.run_jobs(binp, [sub])[0]
        if r["status"] != "OK":
            print(k, chain[k-1], r["status"]); break
        dang = c05.dangling_of(ctx, "d%d" % k, r["outcome"])
        print(k, chain[k-1]["p"], "dangling:", dang)
        if dang:
            prev = passlib.run_jobs(binp, [{"schemas": job["schemas"], "passes": chain[:k-1]}])[0]
            if "-v" in sys.argv:
                print("BEFORE:", prev["outcome"]); print("AFTER:", r["outcome"])
            break
finally:
    ctx.cleanup()
