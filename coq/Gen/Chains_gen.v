(* GENERATED from internal/jennies/*/jennies.go CompilerPasses() — do not edit. *)
From Cog Require Import Model.Passes.
Local Open Scope string_scope.

Definition chain_go : list pass :=
  [PAnonymousStructsToNamed;
   PNotRequiredFieldAsNullableType;
   PDisjunctionWithNullToOptional;
   PDisjunctionOfConstantsToEnum;
   PAnonymousEnumToExplicitType;
   PPrefixEnumValues;
   PFlattenDisjunctions;
   PDisjunctionOfAnonymousStructsToExplicit;
   PDisjunctionInferMapping;
   PUndiscriminatedDisjunctionToAny;
   PDisjunctionToType].
Definition chain_java : list pass :=
  [PAnonymousStructsToNamed;
   PNotRequiredFieldAsNullableType;
   PDisjunctionWithNullToOptional;
   PDisjunctionOfConstantsToEnum;
   PAnonymousEnumToExplicitType;
   PFlattenDisjunctions;
   PDisjunctionInferMapping;
   PUndiscriminatedDisjunctionToAny;
   PDisjunctionToType;
   PRemoveIntersections].
Definition chain_php : list pass :=
  [PAnonymousStructsToNamed;
   PNotRequiredFieldAsNullableType;
   PDisjunctionWithNullToOptional;
   PDisjunctionOfConstantsToEnum;
   PAnonymousEnumToExplicitType;
   PSanitizeEnumMemberNames;
   PFlattenDisjunctions;
   PDisjunctionInferMapping;
   PUndiscriminatedDisjunctionToAny;
   PInlineObjectsWithTypes ["scalar"; "array"; "map"; "disjunction"]].
Definition chain_python : list pass :=
  [PAnonymousStructsToNamed;
   PNotRequiredFieldAsNullableType;
   PDisjunctionWithNullToOptional;
   PDisjunctionOfConstantsToEnum;
   PFlattenDisjunctions;
   PDisjunctionInferMapping;
   PRenameNumericEnumValues].
Definition chain_typescript : list pass :=
  [PRenameNumericEnumValues].
