(* GENERATED on every run by checks/c20.py (harness/verifh_c20 `keys` + schemas/*.json) -- do not edit.
   loader side: reflection over codegen.Pipeline / yaml.Compiler / yaml.Veneers with yaml.v3 naming rules,
   go/parser over the As... methods and the yaml decoders; schema side: the published JSON Schemas. *)
From Cog Require Import Model.Config.
Local Open Scope string_scope.

(* ---- pipeline ---- *)
Definition pipeline_decoders : list decoder_site := [{| d_file := "internal/codegen/pipeline.go"; d_func := "PipelineFromFile"; d_call := "NewDecoder"; d_known_fields := true |}].
Definition pipeline_loader_defs : defs_t := [
  ("codegen.Pipeline", {| o_fields := [("debug", NScalar KBool); ("inputs", NSeq (NObj "codegen.Input")); ("transformations", NObj "codegen.Transforms"); ("output", NObj "codegen.Output"); ("parameters", NMap (NScalar KString))]; o_extra := None |});
  ("codegen.Input", {| o_fields := [("if", NScalar KString); ("jsonschema", NObj "codegen.JSONSchemaInput"); ("openapi", NObj "codegen.OpenAPIInput"); ("kind_registry", NObj "codegen.KindRegistryInput"); ("kindsys_core", NObj "codegen.CueInput"); ("kindsys_composable", NObj "codegen.CueInput"); ("cue", NObj "codegen.CueInput")]; o_extra := None |});
  ("codegen.JSONSchemaInput", {| o_fields := [("allowed_objects", NSeq (NScalar KString)); ("transformations", NSeq (NScalar KString)); ("metadata", NObj "ast.SchemaMeta"); ("path", NScalar KString); ("url", NScalar KString); ("package", NScalar KString)]; o_extra := None |});
  ("ast.SchemaMeta", {| o_fields := [("kind", NScalar KString); ("variant", NScalar KString); ("identifier", NScalar KString)]; o_extra := None |});
  ("codegen.OpenAPIInput", {| o_fields := [("allowed_objects", NSeq (NScalar KString)); ("transformations", NSeq (NScalar KString)); ("metadata", NObj "ast.SchemaMeta"); ("path", NScalar KString); ("url", NScalar KString); ("package", NScalar KString); ("no_validate", NScalar KBool)]; o_extra := None |});
  ("codegen.KindRegistryInput", {| o_fields := [("allowed_objects", NSeq (NScalar KString)); ("transformations", NSeq (NScalar KString)); ("metadata", NObj "ast.SchemaMeta"); ("path", NScalar KString); ("version", NScalar KString)]; o_extra := None |});
  ("codegen.CueInput", {| o_fields := [("allowed_objects", NSeq (NScalar KString)); ("transformations", NSeq (NScalar KString)); ("metadata", NObj "ast.SchemaMeta"); ("entrypoint", NScalar KString); ("forced_envelope", NScalar KString); ("package", NScalar KString); ("cue_imports", NSeq (NScalar KString))]; o_extra := None |});
  ("codegen.Transforms", {| o_fields := [("schemas", NSeq (NScalar KString)); ("builders", NSeq (NScalar KString))]; o_extra := None |});
  ("codegen.Output", {| o_fields := [("directory", NScalar KString); ("types", NScalar KBool); ("builders", NScalar KBool); ("converters", NScalar KBool); ("api_reference", NScalar KBool); ("languages", NSeq (NObj "codegen.OutputLanguage")); ("repository_templates", NScalar KString); ("templates_data", NMap (NScalar KString))]; o_extra := None |});
  ("codegen.OutputLanguage", {| o_fields := [("go", NObj "golang.Config"); ("java", NObj "java.Config"); ("jsonschema", NObj "jsonschema.Config"); ("openapi", NObj "openapi.Config"); ("php", NObj "php.Config"); ("python", NObj "python.Config"); ("typescript", NObj "typescript.Config")]; o_extra := None |});
  ("golang.Config", {| o_fields := [("generate_json_marshaller", NScalar KBool); ("generate_strict_unmarshaller", NScalar KBool); ("generate_equal", NScalar KBool); ("generate_validate", NScalar KBool); ("skip_runtime", NScalar KBool); ("skip_post_formatting", NScalar KBool); ("overrides_templates", NSeq (NScalar KString)); ("extra_files_templates", NSeq (NScalar KString)); ("package_root", NScalar KString); ("any_as_interface", NScalar KBool)]; o_extra := None |});
  ("java.Config", {| o_fields := [("package_path", NScalar KString); ("overrides_templates", NSeq (NScalar KString)); ("extra_files_templates", NSeq (NScalar KString)); ("skip_runtime", NScalar KBool); ("generate_json_marshaller", NScalar KBool); ("builder_factories_class_map", NMap (NScalar KString))]; o_extra := None |});
  ("jsonschema.Config", {| o_fields := [("compact", NScalar KBool)]; o_extra := None |});
  ("openapi.Config", {| o_fields := [("compact", NScalar KBool)]; o_extra := None |});
  ("php.Config", {| o_fields := [("namespace_root", NScalar KString); ("generate_json_marshaller", NScalar KBool); ("overrides_templates", NSeq (NScalar KString)); ("extra_files_templates", NSeq (NScalar KString)); ("builder_factories_class_map", NMap (NScalar KString))]; o_extra := None |});
  ("python.Config", {| o_fields := [("path_prefix", NScalar KString); ("generate_json_marshaller", NScalar KBool); ("skip_runtime", NScalar KBool); ("overrides_templates", NSeq (NScalar KString)); ("extra_files_templates", NSeq (NScalar KString))]; o_extra := None |});
  ("typescript.Config", {| o_fields := [("path_prefix", NScalar KString); ("skip_runtime", NScalar KBool); ("skip_index", NScalar KBool); ("overrides_templates", NSeq (NScalar KString)); ("extra_files_templates", NSeq (NScalar KString)); ("packages_import_map", NMap (NScalar KString)); ("enums_as_union_types", NScalar KBool)]; o_extra := None |})].
Definition pipeline_conv : conv_t := [].
Definition pipeline_loader : forest := {| f_root := NObj "codegen.Pipeline"; f_defs := pipeline_loader_defs; f_conv := pipeline_conv; f_known_fields := strict_decoders pipeline_decoders |}.
Definition pipeline_schema_defs : defs_t := [
  ("CodegenPipeline", {| o_fields := [("debug", NScalar KBool); ("inputs", NSeq (NObj "CodegenInput")); ("transformations", NObj "CodegenTransforms"); ("output", NObj "CodegenOutput"); ("parameters", NMap (NScalar KString))]; o_extra := None |});
  ("CodegenInput", {| o_fields := [("if", NScalar KString); ("jsonschema", NObj "CodegenJSONSchemaInput"); ("openapi", NObj "CodegenOpenAPIInput"); ("kind_registry", NObj "CodegenKindRegistryInput"); ("kindsys_core", NObj "CodegenCueInput"); ("kindsys_composable", NObj "CodegenCueInput"); ("cue", NObj "CodegenCueInput")]; o_extra := None |});
  ("CodegenJSONSchemaInput", {| o_fields := [("allowed_objects", NSeq (NScalar KString)); ("transformations", NSeq (NScalar KString)); ("metadata", NObj "AstSchemaMeta"); ("path", NScalar KString); ("url", NScalar KString); ("package", NScalar KString)]; o_extra := None |});
  ("AstSchemaMeta", {| o_fields := [("kind", NScalar KString); ("variant", NScalar KString); ("identifier", NScalar KString)]; o_extra := None |});
  ("CodegenOpenAPIInput", {| o_fields := [("allowed_objects", NSeq (NScalar KString)); ("transformations", NSeq (NScalar KString)); ("metadata", NObj "AstSchemaMeta"); ("path", NScalar KString); ("url", NScalar KString); ("package", NScalar KString); ("no_validate", NScalar KBool)]; o_extra := None |});
  ("CodegenKindRegistryInput", {| o_fields := [("allowed_objects", NSeq (NScalar KString)); ("transformations", NSeq (NScalar KString)); ("metadata", NObj "AstSchemaMeta"); ("path", NScalar KString); ("version", NScalar KString)]; o_extra := None |});
  ("CodegenCueInput", {| o_fields := [("allowed_objects", NSeq (NScalar KString)); ("transformations", NSeq (NScalar KString)); ("metadata", NObj "AstSchemaMeta"); ("entrypoint", NScalar KString); ("forced_envelope", NScalar KString); ("package", NScalar KString); ("cue_imports", NSeq (NScalar KString))]; o_extra := None |});
  ("CodegenTransforms", {| o_fields := [("schemas", NSeq (NScalar KString)); ("builders", NSeq (NScalar KString))]; o_extra := None |});
  ("CodegenOutput", {| o_fields := [("directory", NScalar KString); ("types", NScalar KBool); ("builders", NScalar KBool); ("converters", NScalar KBool); ("api_reference", NScalar KBool); ("languages", NSeq (NObj "CodegenOutputLanguage")); ("repository_templates", NScalar KString); ("templates_data", NMap (NScalar KString))]; o_extra := None |});
  ("CodegenOutputLanguage", {| o_fields := [("go", NObj "GolangConfig"); ("java", NObj "JavaConfig"); ("jsonschema", NObj "JsonschemaConfig"); ("openapi", NObj "OpenapiConfig"); ("php", NObj "PhpConfig"); ("python", NObj "PythonConfig"); ("typescript", NObj "TypescriptConfig")]; o_extra := None |});
  ("GolangConfig", {| o_fields := [("generate_json_marshaller", NScalar KBool); ("generate_strict_unmarshaller", NScalar KBool); ("generate_equal", NScalar KBool); ("generate_validate", NScalar KBool); ("skip_runtime", NScalar KBool); ("skip_post_formatting", NScalar KBool); ("overrides_templates", NSeq (NScalar KString)); ("extra_files_templates", NSeq (NScalar KString)); ("package_root", NScalar KString); ("any_as_interface", NScalar KBool)]; o_extra := None |});
  ("JavaConfig", {| o_fields := [("package_path", NScalar KString); ("overrides_templates", NSeq (NScalar KString)); ("extra_files_templates", NSeq (NScalar KString)); ("skip_runtime", NScalar KBool); ("generate_json_marshaller", NScalar KBool); ("builder_factories_class_map", NMap (NScalar KString))]; o_extra := None |});
  ("JsonschemaConfig", {| o_fields := [("compact", NScalar KBool)]; o_extra := None |});
  ("OpenapiConfig", {| o_fields := [("compact", NScalar KBool)]; o_extra := None |});
  ("PhpConfig", {| o_fields := [("namespace_root", NScalar KString); ("generate_json_marshaller", NScalar KBool); ("overrides_templates", NSeq (NScalar KString)); ("extra_files_templates", NSeq (NScalar KString)); ("builder_factories_class_map", NMap (NScalar KString))]; o_extra := None |});
  ("PythonConfig", {| o_fields := [("path_prefix", NScalar KString); ("generate_json_marshaller", NScalar KBool); ("skip_runtime", NScalar KBool); ("overrides_templates", NSeq (NScalar KString)); ("extra_files_templates", NSeq (NScalar KString))]; o_extra := None |});
  ("TypescriptConfig", {| o_fields := [("path_prefix", NScalar KString); ("skip_runtime", NScalar KBool); ("skip_index", NScalar KBool); ("overrides_templates", NSeq (NScalar KString)); ("extra_files_templates", NSeq (NScalar KString)); ("packages_import_map", NMap (NScalar KString)); ("enums_as_union_types", NScalar KBool)]; o_extra := None |})].
Definition pipeline_schema : forest := {| f_root := NObj "CodegenPipeline"; f_defs := pipeline_schema_defs; f_conv := []; f_known_fields := true |}.
Definition pipeline_rel : rel_t := [("codegen.Pipeline", "CodegenPipeline");
   ("codegen.Input", "CodegenInput");
   ("codegen.JSONSchemaInput", "CodegenJSONSchemaInput");
   ("ast.SchemaMeta", "AstSchemaMeta");
   ("codegen.OpenAPIInput", "CodegenOpenAPIInput");
   ("codegen.KindRegistryInput", "CodegenKindRegistryInput");
   ("codegen.CueInput", "CodegenCueInput");
   ("codegen.Transforms", "CodegenTransforms");
   ("codegen.Output", "CodegenOutput");
   ("codegen.OutputLanguage", "CodegenOutputLanguage");
   ("golang.Config", "GolangConfig");
   ("java.Config", "JavaConfig");
   ("jsonschema.Config", "JsonschemaConfig");
   ("openapi.Config", "OpenapiConfig");
   ("php.Config", "PhpConfig");
   ("python.Config", "PythonConfig");
   ("typescript.Config", "TypescriptConfig")].

(* ---- compiler_passes ---- *)
Definition compiler_passes_decoders : list decoder_site := [{| d_file := "internal/yaml/compiler.go"; d_func := "CompilerLoader.Load"; d_call := "NewDecoder"; d_known_fields := true |}].
Definition compiler_passes_loader_defs : defs_t := [
  ("yaml.Compiler", {| o_fields := [("passes", NSeq (NObj "yaml.CompilerPass"))]; o_extra := None |});
  ("yaml.CompilerPass", {| o_fields := [("entrypoint_identification", NObj "yaml.EntrypointIdentification"); ("dataquery_identification", NObj "yaml.DataqueryIdentification"); ("unspec", NObj "yaml.Unspec"); ("replace_reference", NObj "yaml.ReplaceReference"); ("fields_set_default", NObj "yaml.FieldsSetDefault"); ("fields_set_required", NObj "yaml.FieldsSetRequired"); ("fields_set_not_required", NObj "yaml.FieldsSetNotRequired"); ("omit", NObj "yaml.Omit"); ("add_fields", NObj "yaml.AddFields"); ("name_anonymous_struct", NObj "yaml.NameAnonymousStruct"); ("add_object", NObj "yaml.AddObject"); ("rename_object", NObj "yaml.RenameObject"); ("retype_object", NObj "yaml.RetypeObject"); ("hint_object", NObj "yaml.HintObject"); ("retype_field", NObj "yaml.RetypeField"); ("omit_fields", NObj "yaml.OmitFields"); ("schema_set_identifier", NObj "yaml.SchemaSetIdentifier"); ("schema_set_entry_point", NObj "yaml.SchemaSetEntryPoint"); ("duplicate_object", NObj "yaml.DuplicateObject"); ("trim_enum_values", NObj "yaml.TrimEnumValues"); ("constant_to_enum", NObj "yaml.ConstantToEnum"); ("anonymous_structs_to_named", NObj "yaml.AnonymousStructsToNamed"); ("disjunction_to_type", NObj "yaml.DisjunctionToType"); ("disjunction_of_anonymous_structs_to_explicit", NObj "yaml.DisjunctionOfAnonymousStructsToExplicit"); ("disjunction_infer_mapping", NObj "yaml.DisjunctionInferMapping"); ("disjunction_with_constant_to_default", NObj "yaml.DisjunctionWithConstantToDefault")]; o_extra := None |});
  ("yaml.EntrypointIdentification", {| o_fields := []; o_extra := None |});
  ("yaml.DataqueryIdentification", {| o_fields := []; o_extra := None |});
  ("yaml.Unspec", {| o_fields := []; o_extra := None |});
  ("yaml.ReplaceReference", {| o_fields := [("from", NScalar KString); ("to", NScalar KString)]; o_extra := None |});
  ("yaml.FieldsSetDefault", {| o_fields := [("defaults", NMap (NAny))]; o_extra := None |});
  ("yaml.FieldsSetRequired", {| o_fields := [("fields", NSeq (NScalar KString))]; o_extra := None |});
  ("yaml.FieldsSetNotRequired", {| o_fields := [("fields", NSeq (NScalar KString))]; o_extra := None |});
  ("yaml.Omit", {| o_fields := [("objects", NSeq (NScalar KString))]; o_extra := None |});
  ("yaml.AddFields", {| o_fields := [("to", NScalar KString); ("fields", NSeq (NObj "ast.StructField"))]; o_extra := None |});
  ("ast.StructField", {| o_fields := [("name", NScalar KString); ("comments", NSeq (NScalar KString)); ("type", NObj "ast.Type"); ("required", NScalar KBool); ("passestrail", NSeq (NScalar KString))]; o_extra := None |});
  ("ast.Type", {| o_fields := [("kind", NScalar KString); ("nullable", NScalar KBool); ("default", NAny); ("disjunction", NObj "ast.DisjunctionType"); ("array", NObj "ast.ArrayType"); ("enum", NObj "ast.EnumType"); ("map", NObj "ast.MapType"); ("struct", NObj "ast.StructType"); ("ref", NObj "ast.RefType"); ("constantreference", NObj "ast.ConstantReferenceType"); ("scalar", NObj "ast.ScalarType"); ("intersection", NObj "ast.IntersectionType"); ("composable_slot", NObj "ast.ComposableSlotType"); ("hints", NMap (NAny)); ("passestrail", NSeq (NScalar KString))]; o_extra := None |});
  ("ast.DisjunctionType", {| o_fields := [("branches", NSeq (NObj "ast.Type")); ("discriminator", NScalar KString); ("discriminator_mapping", NMap (NScalar KString))]; o_extra := None |});
  ("ast.ArrayType", {| o_fields := [("value_type", NObj "ast.Type")]; o_extra := None |});
  ("ast.EnumType", {| o_fields := [("values", NSeq (NObj "ast.EnumValue"))]; o_extra := None |});
  ("ast.EnumValue", {| o_fields := [("type", NObj "ast.Type"); ("name", NScalar KString); ("value", NAny)]; o_extra := None |});
  ("ast.MapType", {| o_fields := [("indextype", NObj "ast.Type"); ("valuetype", NObj "ast.Type")]; o_extra := None |});
  ("ast.StructType", {| o_fields := [("fields", NSeq (NObj "ast.StructField"))]; o_extra := None |});
  ("ast.RefType", {| o_fields := [("referred_pkg", NScalar KString); ("referred_type", NScalar KString)]; o_extra := None |});
  ("ast.ConstantReferenceType", {| o_fields := [("referred_pkg", NScalar KString); ("referred_type", NScalar KString); ("reference_value", NAny)]; o_extra := None |});
  ("ast.ScalarType", {| o_fields := [("scalar_kind", NScalar KString); ("value", NAny); ("constraints", NSeq (NObj "ast.TypeConstraint"))]; o_extra := None |});
  ("ast.TypeConstraint", {| o_fields := [("op", NScalar KString); ("args", NSeq (NAny))]; o_extra := None |});
  ("ast.IntersectionType", {| o_fields := [("branches", NSeq (NObj "ast.Type"))]; o_extra := None |});
  ("ast.ComposableSlotType", {| o_fields := [("variant", NScalar KString)]; o_extra := None |});
  ("yaml.NameAnonymousStruct", {| o_fields := [("field", NScalar KString); ("as", NScalar KString)]; o_extra := None |});
  ("yaml.AddObject", {| o_fields := [("object", NScalar KString); ("as", NObj "ast.Type"); ("comments", NSeq (NScalar KString))]; o_extra := None |});
  ("yaml.RenameObject", {| o_fields := [("from", NScalar KString); ("to", NScalar KString)]; o_extra := None |});
  ("yaml.RetypeObject", {| o_fields := [("object", NScalar KString); ("as", NObj "ast.Type"); ("comments", NSeq (NScalar KString))]; o_extra := None |});
  ("yaml.HintObject", {| o_fields := [("object", NScalar KString); ("hints", NMap (NAny))]; o_extra := None |});
  ("yaml.RetypeField", {| o_fields := [("field", NScalar KString); ("as", NObj "ast.Type"); ("comments", NSeq (NScalar KString))]; o_extra := None |});
  ("yaml.OmitFields", {| o_fields := [("fields", NSeq (NScalar KString))]; o_extra := None |});
  ("yaml.SchemaSetIdentifier", {| o_fields := [("package", NScalar KString); ("identifier", NScalar KString)]; o_extra := None |});
  ("yaml.SchemaSetEntryPoint", {| o_fields := [("package", NScalar KString); ("entry_point", NScalar KString)]; o_extra := None |});
  ("yaml.DuplicateObject", {| o_fields := [("object", NScalar KString); ("as", NScalar KString); ("omit_fields", NSeq (NScalar KString))]; o_extra := None |});
  ("yaml.TrimEnumValues", {| o_fields := []; o_extra := None |});
  ("yaml.ConstantToEnum", {| o_fields := [("objects", NSeq (NScalar KString))]; o_extra := None |});
  ("yaml.AnonymousStructsToNamed", {| o_fields := []; o_extra := None |});
  ("yaml.DisjunctionToType", {| o_fields := []; o_extra := None |});
  ("yaml.DisjunctionOfAnonymousStructsToExplicit", {| o_fields := []; o_extra := None |});
  ("yaml.DisjunctionInferMapping", {| o_fields := []; o_extra := None |});
  ("yaml.DisjunctionWithConstantToDefault", {| o_fields := []; o_extra := None |})].
Definition compiler_passes_conv : conv_t := [("yaml.Compiler", [CEach "passes"]);
   ("yaml.CompilerPass", [CUnion ["entrypoint_identification"; "dataquery_identification"; "unspec"; "replace_reference"; "fields_set_default"; "fields_set_required"; "fields_set_not_required"; "omit"; "add_fields"; "name_anonymous_struct"; "retype_object"; "hint_object"; "add_object"; "rename_object"; "retype_field"; "omit_fields"; "schema_set_identifier"; "schema_set_entry_point"; "duplicate_object"; "trim_enum_values"; "constant_to_enum"; "anonymous_structs_to_named"; "disjunction_to_type"; "disjunction_of_anonymous_structs_to_explicit"; "disjunction_infer_mapping"; "disjunction_with_constant_to_default"] true])].
Definition compiler_passes_loader : forest := {| f_root := NObj "yaml.Compiler"; f_defs := compiler_passes_loader_defs; f_conv := compiler_passes_conv; f_known_fields := strict_decoders compiler_passes_decoders |}.
Definition compiler_passes_schema_defs : defs_t := [
  ("YamlCompiler", {| o_fields := [("passes", NSeq (NObj "YamlCompilerPass"))]; o_extra := None |});
  ("YamlCompilerPass", {| o_fields := [("entrypoint_identification", NObj "YamlEntrypointIdentification"); ("dataquery_identification", NObj "YamlDataqueryIdentification"); ("unspec", NObj "YamlUnspec"); ("replace_reference", NObj "YamlReplaceReference"); ("fields_set_default", NObj "YamlFieldsSetDefault"); ("fields_set_required", NObj "YamlFieldsSetRequired"); ("fields_set_not_required", NObj "YamlFieldsSetNotRequired"); ("omit", NObj "YamlOmit"); ("add_fields", NObj "YamlAddFields"); ("name_anonymous_struct", NObj "YamlNameAnonymousStruct"); ("add_object", NObj "YamlAddObject"); ("rename_object", NObj "YamlRenameObject"); ("retype_object", NObj "YamlRetypeObject"); ("hint_object", NObj "YamlHintObject"); ("retype_field", NObj "YamlRetypeField"); ("omit_fields", NObj "YamlOmitFields"); ("schema_set_identifier", NObj "YamlSchemaSetIdentifier"); ("schema_set_entry_point", NObj "YamlSchemaSetEntryPoint"); ("duplicate_object", NObj "YamlDuplicateObject"); ("trim_enum_values", NObj "YamlTrimEnumValues"); ("constant_to_enum", NObj "YamlConstantToEnum"); ("anonymous_structs_to_named", NObj "YamlAnonymousStructsToNamed"); ("disjunction_to_type", NObj "YamlDisjunctionToType"); ("disjunction_of_anonymous_structs_to_explicit", NObj "YamlDisjunctionOfAnonymousStructsToExplicit"); ("disjunction_infer_mapping", NObj "YamlDisjunctionInferMapping"); ("disjunction_with_constant_to_default", NObj "YamlDisjunctionWithConstantToDefault")]; o_extra := None |});
  ("YamlEntrypointIdentification", {| o_fields := []; o_extra := None |});
  ("YamlDataqueryIdentification", {| o_fields := []; o_extra := None |});
  ("YamlUnspec", {| o_fields := []; o_extra := None |});
  ("YamlReplaceReference", {| o_fields := [("from", NScalar KString); ("to", NScalar KString)]; o_extra := None |});
  ("YamlFieldsSetDefault", {| o_fields := [("defaults", NMap (NAny))]; o_extra := None |});
  ("YamlFieldsSetRequired", {| o_fields := [("fields", NSeq (NScalar KString))]; o_extra := None |});
  ("YamlFieldsSetNotRequired", {| o_fields := [("fields", NSeq (NScalar KString))]; o_extra := None |});
  ("YamlOmit", {| o_fields := [("objects", NSeq (NScalar KString))]; o_extra := None |});
  ("YamlAddFields", {| o_fields := [("to", NScalar KString); ("fields", NSeq (NObj "AstStructField"))]; o_extra := None |});
  ("AstStructField", {| o_fields := [("name", NScalar KString); ("comments", NSeq (NScalar KString)); ("type", NObj "AstType"); ("required", NScalar KBool); ("passestrail", NSeq (NScalar KString))]; o_extra := None |});
  ("AstType", {| o_fields := [("kind", NScalar KString); ("nullable", NScalar KBool); ("default", NAny); ("disjunction", NObj "AstDisjunctionType"); ("array", NObj "AstArrayType"); ("enum", NObj "AstEnumType"); ("map", NObj "AstMapType"); ("struct", NObj "AstStructType"); ("ref", NObj "AstRefType"); ("constantreference", NObj "AstConstantReferenceType"); ("scalar", NObj "AstScalarType"); ("intersection", NObj "AstIntersectionType"); ("composable_slot", NObj "AstComposableSlotType"); ("hints", NMap (NAny)); ("passestrail", NSeq (NScalar KString))]; o_extra := None |});
  ("AstDisjunctionType", {| o_fields := [("branches", NSeq (NObj "AstType")); ("discriminator", NScalar KString); ("discriminator_mapping", NMap (NScalar KString))]; o_extra := None |});
  ("AstArrayType", {| o_fields := [("value_type", NObj "AstType")]; o_extra := None |});
  ("AstEnumType", {| o_fields := [("values", NSeq (NObj "AstEnumValue"))]; o_extra := None |});
  ("AstEnumValue", {| o_fields := [("type", NObj "AstType"); ("name", NScalar KString); ("value", NAny)]; o_extra := None |});
  ("AstMapType", {| o_fields := [("indextype", NObj "AstType"); ("valuetype", NObj "AstType")]; o_extra := None |});
  ("AstStructType", {| o_fields := [("fields", NSeq (NObj "AstStructField"))]; o_extra := None |});
  ("AstRefType", {| o_fields := [("referred_pkg", NScalar KString); ("referred_type", NScalar KString)]; o_extra := None |});
  ("AstConstantReferenceType", {| o_fields := [("referred_pkg", NScalar KString); ("referred_type", NScalar KString); ("reference_value", NAny)]; o_extra := None |});
  ("AstScalarType", {| o_fields := [("scalar_kind", NScalar KString); ("value", NAny); ("constraints", NSeq (NObj "AstTypeConstraint"))]; o_extra := None |});
  ("AstTypeConstraint", {| o_fields := [("op", NScalar KString); ("args", NSeq (NAny))]; o_extra := None |});
  ("AstIntersectionType", {| o_fields := [("branches", NSeq (NObj "AstType"))]; o_extra := None |});
  ("AstComposableSlotType", {| o_fields := [("variant", NScalar KString)]; o_extra := None |});
  ("YamlNameAnonymousStruct", {| o_fields := [("field", NScalar KString); ("as", NScalar KString)]; o_extra := None |});
  ("YamlAddObject", {| o_fields := [("object", NScalar KString); ("as", NObj "AstType"); ("comments", NSeq (NScalar KString))]; o_extra := None |});
  ("YamlRenameObject", {| o_fields := [("from", NScalar KString); ("to", NScalar KString)]; o_extra := None |});
  ("YamlRetypeObject", {| o_fields := [("object", NScalar KString); ("as", NObj "AstType"); ("comments", NSeq (NScalar KString))]; o_extra := None |});
  ("YamlHintObject", {| o_fields := [("object", NScalar KString); ("hints", NMap (NAny))]; o_extra := None |});
  ("YamlRetypeField", {| o_fields := [("field", NScalar KString); ("as", NObj "AstType"); ("comments", NSeq (NScalar KString))]; o_extra := None |});
  ("YamlOmitFields", {| o_fields := [("fields", NSeq (NScalar KString))]; o_extra := None |});
  ("YamlSchemaSetIdentifier", {| o_fields := [("package", NScalar KString); ("identifier", NScalar KString)]; o_extra := None |});
  ("YamlSchemaSetEntryPoint", {| o_fields := [("package", NScalar KString); ("entry_point", NScalar KString)]; o_extra := None |});
  ("YamlDuplicateObject", {| o_fields := [("object", NScalar KString); ("as", NScalar KString); ("omit_fields", NSeq (NScalar KString))]; o_extra := None |});
  ("YamlTrimEnumValues", {| o_fields := []; o_extra := None |});
  ("YamlConstantToEnum", {| o_fields := [("objects", NSeq (NScalar KString))]; o_extra := None |});
  ("YamlAnonymousStructsToNamed", {| o_fields := []; o_extra := None |});
  ("YamlDisjunctionToType", {| o_fields := []; o_extra := None |});
  ("YamlDisjunctionOfAnonymousStructsToExplicit", {| o_fields := []; o_extra := None |});
  ("YamlDisjunctionInferMapping", {| o_fields := []; o_extra := None |});
  ("YamlDisjunctionWithConstantToDefault", {| o_fields := []; o_extra := None |})].
Definition compiler_passes_schema : forest := {| f_root := NObj "YamlCompiler"; f_defs := compiler_passes_schema_defs; f_conv := []; f_known_fields := true |}.
Definition compiler_passes_rel : rel_t := [("yaml.Compiler", "YamlCompiler");
   ("yaml.CompilerPass", "YamlCompilerPass");
   ("yaml.EntrypointIdentification", "YamlEntrypointIdentification");
   ("yaml.DataqueryIdentification", "YamlDataqueryIdentification");
   ("yaml.Unspec", "YamlUnspec");
   ("yaml.ReplaceReference", "YamlReplaceReference");
   ("yaml.FieldsSetDefault", "YamlFieldsSetDefault");
   ("yaml.FieldsSetRequired", "YamlFieldsSetRequired");
   ("yaml.FieldsSetNotRequired", "YamlFieldsSetNotRequired");
   ("yaml.Omit", "YamlOmit");
   ("yaml.AddFields", "YamlAddFields");
   ("ast.StructField", "AstStructField");
   ("ast.Type", "AstType");
   ("ast.DisjunctionType", "AstDisjunctionType");
   ("ast.ArrayType", "AstArrayType");
   ("ast.EnumType", "AstEnumType");
   ("ast.EnumValue", "AstEnumValue");
   ("ast.MapType", "AstMapType");
   ("ast.StructType", "AstStructType");
   ("ast.RefType", "AstRefType");
   ("ast.ConstantReferenceType", "AstConstantReferenceType");
   ("ast.ScalarType", "AstScalarType");
   ("ast.TypeConstraint", "AstTypeConstraint");
   ("ast.IntersectionType", "AstIntersectionType");
   ("ast.ComposableSlotType", "AstComposableSlotType");
   ("yaml.NameAnonymousStruct", "YamlNameAnonymousStruct");
   ("yaml.AddObject", "YamlAddObject");
   ("yaml.RenameObject", "YamlRenameObject");
   ("yaml.RetypeObject", "YamlRetypeObject");
   ("yaml.HintObject", "YamlHintObject");
   ("yaml.RetypeField", "YamlRetypeField");
   ("yaml.OmitFields", "YamlOmitFields");
   ("yaml.SchemaSetIdentifier", "YamlSchemaSetIdentifier");
   ("yaml.SchemaSetEntryPoint", "YamlSchemaSetEntryPoint");
   ("yaml.DuplicateObject", "YamlDuplicateObject");
   ("yaml.TrimEnumValues", "YamlTrimEnumValues");
   ("yaml.ConstantToEnum", "YamlConstantToEnum");
   ("yaml.AnonymousStructsToNamed", "YamlAnonymousStructsToNamed");
   ("yaml.DisjunctionToType", "YamlDisjunctionToType");
   ("yaml.DisjunctionOfAnonymousStructsToExplicit", "YamlDisjunctionOfAnonymousStructsToExplicit");
   ("yaml.DisjunctionInferMapping", "YamlDisjunctionInferMapping");
   ("yaml.DisjunctionWithConstantToDefault", "YamlDisjunctionWithConstantToDefault")].

(* ---- veneers ---- *)
Definition veneers_decoders : list decoder_site := [{| d_file := "internal/yaml/veneers.go"; d_func := "VeneersLoader.load"; d_call := "NewDecoder"; d_known_fields := true |}].
Definition veneers_loader_defs : defs_t := [
  ("yaml.Veneers", {| o_fields := [("language", NScalar KString); ("package", NScalar KString); ("builders", NSeq (NObj "yaml.BuilderRule")); ("options", NSeq (NObj "yaml.OptionRule"))]; o_extra := None |});
  ("yaml.BuilderRule", {| o_fields := [("omit", NObj "yaml.BuilderSelector"); ("rename", NObj "yaml.RenameBuilder"); ("merge_into", NObj "yaml.MergeInto"); ("compose", NObj "yaml.ComposeBuilders"); ("properties", NObj "yaml.Properties"); ("duplicate", NObj "yaml.Duplicate"); ("initialize", NObj "yaml.Initialize"); ("promote_options_to_constructor", NObj "yaml.PromoteOptsToConstructor"); ("add_option", NObj "yaml.AddOption"); ("add_factory", NObj "yaml.AddFactory")]; o_extra := None |});
  ("yaml.BuilderSelector", {| o_fields := [("by_object", NScalar KString); ("by_name", NScalar KString); ("by_variant", NScalar KString); ("generated_from_disjunction", NScalar KBool)]; o_extra := None |});
  ("yaml.RenameBuilder", {| o_fields := [("by_object", NScalar KString); ("by_name", NScalar KString); ("by_variant", NScalar KString); ("generated_from_disjunction", NScalar KBool); ("as", NScalar KString)]; o_extra := None |});
  ("yaml.MergeInto", {| o_fields := [("destination", NScalar KString); ("source", NScalar KString); ("under_path", NScalar KString); ("exclude_options", NSeq (NScalar KString)); ("rename_options", NMap (NScalar KString))]; o_extra := None |});
  ("yaml.ComposeBuilders", {| o_fields := [("by_object", NScalar KString); ("by_name", NScalar KString); ("by_variant", NScalar KString); ("generated_from_disjunction", NScalar KBool); ("source_builder_name", NScalar KString); ("plugin_discriminator_field", NScalar KString); ("exclude_options", NSeq (NScalar KString)); ("composition_map", NMap (NScalar KString)); ("composed_builder_name", NScalar KString); ("preserve_original_builders", NScalar KBool)]; o_extra := None |});
  ("yaml.Properties", {| o_fields := [("by_object", NScalar KString); ("by_name", NScalar KString); ("by_variant", NScalar KString); ("generated_from_disjunction", NScalar KBool); ("set", NSeq (NObj "ast.StructField"))]; o_extra := None |});
  ("ast.StructField", {| o_fields := [("name", NScalar KString); ("comments", NSeq (NScalar KString)); ("type", NObj "ast.Type"); ("required", NScalar KBool); ("passestrail", NSeq (NScalar KString))]; o_extra := None |});
  ("ast.Type", {| o_fields := [("kind", NScalar KString); ("nullable", NScalar KBool); ("default", NAny); ("disjunction", NObj "ast.DisjunctionType"); ("array", NObj "ast.ArrayType"); ("enum", NObj "ast.EnumType"); ("map", NObj "ast.MapType"); ("struct", NObj "ast.StructType"); ("ref", NObj "ast.RefType"); ("constantreference", NObj "ast.ConstantReferenceType"); ("scalar", NObj "ast.ScalarType"); ("intersection", NObj "ast.IntersectionType"); ("composable_slot", NObj "ast.ComposableSlotType"); ("hints", NMap (NAny)); ("passestrail", NSeq (NScalar KString))]; o_extra := None |});
  ("ast.DisjunctionType", {| o_fields := [("branches", NSeq (NObj "ast.Type")); ("discriminator", NScalar KString); ("discriminator_mapping", NMap (NScalar KString))]; o_extra := None |});
  ("ast.ArrayType", {| o_fields := [("value_type", NObj "ast.Type")]; o_extra := None |});
  ("ast.EnumType", {| o_fields := [("values", NSeq (NObj "ast.EnumValue"))]; o_extra := None |});
  ("ast.EnumValue", {| o_fields := [("type", NObj "ast.Type"); ("name", NScalar KString); ("value", NAny)]; o_extra := None |});
  ("ast.MapType", {| o_fields := [("indextype", NObj "ast.Type"); ("valuetype", NObj "ast.Type")]; o_extra := None |});
  ("ast.StructType", {| o_fields := [("fields", NSeq (NObj "ast.StructField"))]; o_extra := None |});
  ("ast.RefType", {| o_fields := [("referred_pkg", NScalar KString); ("referred_type", NScalar KString)]; o_extra := None |});
  ("ast.ConstantReferenceType", {| o_fields := [("referred_pkg", NScalar KString); ("referred_type", NScalar KString); ("reference_value", NAny)]; o_extra := None |});
  ("ast.ScalarType", {| o_fields := [("scalar_kind", NScalar KString); ("value", NAny); ("constraints", NSeq (NObj "ast.TypeConstraint"))]; o_extra := None |});
  ("ast.TypeConstraint", {| o_fields := [("op", NScalar KString); ("args", NSeq (NAny))]; o_extra := None |});
  ("ast.IntersectionType", {| o_fields := [("branches", NSeq (NObj "ast.Type"))]; o_extra := None |});
  ("ast.ComposableSlotType", {| o_fields := [("variant", NScalar KString)]; o_extra := None |});
  ("yaml.Duplicate", {| o_fields := [("by_object", NScalar KString); ("by_name", NScalar KString); ("by_variant", NScalar KString); ("generated_from_disjunction", NScalar KBool); ("as", NScalar KString); ("exclude_options", NSeq (NScalar KString))]; o_extra := None |});
  ("yaml.Initialize", {| o_fields := [("by_object", NScalar KString); ("by_name", NScalar KString); ("by_variant", NScalar KString); ("generated_from_disjunction", NScalar KBool); ("set", NSeq (NObj "yaml.Initialization"))]; o_extra := None |});
  ("yaml.Initialization", {| o_fields := [("property", NScalar KString); ("value", NAny)]; o_extra := None |});
  ("yaml.PromoteOptsToConstructor", {| o_fields := [("by_object", NScalar KString); ("by_name", NScalar KString); ("by_variant", NScalar KString); ("generated_from_disjunction", NScalar KBool); ("options", NSeq (NScalar KString))]; o_extra := None |});
  ("yaml.AddOption", {| o_fields := [("by_object", NScalar KString); ("by_name", NScalar KString); ("by_variant", NScalar KString); ("generated_from_disjunction", NScalar KBool); ("option", NObj "veneers.Option")]; o_extra := None |});
  ("veneers.Option", {| o_fields := [("name", NScalar KString); ("comments", NSeq (NScalar KString)); ("arguments", NSeq (NObj "ast.Argument")); ("assignments", NSeq (NObj "veneers.Assignment"))]; o_extra := None |});
  ("ast.Argument", {| o_fields := [("name", NScalar KString); ("type", NObj "ast.Type")]; o_extra := None |});
  ("veneers.Assignment", {| o_fields := [("path", NScalar KString); ("method", NScalar KString); ("value", NObj "veneers.AssignmentValue")]; o_extra := None |});
  ("veneers.AssignmentValue", {| o_fields := [("argument", NObj "ast.Argument"); ("constant", NAny); ("envelope", NObj "veneers.AssignmentEnvelope")]; o_extra := None |});
  ("veneers.AssignmentEnvelope", {| o_fields := [("values", NSeq (NObj "veneers.EnvelopeFieldValue"))]; o_extra := None |});
  ("veneers.EnvelopeFieldValue", {| o_fields := [("field", NScalar KString); ("value", NObj "veneers.AssignmentValue")]; o_extra := None |});
  ("yaml.AddFactory", {| o_fields := [("by_object", NScalar KString); ("by_name", NScalar KString); ("by_variant", NScalar KString); ("generated_from_disjunction", NScalar KBool); ("factory", NObj "ast.BuilderFactory")]; o_extra := None |});
  ("ast.BuilderFactory", {| o_fields := [("name", NScalar KString); ("comments", NSeq (NScalar KString)); ("arguments", NSeq (NObj "ast.Argument")); ("options", NSeq (NObj "ast.OptionCall"))]; o_extra := None |});
  ("ast.OptionCall", {| o_fields := [("name", NScalar KString); ("parameters", NSeq (NObj "ast.OptionCallParameter"))]; o_extra := None |});
  ("ast.OptionCallParameter", {| o_fields := [("argument", NObj "ast.Argument"); ("constant", NObj "ast.TypedConstant"); ("factory", NObj "ast.FactoryCall")]; o_extra := None |});
  ("ast.TypedConstant", {| o_fields := [("type", NObj "ast.Type"); ("value", NAny)]; o_extra := None |});
  ("ast.FactoryCall", {| o_fields := [("ref", NObj "ast.FactoryRef"); ("parameters", NSeq (NObj "ast.OptionCallParameter"))]; o_extra := None |});
  ("ast.FactoryRef", {| o_fields := [("package", NScalar KString); ("builder", NScalar KString); ("factory", NScalar KString)]; o_extra := None |});
  ("yaml.OptionRule", {| o_fields := [("omit", NObj "yaml.OptionSelector"); ("rename", NObj "yaml.RenameOption"); ("rename_arguments", NObj "yaml.RenameArguments"); ("unfold_boolean", NObj "yaml.UnfoldBoolean"); ("struct_fields_as_arguments", NObj "yaml.StructFieldsAsArguments"); ("struct_fields_as_options", NObj "yaml.StructFieldsAsOptions"); ("array_to_append", NObj "yaml.ArrayToAppend"); ("map_to_index", NObj "yaml.MapToIndex"); ("disjunction_as_options", NObj "yaml.DisjunctionAsOptions"); ("duplicate", NObj "yaml.DuplicateOption"); ("add_assignment", NObj "yaml.AddAssignment"); ("add_comments", NObj "yaml.AddComments")]; o_extra := None |});
  ("yaml.OptionSelector", {| o_fields := [("by_name", NScalar KString); ("by_builder", NScalar KString); ("by_names", NObj "yaml.ByNamesSelector")]; o_extra := None |});
  ("yaml.ByNamesSelector", {| o_fields := [("object", NScalar KString); ("builder", NScalar KString); ("options", NSeq (NScalar KString))]; o_extra := None |});
  ("yaml.RenameOption", {| o_fields := [("by_name", NScalar KString); ("by_builder", NScalar KString); ("by_names", NObj "yaml.ByNamesSelector"); ("as", NScalar KString)]; o_extra := None |});
  ("yaml.RenameArguments", {| o_fields := [("by_name", NScalar KString); ("by_builder", NScalar KString); ("by_names", NObj "yaml.ByNamesSelector"); ("as", NSeq (NScalar KString))]; o_extra := None |});
  ("yaml.UnfoldBoolean", {| o_fields := [("by_name", NScalar KString); ("by_builder", NScalar KString); ("by_names", NObj "yaml.ByNamesSelector"); ("true_as", NScalar KString); ("false_as", NScalar KString)]; o_extra := None |});
  ("yaml.StructFieldsAsArguments", {| o_fields := [("by_name", NScalar KString); ("by_builder", NScalar KString); ("by_names", NObj "yaml.ByNamesSelector"); ("fields", NSeq (NScalar KString))]; o_extra := None |});
  ("yaml.StructFieldsAsOptions", {| o_fields := [("by_name", NScalar KString); ("by_builder", NScalar KString); ("by_names", NObj "yaml.ByNamesSelector"); ("fields", NSeq (NScalar KString))]; o_extra := None |});
  ("yaml.ArrayToAppend", {| o_fields := [("by_name", NScalar KString); ("by_builder", NScalar KString); ("by_names", NObj "yaml.ByNamesSelector")]; o_extra := None |});
  ("yaml.MapToIndex", {| o_fields := [("by_name", NScalar KString); ("by_builder", NScalar KString); ("by_names", NObj "yaml.ByNamesSelector")]; o_extra := None |});
  ("yaml.DisjunctionAsOptions", {| o_fields := [("by_name", NScalar KString); ("by_builder", NScalar KString); ("by_names", NObj "yaml.ByNamesSelector"); ("argument_index", NScalar KInt)]; o_extra := None |});
  ("yaml.DuplicateOption", {| o_fields := [("by_name", NScalar KString); ("by_builder", NScalar KString); ("by_names", NObj "yaml.ByNamesSelector"); ("as", NScalar KString)]; o_extra := None |});
  ("yaml.AddAssignment", {| o_fields := [("by_name", NScalar KString); ("by_builder", NScalar KString); ("by_names", NObj "yaml.ByNamesSelector"); ("assignment", NObj "veneers.Assignment")]; o_extra := None |});
  ("yaml.AddComments", {| o_fields := [("by_name", NScalar KString); ("by_builder", NScalar KString); ("by_names", NObj "yaml.ByNamesSelector"); ("comments", NSeq (NScalar KString))]; o_extra := None |})].
Definition veneers_conv : conv_t := [("yaml.AddAssignment", [CUnion ["by_name"; "by_builder"; "by_names"] true]);
   ("yaml.AddComments", [CUnion ["by_name"; "by_builder"; "by_names"] true]);
   ("yaml.AddFactory", [CUnion ["by_object"; "by_name"; "by_variant"; "generated_from_disjunction"] true]);
   ("yaml.AddOption", [CUnion ["by_object"; "by_name"; "by_variant"; "generated_from_disjunction"] true]);
   ("yaml.ArrayToAppend", [CUnion ["by_name"; "by_builder"; "by_names"] true]);
   ("yaml.BuilderRule", [CUnion ["omit"; "rename"; "merge_into"; "compose"; "properties"; "duplicate"; "initialize"; "promote_options_to_constructor"; "add_option"; "add_factory"] true]);
   ("yaml.BuilderSelector", [CUnion ["by_object"; "by_name"; "by_variant"; "generated_from_disjunction"] true]);
   ("yaml.ByNamesSelector", [CNonEmpty ["object"; "builder"]]);
   ("yaml.ComposeBuilders", [CUnion ["by_object"; "by_name"; "by_variant"; "generated_from_disjunction"] true]);
   ("yaml.DisjunctionAsOptions", [CUnion ["by_name"; "by_builder"; "by_names"] true]);
   ("yaml.Duplicate", [CUnion ["by_object"; "by_name"; "by_variant"; "generated_from_disjunction"] true]);
   ("yaml.DuplicateOption", [CUnion ["by_name"; "by_builder"; "by_names"] true]);
   ("yaml.Initialize", [CUnion ["by_object"; "by_name"; "by_variant"; "generated_from_disjunction"] true]);
   ("yaml.MapToIndex", [CUnion ["by_name"; "by_builder"; "by_names"] true]);
   ("yaml.OptionRule", [CUnion ["omit"; "rename"; "rename_arguments"; "unfold_boolean"; "struct_fields_as_arguments"; "struct_fields_as_options"; "array_to_append"; "map_to_index"; "disjunction_as_options"; "duplicate"; "add_assignment"; "add_comments"] true]);
   ("yaml.OptionSelector", [CUnion ["by_name"; "by_builder"; "by_names"] true]);
   ("yaml.PromoteOptsToConstructor", [CUnion ["by_object"; "by_name"; "by_variant"; "generated_from_disjunction"] true]);
   ("yaml.Properties", [CUnion ["by_object"; "by_name"; "by_variant"; "generated_from_disjunction"] true]);
   ("yaml.RenameArguments", [CUnion ["by_name"; "by_builder"; "by_names"] true]);
   ("yaml.RenameBuilder", [CUnion ["by_object"; "by_name"; "by_variant"; "generated_from_disjunction"] true]);
   ("yaml.RenameOption", [CUnion ["by_name"; "by_builder"; "by_names"] true]);
   ("yaml.StructFieldsAsArguments", [CUnion ["by_name"; "by_builder"; "by_names"] true]);
   ("yaml.StructFieldsAsOptions", [CUnion ["by_name"; "by_builder"; "by_names"] true]);
   ("yaml.UnfoldBoolean", [CUnion ["by_name"; "by_builder"; "by_names"] true]);
   ("yaml.Veneers", [CNonEmpty ["package"]; CEach "builders"; CEach "options"])].
Definition veneers_loader : forest := {| f_root := NObj "yaml.Veneers"; f_defs := veneers_loader_defs; f_conv := veneers_conv; f_known_fields := strict_decoders veneers_decoders |}.
Definition veneers_schema_defs : defs_t := [
  ("YamlVeneers", {| o_fields := [("language", NScalar KString); ("package", NScalar KString); ("builders", NSeq (NObj "YamlBuilderRule")); ("options", NSeq (NObj "YamlOptionRule"))]; o_extra := None |});
  ("YamlBuilderRule", {| o_fields := [("omit", NObj "YamlBuilderSelector"); ("rename", NObj "YamlRenameBuilder"); ("merge_into", NObj "YamlMergeInto"); ("compose", NObj "YamlComposeBuilders"); ("properties", NObj "YamlProperties"); ("duplicate", NObj "YamlDuplicate"); ("initialize", NObj "YamlInitialize"); ("promote_options_to_constructor", NObj "YamlPromoteOptsToConstructor"); ("add_option", NObj "YamlAddOption"); ("add_factory", NObj "YamlAddFactory")]; o_extra := None |});
  ("YamlBuilderSelector", {| o_fields := [("by_object", NScalar KString); ("by_name", NScalar KString); ("by_variant", NScalar KString); ("generated_from_disjunction", NScalar KBool)]; o_extra := None |});
  ("YamlRenameBuilder", {| o_fields := [("by_object", NScalar KString); ("by_name", NScalar KString); ("by_variant", NScalar KString); ("generated_from_disjunction", NScalar KBool); ("as", NScalar KString)]; o_extra := None |});
  ("YamlMergeInto", {| o_fields := [("destination", NScalar KString); ("source", NScalar KString); ("under_path", NScalar KString); ("exclude_options", NSeq (NScalar KString)); ("rename_options", NMap (NScalar KString))]; o_extra := None |});
  ("YamlComposeBuilders", {| o_fields := [("by_object", NScalar KString); ("by_name", NScalar KString); ("by_variant", NScalar KString); ("generated_from_disjunction", NScalar KBool); ("source_builder_name", NScalar KString); ("plugin_discriminator_field", NScalar KString); ("exclude_options", NSeq (NScalar KString)); ("composition_map", NMap (NScalar KString)); ("composed_builder_name", NScalar KString); ("preserve_original_builders", NScalar KBool)]; o_extra := None |});
  ("YamlProperties", {| o_fields := [("by_object", NScalar KString); ("by_name", NScalar KString); ("by_variant", NScalar KString); ("generated_from_disjunction", NScalar KBool); ("set", NSeq (NObj "AstStructField"))]; o_extra := None |});
  ("AstStructField", {| o_fields := [("name", NScalar KString); ("comments", NSeq (NScalar KString)); ("type", NObj "AstType"); ("required", NScalar KBool); ("passestrail", NSeq (NScalar KString))]; o_extra := None |});
  ("AstType", {| o_fields := [("kind", NScalar KString); ("nullable", NScalar KBool); ("default", NAny); ("disjunction", NObj "AstDisjunctionType"); ("array", NObj "AstArrayType"); ("enum", NObj "AstEnumType"); ("map", NObj "AstMapType"); ("struct", NObj "AstStructType"); ("ref", NObj "AstRefType"); ("constantreference", NObj "AstConstantReferenceType"); ("scalar", NObj "AstScalarType"); ("intersection", NObj "AstIntersectionType"); ("composable_slot", NObj "AstComposableSlotType"); ("hints", NMap (NAny)); ("passestrail", NSeq (NScalar KString))]; o_extra := None |});
  ("AstDisjunctionType", {| o_fields := [("branches", NSeq (NObj "AstType")); ("discriminator", NScalar KString); ("discriminator_mapping", NMap (NScalar KString))]; o_extra := None |});
  ("AstArrayType", {| o_fields := [("value_type", NObj "AstType")]; o_extra := None |});
  ("AstEnumType", {| o_fields := [("values", NSeq (NObj "AstEnumValue"))]; o_extra := None |});
  ("AstEnumValue", {| o_fields := [("type", NObj "AstType"); ("name", NScalar KString); ("value", NAny)]; o_extra := None |});
  ("AstMapType", {| o_fields := [("indextype", NObj "AstType"); ("valuetype", NObj "AstType")]; o_extra := None |});
  ("AstStructType", {| o_fields := [("fields", NSeq (NObj "AstStructField"))]; o_extra := None |});
  ("AstRefType", {| o_fields := [("referred_pkg", NScalar KString); ("referred_type", NScalar KString)]; o_extra := None |});
  ("AstConstantReferenceType", {| o_fields := [("referred_pkg", NScalar KString); ("referred_type", NScalar KString); ("reference_value", NAny)]; o_extra := None |});
  ("AstScalarType", {| o_fields := [("scalar_kind", NScalar KString); ("value", NAny); ("constraints", NSeq (NObj "AstTypeConstraint"))]; o_extra := None |});
  ("AstTypeConstraint", {| o_fields := [("op", NScalar KString); ("args", NSeq (NAny))]; o_extra := None |});
  ("AstIntersectionType", {| o_fields := [("branches", NSeq (NObj "AstType"))]; o_extra := None |});
  ("AstComposableSlotType", {| o_fields := [("variant", NScalar KString)]; o_extra := None |});
  ("YamlDuplicate", {| o_fields := [("by_object", NScalar KString); ("by_name", NScalar KString); ("by_variant", NScalar KString); ("generated_from_disjunction", NScalar KBool); ("as", NScalar KString); ("exclude_options", NSeq (NScalar KString))]; o_extra := None |});
  ("YamlInitialize", {| o_fields := [("by_object", NScalar KString); ("by_name", NScalar KString); ("by_variant", NScalar KString); ("generated_from_disjunction", NScalar KBool); ("set", NSeq (NObj "YamlInitialization"))]; o_extra := None |});
  ("YamlInitialization", {| o_fields := [("property", NScalar KString); ("value", NAny)]; o_extra := None |});
  ("YamlPromoteOptsToConstructor", {| o_fields := [("by_object", NScalar KString); ("by_name", NScalar KString); ("by_variant", NScalar KString); ("generated_from_disjunction", NScalar KBool); ("options", NSeq (NScalar KString))]; o_extra := None |});
  ("YamlAddOption", {| o_fields := [("by_object", NScalar KString); ("by_name", NScalar KString); ("by_variant", NScalar KString); ("generated_from_disjunction", NScalar KBool); ("option", NObj "VeneersOption")]; o_extra := None |});
  ("VeneersOption", {| o_fields := [("name", NScalar KString); ("comments", NSeq (NScalar KString)); ("arguments", NSeq (NObj "AstArgument")); ("assignments", NSeq (NObj "VeneersAssignment"))]; o_extra := None |});
  ("AstArgument", {| o_fields := [("name", NScalar KString); ("type", NObj "AstType")]; o_extra := None |});
  ("VeneersAssignment", {| o_fields := [("path", NScalar KString); ("method", NScalar KString); ("value", NObj "VeneersAssignmentValue")]; o_extra := None |});
  ("VeneersAssignmentValue", {| o_fields := [("argument", NObj "AstArgument"); ("constant", NAny); ("envelope", NObj "VeneersAssignmentEnvelope")]; o_extra := None |});
  ("VeneersAssignmentEnvelope", {| o_fields := [("values", NSeq (NObj "VeneersEnvelopeFieldValue"))]; o_extra := None |});
  ("VeneersEnvelopeFieldValue", {| o_fields := [("field", NScalar KString); ("value", NObj "VeneersAssignmentValue")]; o_extra := None |});
  ("YamlAddFactory", {| o_fields := [("by_object", NScalar KString); ("by_name", NScalar KString); ("by_variant", NScalar KString); ("generated_from_disjunction", NScalar KBool); ("factory", NObj "AstBuilderFactory")]; o_extra := None |});
  ("AstBuilderFactory", {| o_fields := [("name", NScalar KString); ("comments", NSeq (NScalar KString)); ("arguments", NSeq (NObj "AstArgument")); ("options", NSeq (NObj "AstOptionCall"))]; o_extra := None |});
  ("AstOptionCall", {| o_fields := [("name", NScalar KString); ("parameters", NSeq (NObj "AstOptionCallParameter"))]; o_extra := None |});
  ("AstOptionCallParameter", {| o_fields := [("argument", NObj "AstArgument"); ("constant", NObj "AstTypedConstant"); ("factory", NObj "AstFactoryCall")]; o_extra := None |});
  ("AstTypedConstant", {| o_fields := [("type", NObj "AstType"); ("value", NAny)]; o_extra := None |});
  ("AstFactoryCall", {| o_fields := [("ref", NObj "AstFactoryRef"); ("parameters", NSeq (NObj "AstOptionCallParameter"))]; o_extra := None |});
  ("AstFactoryRef", {| o_fields := [("package", NScalar KString); ("builder", NScalar KString); ("factory", NScalar KString)]; o_extra := None |});
  ("YamlOptionRule", {| o_fields := [("omit", NObj "YamlOptionSelector"); ("rename", NObj "YamlRenameOption"); ("rename_arguments", NObj "YamlRenameArguments"); ("unfold_boolean", NObj "YamlUnfoldBoolean"); ("struct_fields_as_arguments", NObj "YamlStructFieldsAsArguments"); ("struct_fields_as_options", NObj "YamlStructFieldsAsOptions"); ("array_to_append", NObj "YamlArrayToAppend"); ("map_to_index", NObj "YamlMapToIndex"); ("disjunction_as_options", NObj "YamlDisjunctionAsOptions"); ("duplicate", NObj "YamlDuplicateOption"); ("add_assignment", NObj "YamlAddAssignment"); ("add_comments", NObj "YamlAddComments")]; o_extra := None |});
  ("YamlOptionSelector", {| o_fields := [("by_name", NScalar KString); ("by_builder", NScalar KString); ("by_names", NObj "YamlByNamesSelector")]; o_extra := None |});
  ("YamlByNamesSelector", {| o_fields := [("object", NScalar KString); ("builder", NScalar KString); ("options", NSeq (NScalar KString))]; o_extra := None |});
  ("YamlRenameOption", {| o_fields := [("by_name", NScalar KString); ("by_builder", NScalar KString); ("by_names", NObj "YamlByNamesSelector"); ("as", NScalar KString)]; o_extra := None |});
  ("YamlRenameArguments", {| o_fields := [("by_name", NScalar KString); ("by_builder", NScalar KString); ("by_names", NObj "YamlByNamesSelector"); ("as", NSeq (NScalar KString))]; o_extra := None |});
  ("YamlUnfoldBoolean", {| o_fields := [("by_name", NScalar KString); ("by_builder", NScalar KString); ("by_names", NObj "YamlByNamesSelector"); ("true_as", NScalar KString); ("false_as", NScalar KString)]; o_extra := None |});
  ("YamlStructFieldsAsArguments", {| o_fields := [("by_name", NScalar KString); ("by_builder", NScalar KString); ("by_names", NObj "YamlByNamesSelector"); ("fields", NSeq (NScalar KString))]; o_extra := None |});
  ("YamlStructFieldsAsOptions", {| o_fields := [("by_name", NScalar KString); ("by_builder", NScalar KString); ("by_names", NObj "YamlByNamesSelector"); ("fields", NSeq (NScalar KString))]; o_extra := None |});
  ("YamlArrayToAppend", {| o_fields := [("by_name", NScalar KString); ("by_builder", NScalar KString); ("by_names", NObj "YamlByNamesSelector")]; o_extra := None |});
  ("YamlMapToIndex", {| o_fields := [("by_name", NScalar KString); ("by_builder", NScalar KString); ("by_names", NObj "YamlByNamesSelector")]; o_extra := None |});
  ("YamlDisjunctionAsOptions", {| o_fields := [("by_name", NScalar KString); ("by_builder", NScalar KString); ("by_names", NObj "YamlByNamesSelector"); ("argument_index", NScalar KInt)]; o_extra := None |});
  ("YamlDuplicateOption", {| o_fields := [("by_name", NScalar KString); ("by_builder", NScalar KString); ("by_names", NObj "YamlByNamesSelector"); ("as", NScalar KString)]; o_extra := None |});
  ("YamlAddAssignment", {| o_fields := [("by_name", NScalar KString); ("by_builder", NScalar KString); ("by_names", NObj "YamlByNamesSelector"); ("assignment", NObj "VeneersAssignment")]; o_extra := None |});
  ("YamlAddComments", {| o_fields := [("by_name", NScalar KString); ("by_builder", NScalar KString); ("by_names", NObj "YamlByNamesSelector"); ("comments", NSeq (NScalar KString))]; o_extra := None |})].
Definition veneers_schema : forest := {| f_root := NObj "YamlVeneers"; f_defs := veneers_schema_defs; f_conv := []; f_known_fields := true |}.
Definition veneers_rel : rel_t := [("yaml.Veneers", "YamlVeneers");
   ("yaml.BuilderRule", "YamlBuilderRule");
   ("yaml.BuilderSelector", "YamlBuilderSelector");
   ("yaml.RenameBuilder", "YamlRenameBuilder");
   ("yaml.MergeInto", "YamlMergeInto");
   ("yaml.ComposeBuilders", "YamlComposeBuilders");
   ("yaml.Properties", "YamlProperties");
   ("ast.StructField", "AstStructField");
   ("ast.Type", "AstType");
   ("ast.DisjunctionType", "AstDisjunctionType");
   ("ast.ArrayType", "AstArrayType");
   ("ast.EnumType", "AstEnumType");
   ("ast.EnumValue", "AstEnumValue");
   ("ast.MapType", "AstMapType");
   ("ast.StructType", "AstStructType");
   ("ast.RefType", "AstRefType");
   ("ast.ConstantReferenceType", "AstConstantReferenceType");
   ("ast.ScalarType", "AstScalarType");
   ("ast.TypeConstraint", "AstTypeConstraint");
   ("ast.IntersectionType", "AstIntersectionType");
   ("ast.ComposableSlotType", "AstComposableSlotType");
   ("yaml.Duplicate", "YamlDuplicate");
   ("yaml.Initialize", "YamlInitialize");
   ("yaml.Initialization", "YamlInitialization");
   ("yaml.PromoteOptsToConstructor", "YamlPromoteOptsToConstructor");
   ("yaml.AddOption", "YamlAddOption");
   ("veneers.Option", "VeneersOption");
   ("ast.Argument", "AstArgument");
   ("veneers.Assignment", "VeneersAssignment");
   ("veneers.AssignmentValue", "VeneersAssignmentValue");
   ("veneers.AssignmentEnvelope", "VeneersAssignmentEnvelope");
   ("veneers.EnvelopeFieldValue", "VeneersEnvelopeFieldValue");
   ("yaml.AddFactory", "YamlAddFactory");
   ("ast.BuilderFactory", "AstBuilderFactory");
   ("ast.OptionCall", "AstOptionCall");
   ("ast.OptionCallParameter", "AstOptionCallParameter");
   ("ast.TypedConstant", "AstTypedConstant");
   ("ast.FactoryCall", "AstFactoryCall");
   ("ast.FactoryRef", "AstFactoryRef");
   ("yaml.OptionRule", "YamlOptionRule");
   ("yaml.OptionSelector", "YamlOptionSelector");
   ("yaml.ByNamesSelector", "YamlByNamesSelector");
   ("yaml.RenameOption", "YamlRenameOption");
   ("yaml.RenameArguments", "YamlRenameArguments");
   ("yaml.UnfoldBoolean", "YamlUnfoldBoolean");
   ("yaml.StructFieldsAsArguments", "YamlStructFieldsAsArguments");
   ("yaml.StructFieldsAsOptions", "YamlStructFieldsAsOptions");
   ("yaml.ArrayToAppend", "YamlArrayToAppend");
   ("yaml.MapToIndex", "YamlMapToIndex");
   ("yaml.DisjunctionAsOptions", "YamlDisjunctionAsOptions");
   ("yaml.DuplicateOption", "YamlDuplicateOption");
   ("yaml.AddAssignment", "YamlAddAssignment");
   ("yaml.AddComments", "YamlAddComments")].

Definition loaders : list forest := [pipeline_loader; compiler_passes_loader; veneers_loader].
Definition schemas : list forest := [pipeline_schema; compiler_passes_schema; veneers_schema].
Definition rels : list rel_t := [pipeline_rel; compiler_passes_rel; veneers_rel].

Definition registry : list union := [{| u_struct := "BuilderRule"; u_method := "AsRewriteRule";
     u_declared := ["omit"; "rename"; "merge_into"; "compose"; "properties"; "duplicate"; "initialize"; "promote_options_to_constructor"; "add_option"; "add_factory"];
     u_dispatched := ["omit"; "rename"; "merge_into"; "compose"; "properties"; "duplicate"; "initialize"; "promote_options_to_constructor"; "add_option"; "add_factory"];
     u_empty_rejected := true |};
  {| u_struct := "BuilderSelector"; u_method := "AsSelector";
     u_declared := ["by_object"; "by_name"; "by_variant"; "generated_from_disjunction"];
     u_dispatched := ["by_object"; "by_name"; "by_variant"; "generated_from_disjunction"];
     u_empty_rejected := true |};
  {| u_struct := "CompilerPass"; u_method := "AsCompilerPass";
     u_declared := ["entrypoint_identification"; "dataquery_identification"; "unspec"; "replace_reference"; "fields_set_default"; "fields_set_required"; "fields_set_not_required"; "omit"; "add_fields"; "name_anonymous_struct"; "add_object"; "rename_object"; "retype_object"; "hint_object"; "retype_field"; "omit_fields"; "schema_set_identifier"; "schema_set_entry_point"; "duplicate_object"; "trim_enum_values"; "constant_to_enum"; "anonymous_structs_to_named"; "disjunction_to_type"; "disjunction_of_anonymous_structs_to_explicit"; "disjunction_infer_mapping"; "disjunction_with_constant_to_default"];
     u_dispatched := ["entrypoint_identification"; "dataquery_identification"; "unspec"; "replace_reference"; "fields_set_default"; "fields_set_required"; "fields_set_not_required"; "omit"; "add_fields"; "name_anonymous_struct"; "retype_object"; "hint_object"; "add_object"; "rename_object"; "retype_field"; "omit_fields"; "schema_set_identifier"; "schema_set_entry_point"; "duplicate_object"; "trim_enum_values"; "constant_to_enum"; "anonymous_structs_to_named"; "disjunction_to_type"; "disjunction_of_anonymous_structs_to_explicit"; "disjunction_infer_mapping"; "disjunction_with_constant_to_default"];
     u_empty_rejected := true |};
  {| u_struct := "OptionRule"; u_method := "AsRewriteRule";
     u_declared := ["omit"; "rename"; "rename_arguments"; "unfold_boolean"; "struct_fields_as_arguments"; "struct_fields_as_options"; "array_to_append"; "map_to_index"; "disjunction_as_options"; "duplicate"; "add_assignment"; "add_comments"];
     u_dispatched := ["omit"; "rename"; "rename_arguments"; "unfold_boolean"; "struct_fields_as_arguments"; "struct_fields_as_options"; "array_to_append"; "map_to_index"; "disjunction_as_options"; "duplicate"; "add_assignment"; "add_comments"];
     u_empty_rejected := true |};
  {| u_struct := "OptionSelector"; u_method := "AsSelector";
     u_declared := ["by_name"; "by_builder"; "by_names"];
     u_dispatched := ["by_name"; "by_builder"; "by_names"];
     u_empty_rejected := true |}].
(* every struct that is, or flattens, a union struct: (file, struct, union struct) *)
Definition union_sites : list (nat * (string * string)) := [(1, ("yaml.CompilerPass", "CompilerPass"));
   (2, ("yaml.BuilderRule", "BuilderRule"));
   (2, ("yaml.BuilderSelector", "BuilderSelector"));
   (2, ("yaml.RenameBuilder", "BuilderSelector"));
   (2, ("yaml.ComposeBuilders", "BuilderSelector"));
   (2, ("yaml.Properties", "BuilderSelector"));
   (2, ("yaml.Duplicate", "BuilderSelector"));
   (2, ("yaml.Initialize", "BuilderSelector"));
   (2, ("yaml.PromoteOptsToConstructor", "BuilderSelector"));
   (2, ("yaml.AddOption", "BuilderSelector"));
   (2, ("yaml.AddFactory", "BuilderSelector"));
   (2, ("yaml.OptionRule", "OptionRule"));
   (2, ("yaml.OptionSelector", "OptionSelector"));
   (2, ("yaml.RenameOption", "OptionSelector"));
   (2, ("yaml.RenameArguments", "OptionSelector"));
   (2, ("yaml.UnfoldBoolean", "OptionSelector"));
   (2, ("yaml.StructFieldsAsArguments", "OptionSelector"));
   (2, ("yaml.StructFieldsAsOptions", "OptionSelector"));
   (2, ("yaml.ArrayToAppend", "OptionSelector"));
   (2, ("yaml.MapToIndex", "OptionSelector"));
   (2, ("yaml.DisjunctionAsOptions", "OptionSelector"));
   (2, ("yaml.DuplicateOption", "OptionSelector"));
   (2, ("yaml.AddAssignment", "OptionSelector"));
   (2, ("yaml.AddComments", "OptionSelector"))].
(* (file, root key, element struct): the rule lists the loaders convert entry by entry *)
Definition rule_sites : list (nat * (string * string)) := [(1, ("passes", "yaml.CompilerPass")); (2, ("builders", "yaml.BuilderRule")); (2, ("options", "yaml.OptionRule"))].
Definition opaque_types : list string := [].
Definition schema_unrecognised : list string := [].

(* regenerated non-vacuity example: a valid document reaching the deepest language position *)
Definition example_file : nat := 2.  (* builders[].add_factory.factory.options[].parameters[].argument.type.enum.values[].type *)
Definition example_doc : doc := DMap [("builders", DSeq [DMap [("add_factory", DMap [("factory", DMap [("options", DSeq [DMap [("parameters", DSeq [DMap [("argument", DMap [("type", DMap [("enum", DMap [("values", DSeq [DMap [("type", DMap [("kind", DScalar (SStr "a.b"))]); ("name", DScalar (SStr "a.b"))]])]); ("kind", DScalar (SStr "a.b"))]); ("name", DScalar (SStr "a.b"))])]]); ("name", DScalar (SStr "a.b"))]]); ("name", DScalar (SStr "a.b"))]); ("by_object", DScalar (SStr "a.b"))])]]); ("package", DScalar (SStr "a.b")); ("language", DScalar (SStr "a.b"))].
Definition example_path : path := [0; 0; 0; 0; 0; 0; 0; 0; 0; 0; 0; 0; 0; 0].
