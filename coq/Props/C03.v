(* C03 - generation is deterministic: the same pipeline produces byte-identical files and the
   same `cog inspect` IR, for ALL iteration orders the Go runtime may choose at every `range` over a
   map. Statements only; each closed by `exact <lemma>`; Print Assumptions under each.
   Model: a Go map iteration is a fold over an ITERATION SEQUENCE, any Permutation of the entries.
   `sites` (Gen/Sites_gen.v) is regenerated from /repo's source by tools/sites on every run. *)
From Coq Require Import List String Bool Arith Permutation.
From Cog Require Import Model.Sites Model.Perm Model.PermModels Model.Passes Model.PermPasses Model.Pipeline
  Proofs.PermLemmas Proofs.PermModelsProofs Proofs.PermPassesProofs Proofs.PipelineProofs
  Proofs.PipelineRunProofs Proofs.HeapProofs Proofs.SitesProofs Gen.Sites_gen.
Import ListNotations.
Local Open Scope list_scope.

(* ---------------- general lemmas: the classes of loops that cannot observe the order ---------- *)
(* Commutative: a fold whose step commutes (boolean any/all, counting, set insertion) *)
Theorem commutative_fold_invariant : forall A X (f : A -> X -> A),
  (forall a x y, f (f a x) y = f (f a y) x) ->
  forall l l', Permutation l l' -> forall a, fold_left f l a = fold_left f l' a.
Proof. exact fold_left_comm_perm. Qed.
Print Assumptions commutative_fold_invariant.

(* CollectThenSort: sorting with a total order erases the permutation (sort.Strings), also when
   sorting by a key that is distinct per collected element (sort.Slice by name) *)
Theorem collect_then_sort_invariant :
  (forall l l', Permutation l l' -> isort sleb l = isort sleb l') /\
  (forall A (key : A -> string) l l', NoDup (map key l) -> Permutation l l' ->
     isort (leb_by key) l = isort (leb_by key) l').
Proof. exact (conj sort_strings_perm_invariant sort_by_key_perm_invariant). Qed.
Print Assumptions collect_then_sort_invariant.

(* KeyedWrite: writes and deletes keyed by distinct loop keys commute *)
Theorem keyed_writes_commute : forall A V (key : A -> string) (val : A -> option V) l l' dst,
  NoDup (map key l) -> Permutation l l' ->
  forall x, write_all key val l dst x = write_all key val l' dst x.
Proof. exact keyed_writes_perm. Qed.
Print Assumptions keyed_writes_commute.

(* ... and removals from the ordered map keyed by the loop key *)
Theorem ordered_map_removals_commute : forall V ks ks' (l : list (string * V)),
  Permutation ks ks' -> oremove_all ks l = oremove_all ks' l.
Proof. exact oremove_all_perm. Qed.
Print Assumptions ordered_map_removals_commute.

(* every discharged class is backed by its lemma *)
Theorem class_lemmas : forall c, class_discharged c = true -> class_statement c.
Proof. exact class_lemmas_proof. Qed.
Print Assumptions class_lemmas.

(* ---------------- the obligation over the regenerated site list -------------------------------- *)
(* every `range` over a map (and every call of an order-leaking helper) found in /repo's non-test
   code is not linked into cog, or of a discharged class, or has an entry - with a proved
   statement - in `named_sites`. A new or edited loop that is not recognisably order-free makes
   this fail. *)
Theorem sites_all_discharged : undischarged named_sites sites = [].
Proof. vm_compute. reflexivity. Qed.
Print Assumptions sites_all_discharged.

Theorem sites_all_discharged_forall : forall s, In s sites -> site_discharged named_sites s = true.
Proof. exact (undischarged_nil_forall named_sites sites sites_all_discharged). Qed.
Print Assumptions sites_all_discharged_forall.

(* ---------------- the places that WERE order-dependent: the current code and why it sorts --------
   Each Go function below collects the keys of its map (tools.Keys: map order = the sequence
   argument) and sorts them, or iterates a slice; the model named after the Go function mirrors
   that, and is invariant for ALL iteration sequences. The `*_unsorted` models are the same loops
   ranging over the map directly: they are NOT cog's code; their refutations document why the sort
   is needed (and are what a revert of the fix would re-introduce). *)

(* Schemas.Consolidate (fix 3c2d3f2): packages in order of first appearance; no map iteration is
   left, the result is a function of the inputs - see Props/C07.v for what it guarantees *)
Theorem consolidate_is_a_function_of_the_inputs : forall ss r,
  consolidate ss = Ok r ->
  map s_pkg r = map fst (group_by_package ss) /\ (NoDup (map s_pkg ss) -> map s_pkg r = map s_pkg ss).
Proof. exact consolidate_result_order_proof. Qed.
Print Assumptions consolidate_is_a_function_of_the_inputs.
(* the variant ranging over the byPackage map: same accept/reject and same schemas ... *)
Theorem consolidate_map_order_invariant_up_to_order : forall seq seq', Permutation seq seq' ->
  is_ok (consolidate_seq seq) = is_ok (consolidate_seq seq') /\
  forall r, consolidate_seq seq = Ok r -> exists r', consolidate_seq seq' = Ok r' /\ Permutation r r'.
Proof. exact consolidate_perm_proof. Qed.
Print Assumptions consolidate_map_order_invariant_up_to_order.
(* ... but the order of the returned list followed the map *)
Theorem unsorted_variant_consolidate_map_order_refuted :
  exists ss ord ord', (forall l, Permutation (ord l) l) /\ (forall l, Permutation (ord' l) l) /\
    consolidate_map_order ord ss <> consolidate_map_order ord' ss.
Proof. exact consolidate_map_order_refuted_proof. Qed.
Print Assumptions unsorted_variant_consolidate_map_order_refuted.

(* inferDiscriminatorField (fix 5b9ef0c) *)
Theorem inferDiscriminatorField_invariant : forall c st st' sf sf',
  Permutation st st' -> Permutation sf sf' ->
  inferDiscriminatorField c st sf = inferDiscriminatorField c st' sf'.
Proof. exact inferDiscriminatorField_invariant_proof. Qed.
Print Assumptions inferDiscriminatorField_invariant.
Theorem unsorted_variant_infer_discriminator_partial : forall c st sf sf',
  (forall a b, In a sf -> In b sf -> exists_in_all_branches c st a = true -> exists_in_all_branches c st b = true -> a = b) ->
  Permutation sf sf' -> inferDiscriminatorField_unsorted c st sf = inferDiscriminatorField_unsorted c st sf'.
Proof. exact infer_unsorted_unique_candidate_invariant_proof. Qed.
Print Assumptions unsorted_variant_infer_discriminator_partial.
Theorem unsorted_variant_infer_discriminator_refuted :
  exists c st sf sf', Permutation sf sf' /\
    inferDiscriminatorField_unsorted c st sf <> inferDiscriminatorField_unsorted c st sf'.
Proof. exact infer_unsorted_two_candidates_refuted_proof. Qed.
Print Assumptions unsorted_variant_infer_discriminator_refuted.

(* FieldsSetDefault.processObject (fix 2c4e6a0): keys sorted by (package, object, field) *)
Theorem FieldsSetDefault_processObject_invariant : forall seq seq' o,
  NoDup (map fst seq) -> Permutation seq seq' ->
  FieldsSetDefault_processObject seq o = FieldsSetDefault_processObject seq' o.
Proof. exact FieldsSetDefault_processObject_invariant_proof. Qed.
Print Assumptions FieldsSetDefault_processObject_invariant.
Theorem unsorted_variant_fields_set_default_partial : forall defs defs' o, Permutation defs defs' ->
  (forall f d1 d2, In d1 defs -> In d2 defs ->
     fieldref_matches (fst d1) o f = true -> fieldref_matches (fst d2) o f = true -> d1 = d2) ->
  fields_set_default_obj defs o = fields_set_default_obj defs' o.
Proof. exact fields_set_default_unique_invariant_proof. Qed.
Print Assumptions unsorted_variant_fields_set_default_partial.
Theorem unsorted_variant_fields_set_default_refuted :
  exists defs defs' o, Permutation defs defs' /\ fields_set_default_obj defs o <> fields_set_default_obj defs' o.
Proof. exact fields_set_default_two_keys_refuted_proof. Qed.
Print Assumptions unsorted_variant_fields_set_default_refuted.

(* Pipeline.interpolate (fix 93a37e5): one pass over the parameter names in sorted order *)
Theorem interpolate_invariant : forall seq seq' input,
  NoDup (map fst seq) -> Permutation seq seq' -> interpolate seq input = interpolate seq' input.
Proof. exact interpolate_invariant_proof. Qed.
Print Assumptions interpolate_invariant.
Theorem unsorted_variant_interpolate_partial : forall seq seq' input, Permutation seq seq' ->
  (forall s x y, In x seq -> In y seq -> interp_step (interp_step s x) y = interp_step (interp_step s y) x) ->
  interpolate_unsorted seq input = interpolate_unsorted seq' input.
Proof. exact interpolate_unsorted_invariant_if_commute_proof. Qed.
Print Assumptions unsorted_variant_interpolate_partial.
Theorem unsorted_variant_interpolate_refuted :
  exists seq seq' input, Permutation seq seq' /\ interpolate_unsorted seq input <> interpolate_unsorted seq' input.
Proof. exact interpolate_unsorted_nested_refuted_proof. Qed.
Print Assumptions unsorted_variant_interpolate_refuted.

(* typescript formatValue on a map (fix 0a82bdd): orderedmap.FromMap sorts the keys *)
Theorem formatValue_map_invariant : forall seq seq',
  NoDup (map fst seq) -> Permutation seq seq' -> formatValue_map seq = formatValue_map seq'.
Proof. exact formatValue_map_invariant_proof. Qed.
Print Assumptions formatValue_map_invariant.
Theorem unsorted_variant_formatValue_map_refuted :
  exists seq seq', Permutation seq seq' /\ formatValue_map_unsorted seq <> formatValue_map_unsorted seq'.
Proof. exact formatValue_map_unsorted_refuted_proof. Qed.
Print Assumptions unsorted_variant_formatValue_map_refuted.

(* ComposeBuilders (fix 6494f77): panel types sorted - the LIST of builders is order-free *)
Theorem ComposeBuilders_invariant : forall B (kept : list B) compose seq seq',
  NoDup (map fst seq) -> Permutation seq seq' -> ComposeBuilders kept compose seq = ComposeBuilders kept compose seq'.
Proof. exact ComposeBuilders_invariant_proof. Qed.
Print Assumptions ComposeBuilders_invariant.
Theorem unsorted_variant_ComposeBuilders_order_refuted :
  exists (kept : list string) compose seq seq', Permutation seq seq' /\
    ComposeBuilders_unsorted kept compose seq <> ComposeBuilders_unsorted kept compose seq'.
Proof. exact ComposeBuilders_unsorted_order_refuted_proof. Qed.
Print Assumptions unsorted_variant_ComposeBuilders_order_refuted.

(* ---------------- sites that still range over a map and need their own model ------------------- *)
(* ConverterGenerator.FromBuilder: same mappings, their order follows the map (never exercised
   by the generated pipelines so far) *)
Theorem FromBuilder_mappings_invariant_as_set : forall M O (direct : list M) (conv : string * list O -> M) seq seq',
  Permutation seq seq' -> Permutation (FromBuilder_mappings direct conv seq) (FromBuilder_mappings direct conv seq').
Proof. exact FromBuilder_mappings_perm_proof. Qed.
Print Assumptions FromBuilder_mappings_invariant_as_set.

(* referenceResolver.packageForToken: first match in map order *)
Theorem packageForToken_partial : forall seq seq' filename default,
  (forall a b, In a seq -> In b seq -> contains (fst a) filename = true -> contains (fst b) filename = true -> a = b) ->
  Permutation seq seq' -> packageForToken seq filename default = packageForToken seq' filename default.
Proof. exact packageForToken_unique_invariant_proof. Qed.
Print Assumptions packageForToken_partial.
Theorem packageForToken_refuted :
  exists seq seq' filename default, Permutation seq seq' /\
    packageForToken seq filename default <> packageForToken seq' filename default.
Proof. exact packageForToken_refuted_proof. Qed.
Print Assumptions packageForToken_refuted.

(* keyed writes through a function; one file per entry into the path-sorted set; collect then
   sort by a distinct name: the abstract models of the remaining Observable sites *)
Theorem keyed_write_loop_invariant : forall V W (key : string -> string) (val : string -> V -> option W) seq seq' dst,
  NoDup (map (fun kv => key (fst kv)) seq) -> Permutation seq seq' ->
  forall x, keyed_write_loop key val seq dst x = keyed_write_loop key val seq' dst x.
Proof. exact keyed_write_loop_invariant_proof. Qed.
Print Assumptions keyed_write_loop_invariant.
Theorem per_entry_files_invariant : forall A (g : A -> list file) seq seq',
  NoDup (map fst (append_each g seq)) -> Permutation seq seq' -> per_entry_files g seq = per_entry_files g seq'.
Proof. exact per_entry_files_invariant_proof. Qed.
Print Assumptions per_entry_files_invariant.
Theorem collect_then_sort_by_invariant : forall A B (name : B -> string) (g : A -> B) seq seq',
  NoDup (map name (map g seq)) -> Permutation seq seq' ->
  collect_then_sort_by name g seq = collect_then_sort_by name g seq'.
Proof. exact collect_then_sort_by_invariant_proof. Qed.
Print Assumptions collect_then_sort_by_invariant.

(* ---------------- Pipeline.Run ------------------------------------------------------------------ *)
(* with everything after the copy abstracted as a function `out` of language and data (jennies are
   validated by the correspondence, not proved), under the assumptions of C07's
   language_independent: the path-sorted file set does not depend on the order in which
   `range targetsByLanguage` visits the languages *)
Theorem pipeline_deterministic : forall (lang : Type) d sp off fuel t m
  (writes : lang -> hval -> list (loc * list (string * hval))) (out : lang -> hval -> list file),
  spec_sound d sp fuel = true -> no_missing d sp = true -> mode_ok d sp fuel t m = true ->
  (forall L c, Forall (fun w => In (fst w) (locs c) \/ off <= fst w) (writes L c)) ->
  forall seq seq' shared,
  wt d t shared = true -> Forall (fun l => l < off) (locs shared) ->
  Permutation seq seq' ->
  NoDup (map fst (append_each (fun L => out L (erase shared)) seq)) ->
  all_files lang (run lang d sp off t m write writes out seq shared) =
  all_files lang (run lang d sp off t m write writes out seq' shared).
Proof. exact run_files_deterministic_proof. Qed.
Print Assumptions pipeline_deterministic.

(* non-vacuity: the regenerated list is not empty, it contains sites of every kind of treatment,
   and an unknown Observable site IS reported *)
Example c03_nonvacuous :
  30 <= List.length sites /\
  existsb (fun s => Nat.eqb (site_code named_sites s) 5) sites = true /\
  existsb (fun s => Nat.eqb (site_code named_sites s) 1) sites = true /\
  undischarged named_sites [mkSite "internal/x.go" "f" "m" 1 "range" Sites.Observable true] <> [].
Proof. vm_compute. repeat split; try discriminate. repeat constructor. Qed.
