(* C19 — the insertion-ordered map behaves like a map with first-insertion order.
   Statements only; each closed by `exact <lemma>`; Print Assumptions under each. *)
From Coq Require Import List String ZArith Bool.
From Cog Require Import Model.OMap Proofs.OMapProofs.
Import ListNotations.

(* Every history of operations (set/get/has/at/remove/len/iterate/values/map/filter/sort/
   marshal/unmarshal/from-map/new over a register file of maps): the implementation model
   produces the same outputs as the reference list, every register abstracts to the
   reference register, and every register satisfies the representation invariant. *)
Theorem omap_refines_spec : forall h : list op,
  snd (mrun [onew] h) = snd (srun [[]] h) /\
  Forall2 (fun m s => abs m = s) (fst (mrun [onew] h)) (fst (srun [[]] h)) /\
  Forall Inv (fst (mrun [onew] h)).
Proof. exact omap_refines_spec_proof. Qed.
Print Assumptions omap_refines_spec.

(* the same, for everything the correspondence harness observes after every operation *)
Theorem omap_trace_refines_spec : forall h : list op, mtrace [onew] h = strace [[]] h.
Proof. exact omap_trace_refines_spec_proof. Qed.
Print Assumptions omap_trace_refines_spec.

Theorem omap_inv_reachable : forall h, Forall Inv (fst (mrun [onew] h)).
Proof. exact omap_inv_reachable_proof. Qed.
Print Assumptions omap_inv_reachable.

Theorem iterate_first_insertion : forall m k v, Inv m -> ohas m k = false ->
  oiterate (oset m k v) = oiterate m ++ [(k, v)].
Proof. exact iterate_first_insertion_proof. Qed.
Print Assumptions iterate_first_insertion.

Theorem overwrite_keeps_position : forall m k v, Inv m -> ohas m k = true ->
  map fst (oiterate (oset m k v)) = map fst (oiterate m) /\
  forall k', oget (oset m k v) k' = if keqb k' k then v else oget m k'.
Proof. exact overwrite_keeps_position_proof. Qed.
Print Assumptions overwrite_keeps_position.

Theorem remove_preserves_relative_order : forall m k, Inv m ->
  oiterate (oremove m k) = filter (fun p => negb (keqb (fst p) k)) (oiterate m) /\ Inv (oremove m k).
Proof. exact remove_preserves_relative_order_proof. Qed.
Print Assumptions remove_preserves_relative_order.

Theorem len_counts_live_keys : forall m live, Inv m ->
  NoDup live -> (forall k, In k live <-> ohas m k = true) -> olen m = List.length live.
Proof. exact len_counts_live_keys_proof. Qed.
Print Assumptions len_counts_live_keys.

Theorem marshal_unmarshal_roundtrip : forall m, Inv m ->
  oiterate (ounmarshal onew (omarshal m)) = oiterate m /\ Inv (ounmarshal onew (omarshal m)).
Proof. exact marshal_unmarshal_roundtrip_proof. Qed.
Print Assumptions marshal_unmarshal_roundtrip.

(* No operation of the property's list panics in any state; `At` panics exactly when the
   index is out of range (which the property does not claim). *)
Theorem omap_no_panic : forall regs o, snd (mstep regs o) = OutPanic ->
  exists r i m, o = OpAt r i /\ nth_error regs r = Some m /\ olen m <= i.
Proof. exact omap_no_panic_proof. Qed.
Print Assumptions omap_no_panic.

(* non-vacuity: a concrete reachable state satisfies the hypotheses used above *)
Example c19_history : list op :=
  [OpSet 0 "b" 1; OpSet 0 "a" 2; OpSet 0 "cc" 3; OpSet 0 "b" 9; OpRemove 0 "a";
   OpSort 0 LDesc; OpFilter 0 PEven; OpMarshal 0]%string%Z.
Example c19_nonvacuous :
  let m := nth 0 (fst (mrun [onew] c19_history)) onew in
  Inv m /\ ohas m "b"%string = true /\ ohas m "a"%string = false /\
  oiterate m = [("cc", 3); ("b", 9)]%string%Z.
Proof.
  split; [|vm_compute; repeat split].
  pose proof (omap_inv_reachable c19_history) as H. inversion H; assumption.
Qed.
