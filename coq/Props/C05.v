(* C05 — every reference in the intermediate representation resolves.
   Statements only; each closed by `exact <lemma>`; Print Assumptions under each.
   wf_schema2: object keys are the object names, unique, and every object's self reference is
   (package of its schema, its name) — what every front-end builds.
   hidden_free: no reference sits inside an enum member type or a hint disjunction (positions no
   front-end fills with references and the visitor never visits). *)
From Coq Require Import List String Bool.
From Cog Require Import Model.IR Model.Passes Model.Filter Model.Process Model.Refs Model.Spec05
     Proofs.PassLemmas Proofs.C05Proofs Model.PassesChain Model.NF Gen.Chains_gen Proofs.ChainPresProofs Proofs.ChainPhpJavaProofs Proofs.ChainRefsProofs Proofs.ChainRefsProofs2 Proofs.ChainMappingsProofs.
Import ListNotations.

Definition hidden_free_ss (ss : schemas) : Prop :=
  forall s, In s ss -> hidden_free (s_entrytype s) /\
                       forall ko, In ko (s_objects s) -> hidden_free (o_type (snd ko)).

(* rename_object: for ALL schema sets, parameters (any letter case, absent, colliding target
   name): every type reference and constant reference, at any depth (arrays, maps incl. index
   types, struct fields, unions, intersections), and the entry point keep resolving. *)
Theorem rename_keeps_refs_resolving : forall pkg obj to ss,
  Forall wf_schema2 ss -> hidden_free_ss ss ->
  refs_resolve ss -> refs_resolve (rename_object pkg obj to ss).
Proof. exact rename_keeps_refs_resolving_proof. Qed.
Print Assumptions rename_keeps_refs_resolving.

Theorem rename_keeps_entries_resolving : forall pkg obj to ss,
  Forall wf_schema2 ss -> entries_resolve ss -> entries_resolve (rename_object pkg obj to ss).
Proof. exact rename_keeps_entries_resolving_proof. Qed.
Print Assumptions rename_keeps_entries_resolving.

(* name prefixing *)
Theorem prefix_keeps_resolving : forall p ss,
  Forall wf_schema2 ss -> hidden_free_ss ss -> refs_resolve ss -> entries_resolve ss ->
  refs_resolve (prefix_object_names p ss) /\ entries_resolve (prefix_object_names p ss).
Proof. exact prefix_keeps_resolving_proof. Qed.
Print Assumptions prefix_keeps_resolving.

(* replace_reference towards an existing object *)
Theorem replace_reference_keeps_resolving : forall fpkg fobj tpkg tobj ss,
  Forall wf_schema2 ss -> hidden_free_ss ss -> object_exists ss tpkg tobj = true ->
  refs_resolve ss -> entries_resolve ss ->
  refs_resolve (replace_reference fpkg fobj tpkg tobj ss) /\
  entries_resolve (replace_reference fpkg fobj tpkg tobj ss).
Proof. exact replace_reference_keeps_resolving_proof. Qed.
Print Assumptions replace_reference_keeps_resolving.

(* duplicate_object (any source, target package, omitted fields; no side condition) *)
Theorem duplicate_keeps_resolving : forall pkg obj ap ao om ss,
  refs_resolve ss -> entries_resolve ss ->
  refs_resolve (duplicate_object pkg obj ap ao om ss) /\ entries_resolve (duplicate_object pkg obj ap ao om ss).
Proof. exact duplicate_keeps_resolving_proof. Qed.
Print Assumptions duplicate_keeps_resolving.

(* allowed_objects keeps a subsequence of the objects, each unchanged, nothing else touched *)
Theorem filter_keeps_subsequence : forall allowed ss ss',
  filter_schemas allowed ss = Ok ss' ->
  Forall2 (fun s s' => s_pkg s' = s_pkg s /\ s_meta s' = s_meta s /\ s_entry s' = s_entry s /\
                       s_entrytype s' = s_entrytype s /\
                       exists keep, s_objects s' = filter keep (s_objects s)) ss ss'.
Proof. exact filter_keeps_subsequence_proof. Qed.
Print Assumptions filter_keeps_subsequence.

(* ---- full statements that the faithful model refutes (open known findings) ---- *)
Local Open Scope string_scope.
Definition m0 := {| m_kind := "" ; m_variant := "" ; m_identifier := "" |}.

(* unspec: references to `spec` / `metadata` are not rewritten *)
Definition unspec_witness : schemas :=
  [mkSchema "p" m0 "" ty_zero
     [("spec", mkObject "spec" [] (TStruct A0 [] []) "p" "spec");
      ("User", mkObject "User" [] (TStruct A0 [] [mkField "s" [] (TRef A0 "p" "spec") true]) "p" "User")]].
Theorem unspec_keeps_resolving_refuted :
  resolves unspec_witness = true /\ resolves (unspec unspec_witness) = false.
Proof. vm_compute. split; reflexivity. Qed.
Print Assumptions unspec_keeps_resolving_refuted.

(* rename_object: discriminator-mapping targets keep the old name *)
Definition rename_mapping_witness : schemas :=
  [mkSchema "p" m0 "" ty_zero
     [("A", mkObject "A" [] (TStruct A0 [] []) "p" "A");
      ("B", mkObject "B" [] (TStruct A0 [] []) "p" "B");
      ("U", mkObject "U" [] (TDisj A0 (mkDisj [TRef A0 "p" "A"; TRef A0 "p" "B"] "kind" [("a", "A"); ("b", "B")])) "p" "U")]].
Theorem rename_keeps_mappings_refuted :
  resolves rename_mapping_witness = true /\ resolves (rename_object "p" "A" "Z" rename_mapping_witness) = false.
Proof. vm_compute. split; reflexivity. Qed.
Print Assumptions rename_keeps_mappings_refuted.

(* non-vacuity: the hypotheses of the theorems hold of a concrete schema set with references in
   an array, a map index and a constant reference, and the rename really rewrites them *)
Definition c05_example : schemas :=
  [mkSchema "p" m0 "Foo" (TRef A0 "p" "Foo")
     [("Foo", mkObject "Foo" [] (TStruct A0 [] [mkField "xs" [] (TArray A0 (TRef A0 "p" "Bar")) true;
                                               mkField "m" [] (TMap A0 (TRef A0 "p" "Bar") (TConstRef A0 "p" "Bar" (DStr "v"))) false]) "p" "Foo");
      ("Bar", mkObject "Bar" [] (TEnum A0 [mkEnumVal (TScalar A0 KString DNil []) "v" (DStr "v")]) "p" "Bar")]].
Example c05_nonvacuous :
  resolves c05_example = true /\
  resolves (rename_object "p" "bar" "Baz" c05_example) = true /\
  dangling (rename_object "p" "bar" "Baz" c05_example) = [] /\
  schema_refs (nth 0 (rename_object "p" "bar" "Baz" c05_example) (mkSchema "" m0 "" ty_zero []))
  = [("p", "Foo"); ("p", "Baz"); ("p", "Baz"); ("p", "Baz")].
Proof. vm_compute. repeat split; reflexivity. Qed.

(* ---------------- through a whole language chain (Proofs/ChainRefsProofs.v) ----------------
   resolves splits into: every reference into a loaded package names an object (refs_ok), every entry point names
   an object of its schema (entries_ok), every discriminator mapping targets an object (mappings_ok). *)
Theorem resolves_splits : forall ss, resolves ss = true <-> refs_ok ss /\ entries_ok ss /\ mappings_ok ss.
Proof. exact resolves_iff. Qed.
Print Assumptions resolves_splits.
(* the REGENERATED Python chain keeps every reference and entry point resolving, for ALL well-keyed inputs (keys are
   the object names, objects carry their schema's package, packages are distinct) - no tame condition: the passes
   that create objects (AnonymousStructsToNamed ...) register them in the same call that creates the references *)
Theorem python_chain_keeps_references_resolving : forall ss out,
  wf_refs_input ss -> refs_ok ss -> entries_ok ss -> process chain_python ss = Ok out ->
  refs_ok out /\ entries_ok out.
Proof. exact python_chain_keeps_references. Qed.
Print Assumptions python_chain_keeps_references_resolving.
(* mappings are the open part: FlattenDisjunctions can orphan a mapping target (finding
   C05-flatten-case-colliding-branches), so mappings_ok of the output stays a hypothesis *)
Theorem python_chain_keeps_resolving_modulo_mappings : forall ss out,
  wf_refs_input ss -> resolves ss = true -> process chain_python ss = Ok out -> mappings_ok out -> resolves out = true.
Proof. exact python_chain_resolves_modulo_mappings. Qed.
Print Assumptions python_chain_keeps_resolving_modulo_mappings.
Theorem python_chain_references_hypotheses_satisfiable :
  wf_refs_input w_tame /\ resolves w_tame = true /\
  exists out, process chain_python w_tame = Ok out /\ resolves out = true /\ List.length (objects_of out) = 5.
Proof. exact python_chain_references_nonvacuous. Qed.
Print Assumptions python_chain_references_hypotheses_satisfiable.

(* full `resolves` through the Python chain when the input carries no discriminator mapping yet
   (DisjunctionInferMapping only builds mappings over branch names: dim_keeps_mappings) *)
Theorem disjunction_infer_mapping_keeps_mappings : forall ss out,
  mappings_ok ss -> disjunction_infer_mapping ss = Ok out -> mappings_ok out.
Proof. exact dim_keeps_mappings. Qed.
Print Assumptions disjunction_infer_mapping_keeps_mappings.
Theorem python_chain_keeps_resolving_full : forall ss out,
  wf_refs_input ss -> no_mappings ss = true -> resolves ss = true -> process chain_python ss = Ok out -> resolves out = true.
Proof. exact python_chain_keeps_resolving. Qed.
Print Assumptions python_chain_keeps_resolving_full.
(* references and entry points through the Go chain (side conditions only for DisjunctionOfAnonymousStructsToExplicit)
   and through the Java / PHP chains without their last pass, unconditionally *)
Theorem go_chain_keeps_references_resolving : forall ss out,
  wf_refs_input ss -> union_in_inter ss = false -> entry_simple ss = true ->
  refs_ok ss -> entries_ok ss -> process chain_go ss = Ok out -> refs_ok out /\ entries_ok out.
Proof. exact go_chain_keeps_references. Qed.
Print Assumptions go_chain_keeps_references_resolving.
Theorem java_core_chain_keeps_references_resolving : forall ss out,
  wf_refs_input ss -> refs_ok ss -> entries_ok ss -> process (removelast chain_java) ss = Ok out ->
  wf_refs_input out /\ refs_ok out /\ entries_ok out.
Proof. exact java_core_chain_keeps_references. Qed.
Print Assumptions java_core_chain_keeps_references_resolving.
Theorem php_core_chain_keeps_references_resolving : forall ss out,
  wf_refs_input ss -> refs_ok ss -> entries_ok ss -> process (removelast chain_php) ss = Ok out ->
  wf_refs_input out /\ refs_ok out /\ entries_ok out.
Proof. exact php_core_chain_keeps_references. Qed.
Print Assumptions php_core_chain_keeps_references_resolving.
(* the three passes left out do break resolution: witnesses = the open findings C05-java-remove-intersections,
   C05-php-inline-objects, C05-flatten-case-colliding-branches *)
Theorem chain_passes_breaking_resolution :
  (resolves w_ri_dangling = true /\ exists out, remove_intersections w_ri_dangling = Ok out /\ dangling out = [("p", "S")]) /\
  (resolves w_inline_dangling = true /\ exists out, inline_objects_with_types ["scalar"; "array"] w_inline_dangling = Ok out /\ dangling out = [("p", "Y")]) /\
  (resolves w_flatten_orphan = true /\ exists out, flatten_disjunctions w_flatten_orphan = Ok out /\ dangling out = [("<mapping>", "Foo")]).
Proof. exact chain_passes_that_break_resolution. Qed.
Print Assumptions chain_passes_breaking_resolution.

(* ---- last round: the Go chain unconditionally, mappings through every chain, and the two last passes ---- *)
Theorem go_chain_keeps_references_resolving_unconditional : forall ss out,
  wf_refs_input ss -> refs_ok ss -> entries_ok ss -> process chain_go ss = Ok out ->
  wf_refs_input out /\ refs_ok out /\ entries_ok out.
Proof. exact go_chain_keeps_references_general. Qed.
Print Assumptions go_chain_keeps_references_resolving_unconditional.
Theorem go_chain_keeps_resolving_full : forall ss out,
  wf_refs_input ss -> no_mappings ss = true -> resolves ss = true -> process chain_go ss = Ok out -> resolves out = true.
Proof. exact go_chain_keeps_resolving. Qed.
Print Assumptions go_chain_keeps_resolving_full.
Theorem java_core_chain_keeps_resolving_full : forall ss out,
  wf_refs_input ss -> no_mappings ss = true -> resolves ss = true -> process (removelast chain_java) ss = Ok out -> resolves out = true.
Proof. exact java_core_chain_keeps_resolving. Qed.
Print Assumptions java_core_chain_keeps_resolving_full.
Theorem php_core_chain_keeps_resolving_full : forall ss out,
  wf_refs_input ss -> no_mappings ss = true -> resolves ss = true -> process (removelast chain_php) ss = Ok out -> resolves out = true.
Proof. exact php_core_chain_keeps_resolving. Qed.
Print Assumptions php_core_chain_keeps_resolving_full.
(* RemoveIntersections keeps references resolving when, after its first loop, no reference and no entry point names
   an object it removes (ri_refs_safe; sufficient, decidable, computed by the pass's own bookkeeping) *)
Theorem remove_intersections_keeps_references : forall ss out,
  refs_ok ss -> entries_ok ss -> ri_safe ss = true -> ri_refs_safe ss = true ->
  remove_intersections ss = Ok out -> map s_pkg out = map s_pkg ss /\ refs_ok out /\ entries_ok out.
Proof. exact remove_intersections_keeps. Qed.
Print Assumptions remove_intersections_keeps_references.
Theorem java_chain_keeps_resolving_full : forall ss out,
  wf_refs_input ss -> tame_java_refs ss = true -> no_mappings ss = true -> resolves ss = true ->
  process chain_java ss = Ok out -> resolves out = true.
Proof. exact java_chain_keeps_resolving. Qed.
Print Assumptions java_chain_keeps_resolving_full.
(* InlineObjectsWithTypes, order-independent case: inlined types contain no reference to an inlined object, no
   unvisited reference site or entry point names one (iowt_refs_safe, computed from the pass's own collection) *)
Theorem inline_objects_with_types_keeps_references : forall kinds ss out,
  wfk ss -> refs_ok ss -> entries_ok ss -> iowt_refs_safe kinds ss = true ->
  inline_objects_with_types kinds ss = Ok out -> map s_pkg out = map s_pkg ss /\ refs_ok out /\ entries_ok out.
Proof. exact inline_objects_keeps. Qed.
Print Assumptions inline_objects_with_types_keeps_references.
Theorem php_chain_keeps_references_resolving : forall ss out,
  wf_refs_input ss -> tame_php_refs ss = true -> refs_ok ss -> entries_ok ss -> process chain_php ss = Ok out ->
  refs_ok out /\ entries_ok out.
Proof. exact php_chain_keeps_references. Qed.
Print Assumptions php_chain_keeps_references_resolving.
Theorem typescript_chain_keeps_resolving_full : forall ss out,
  wf_refs_input ss -> resolves ss = true -> process chain_typescript ss = Ok out -> resolves out = true.
Proof. exact typescript_chain_keeps_resolving. Qed.
Print Assumptions typescript_chain_keeps_resolving_full.
(* non-vacuity of the Go / Java / PHP reference theorems: the chains really create or remove objects *)
Theorem chain_reference_theorems_nonvacuous :
  (wf_refs_input w_tame /\ no_mappings w_tame = true /\ resolves w_tame = true /\
   exists out, process chain_go w_tame = Ok out /\ resolves out = true /\ List.length (objects_of w_tame) < List.length (objects_of out)) /\
  (wf_refs_input w_inline_closed /\ tame_php_refs w_inline_closed = true /\ resolves w_inline_closed = true /\
   exists out, process chain_php w_inline_closed = Ok out /\ resolves out = true /\ List.length (objects_of out) < List.length (objects_of w_inline_closed)).
Proof. split; [exact go_chain_references_nonvacuous|exact php_chain_references_nonvacuous]. Qed.
Print Assumptions chain_reference_theorems_nonvacuous.
(* mappings already present on input: the Python chain keeps `resolves` when FlattenDisjunctions leaves every
   mapping-carrying union alone (fd_mappings_safe, computed on the model's state before that pass: its branches are
   references resolving to non-unions with pairwise distinct type names); the failing case is the witness of
   C05-flatten-case-colliding-branches *)
Theorem flatten_disjunctions_keeps_mappings : forall ss out,
  fd_mappings_safe ss = true -> mappings_ok ss -> flatten_disjunctions ss = Ok out -> mappings_ok out.
Proof. exact fd_keeps_mappings. Qed.
Print Assumptions flatten_disjunctions_keeps_mappings.
Theorem python_chain_keeps_resolving_with_mappings : forall ss out,
  wf_refs_input ss -> python_fd_safe ss = true -> resolves ss = true -> process chain_python ss = Ok out -> resolves out = true.
Proof. exact python_chain_keeps_resolving_mappings. Qed.
Print Assumptions python_chain_keeps_resolving_with_mappings.
