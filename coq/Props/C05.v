(* C05 — placeholder while the theorems are being written *)
From Cog Require Import Model.Spec05.
Theorem resolves_nil : resolves [] = true.
Proof. reflexivity. Qed.
