(* C17 — builder transformations keep builders well-typed, touch nothing they do not select, and
   honour their contracts.  Statements only; each closed by `exact <lemma>`; Print Assumptions
   under each.

   Model: coq/Model/Veneers.v (every builder rule, option action, selector, the YAML-level
   loader and Rewriter.ApplyTo, one Gallina function per Go function).  The builders carry LABELS
   on the two kinds of cells the Go code writes through after copying options shallowly (the
   pointee of Assignment.Value.Argument, the backing array of Option.Args): `apply_to` is the
   code as it runs (a write reaches every holder of the cell), `interference` tells whether any
   write reached a holder other than the option being rewritten.
   Checkers (coq/Model/VeneersSpec.v), evaluated by the correspondence on the REAL output:
   `WT` (well-typed builder), `frame_ok` (unselected builders/options unchanged), contracts.

   The unrestricted statements are FALSE on the faithful model (and on cog: the witnesses below
   are reproduced by the correspondence harness); they are kept visible as `_refuted`, next to
   what does hold (`_partial`) under an explicit boolean side condition. *)
From Coq Require Import List String Bool ZArith.
From Cog Require Import Model.IR Model.IREq Model.Builders Model.BuildersEq Model.Veneers Model.VeneersSpec Proofs.VeneersProofs
                        Gen.VeneerRegistry_gen.
Import ListNotations.
Local Open Scope string_scope.
Local Open Scope list_scope.

(* ================================================================ well-typedness *)
(* full statement: for all schema sets, rule files (whose own parameters are well-formed),
   languages and well-typed builder sets, the rewritten builders are well-typed.  REFUTED:
   `rename_arguments` renames the option's argument and the argument its assignment uses but not
   the copy held by the assignment's constraints; `array_to_append`, `map_to_index` and
   `rename_arguments` write through a *Argument that merge_into / compose /
   promote_options_to_constructor / add_option left shared with another option or with the
   constructor, whose declared arguments are not updated (witnesses: Proofs/VeneersProofs.v). *)
Theorem rules_preserve_WT_refuted :
  ~ (forall ss files lang bs bs',
       consistent ss bs = true -> WTs ss bs = true -> files_wf files = true ->
       apply_to ss files lang bs = Ok bs' -> WTs ss bs' = true).
Proof. exact rules_preserve_WT_refuted_proof. Qed.
Print Assumptions rules_preserve_WT_refuted.

(* the three ways it fails, each a concrete run of the model *)
Theorem rules_preserve_WT_refuted_by_shared_argument :
  wt_witness w_files_shared = true /\ interference w_schemas w_files_shared "go" w_before = true.
Proof. exact wt_witness_shared. Qed.
Print Assumptions rules_preserve_WT_refuted_by_shared_argument.
Theorem rules_preserve_WT_refuted_by_promoted_argument :
  wt_witness w_files_promote = true /\ interference w_schemas w_files_promote "go" w_before = true.
Proof. exact wt_witness_promote. Qed.
Print Assumptions rules_preserve_WT_refuted_by_promoted_argument.
Theorem rules_preserve_WT_refuted_by_stale_constraint :
  wt_witness w_files_constraint = true /\ interference w_schemas w_files_constraint "go" w_before = false.
Proof. exact wt_witness_constraint. Qed.
Print Assumptions rules_preserve_WT_refuted_by_stale_constraint.

(* what holds: for ALL schema sets, builder sets, selectors, parameters and ALL sequences (common
   rules then language rules, builder rules then option rules, as Rewriter.ApplyTo runs them) made
   of the rules of the safe group `wt_safe_rules` — builder rules omit, rename, properties,
   duplicate, initialize, add_factory; option rules omit, rename, add_comments, duplicate — the
   result is well-typed, and no write ever reaches a shared cell.  (The other rules are outside
   this theorem: each of them has inputs on which it breaks WT — see the refutations above and the
   findings reported by the check.) *)
Theorem rules_preserve_WT_partial : forall ss files lang bs lrs bs',
  rewriter_from files = Ok lrs -> wt_safe_rules lrs = true ->
  lconsistent ss (label_builders 0 bs) -> WTs ss bs = true ->
  apply_to ss files lang bs = Ok bs' -> WTs ss bs' = true /\ interference ss files lang bs = false.
Proof. exact rules_preserve_WT_partial_proof. Qed.
Print Assumptions rules_preserve_WT_partial.

(* array_to_append and map_to_index on an option of the shape FromAST derives (one argument, one
   assignment of it to a path ending in the argument's type) return well-typed options: what
   breaks WT is sharing, or an earlier rule that left another shape *)
Theorem array_to_append_preserves_WT_on_derived_options : forall ss root base o a first os effs,
  derived_shape o a first -> lopt_wt ss root o = true -> array_to_append_action base o = Ok (os, effs) ->
  forallb (lopt_wt ss root) os = true.
Proof. exact array_to_append_derived_wt. Qed.
Print Assumptions array_to_append_preserves_WT_on_derived_options.
Theorem map_to_index_preserves_WT_on_derived_options : forall ss root base o a first os effs,
  derived_shape o a first -> lopt_wt ss root o = true -> map_to_index_action base o = Ok (os, effs) ->
  forallb (lopt_wt ss root) os = true.
Proof. exact map_to_index_derived_wt. Qed.
Print Assumptions map_to_index_preserves_WT_on_derived_options.

(* Builder.MakePath (initialize, merge_into, compose, add_option, add_assignment): a returned
   path is a chain of existing fields with the recorded types, and uses no argument *)
Theorem make_path_is_well_typed : forall ss bs b s p,
  lconsistent ss bs -> make_path bs b s = Ok p -> path_ok ss (o_type (lb_for b)) p = true /\ path_args p = [].
Proof. exact make_path_ok. Qed.
Print Assumptions make_path_is_well_typed.

(* ================================================================ frame *)
(* full statement: builders and options no rule selects come out identical.  REFUTED: after
   merge_into (Foo into Bar), array_to_append on Bar.tags rewrites the assignment of Foo.tags,
   an option of a builder that no rule selects. *)
Theorem unselected_unchanged_refuted :
  ~ (forall ss files lang bs lrs bs',
       rewriter_from files = Ok lrs -> consistent ss bs = true -> WTs ss bs = true ->
       apply_to ss files lang bs = Ok bs' -> frame_ok ss lrs lang bs bs' = true).
Proof. exact unselected_unchanged_refuted_proof. Qed.
Print Assumptions unselected_unchanged_refuted.

(* what holds, for ALL rules, parameters, selectors and sequences: when no write reached a sharer
   (`apply_to_l true ... = Ok (_, false)`, i.e. interference = false), a builder that no builder
   rule selects is still there with the same object, package, name, properties, constructor and
   factories, and with every option of it that no option rule selects — cells included. *)
Theorem unselected_unchanged_partial : forall ss files lang bs lrs lbs' b kept,
  rewriter_from files = Ok lrs ->
  apply_to_l true ss files lang bs = Ok (lbs', false) ->
  In b (label_builders 0 bs) ->
  (forall r, In r (builder_rules_for all_languages lrs ++ builder_rules_for lang lrs) -> sel_builder ss (brule_selector r) b = false) ->
  (forall o, In o kept -> In o (lb_options b)) ->
  (forall r o, In r (option_rules_for all_languages lrs ++ option_rules_for lang lrs) -> In o kept -> sel_option (or_sel r) b o = false) ->
  kept <> [] ->
  exists b', In b' lbs' /\ lsame_but_options b b' /\ forall o, In o kept -> In o (lb_options b').
Proof. exact unselected_unchanged_partial_proof. Qed.
Print Assumptions unselected_unchanged_partial.

(* the same, as the statement refuted above plus its side condition: without interference the
   frame checker the correspondence evaluates on cog's output holds of the model's output *)
Theorem unselected_unchanged_partial_checker : forall ss files lang bs lrs bs',
  rewriter_from files = Ok lrs -> apply_to ss files lang bs = Ok bs' -> interference ss files lang bs = false ->
  frame_ok ss lrs lang bs bs' = true.
Proof. exact unselected_unchanged_checker_proof. Qed.
Print Assumptions unselected_unchanged_partial_checker.

(* every single builder rule (all ten, any parameters), unconditionally: an unselected builder
   is in the result, identical *)
Theorem unselected_builders_unchanged : forall ss t r bs bs' b,
  apply_builder_rule ss t r bs = Ok bs' -> In b bs -> sel_builder ss (brule_selector r) b = false -> In b bs'.
Proof. exact builder_rule_frame. Qed.
Print Assumptions unselected_builders_unchanged.

(* every single option rule (all twelve actions) on unshared data: every builder keeps its header
   and its unselected options *)
Theorem unselected_options_unchanged : forall ss t r bs bs' b,
  apply_option_rule_pure ss t r bs = Ok bs' -> In b bs ->
  exists b', In b' bs' /\ lsame_but_options b b' /\
             forall o, In o (lb_options b) -> sel_option (or_sel r) b o = false -> In o (lb_options b').
Proof. exact apply_option_rule_pure_frame. Qed.
Print Assumptions unselected_options_unchanged.

(* ... and the rule as the code runs it IS the rule on unshared data whenever no write reached a
   sharer (the side condition of the partial statements is exactly what separates the two) *)
Theorem no_interference_means_unshared : forall ss t r bs flag bs',
  apply_option_rule ss t r bs flag = Ok (bs', false) -> flag = false /\ apply_option_rule_pure ss t r bs = Ok bs'.
Proof. exact apply_option_rule_pure_agrees. Qed.
Print Assumptions no_interference_means_unshared.

(* ================================================================ contracts (for all inputs and parameters) *)
Theorem omit_removes : forall ss t s bs bs',
  apply_builder_rule ss t (BROmit s) bs = Ok bs' ->
  (forall b, In b bs' -> sel_builder ss s b = false /\ In b bs) /\
  (forall b, In b bs -> sel_builder ss s b = false -> In b bs').
Proof. exact omit_removes_builders. Qed.
Print Assumptions omit_removes.

Theorem omit_removes_options : forall ss t i s b,
  process_options_pure ss t i (mkORule s AOmit) b = Ok (filter (fun o => negb (sel_option s b o)) (lb_options b)).
Proof. exact omit_option_spec. Qed.
Print Assumptions omit_removes_options.

Theorem rename_only_renames : forall ss t s n bs bs',
  apply_builder_rule ss t (BRRename s n) bs = Ok bs' ->
  bs' = map (fun b => if sel_builder ss s b then set_name b n else b) bs.
Proof. exact rename_rule_spec. Qed.
Print Assumptions rename_only_renames.

Theorem rename_only_renames_options : forall ss t i s n b,
  process_options_pure ss t i (mkORule s (ARename n)) b
  = Ok (map (fun o => if sel_option s b o then set_oname o n else o) (lb_options b)).
Proof. exact rename_option_spec. Qed.
Print Assumptions rename_only_renames_options.

(* the copy equals its source in every field but the name: object, package, properties,
   constructor, options with their defaults, factories *)
Theorem duplicate_is_identical_copy : forall ss t s n bs bs',
  apply_builder_rule ss t (BRDuplicate s n []) bs = Ok bs' ->
  erase_builders bs' = erase_builders bs ++ map (fun b => ewith_name (erase_builder b) n) (filter (sel_builder ss s) bs).
Proof. exact duplicate_rule_spec. Qed.
Print Assumptions duplicate_is_identical_copy.

Theorem duplicate_is_identical_copy_but_excluded : forall ss t s n e excl bs bs',
  apply_builder_rule ss t (BRDuplicate s n (e :: excl)) bs = Ok bs' ->
  erase_builders bs' = erase_builders bs ++
    map (fun b => ewith_options (ewith_name (erase_builder b) n)
                    (filter (fun o => negb (string_in_list_equal_fold (op_name o) (e :: excl))) (b_options (erase_builder b))))
        (filter (sel_builder ss s) bs).
Proof. exact duplicate_rule_spec_excl. Qed.
Print Assumptions duplicate_is_identical_copy_but_excluded.

Theorem duplicate_option_is_identical_copy : forall ss t base n b o,
  exists o', run_action ss t base (ADuplicate n) b o = Ok ([o; o'], []) /\ erase_option o' = ewith_oname (erase_option o) n.
Proof. exact duplicate_action_spec. Qed.
Print Assumptions duplicate_option_is_identical_copy.

Theorem array_to_append_same_target : forall base o os effs,
  array_to_append_action base o = Ok (os, effs) ->
  (os = [o] /\ effs = []) \/
  exists a al v first rest o' first' rest',
    lo_args o = [a] /\ a_type a = TArray al v /\ lo_assignments o = first :: rest /\
    os = [o'] /\ lo_name o' = lo_name o /\ lo_comments o' = lo_comments o /\ lo_default o' = lo_default o /\
    lo_args o' = [mkArg (singularize (a_name a)) v] /\
    lo_assignments o' = first' :: rest' /\
    la_path first' = la_path first /\ la_method first' = "append" /\
    map la_path rest' = map la_path rest /\
    (forall l x, la_arg first = Some (l, x) -> la_arg first' = Some (l, mkArg (singularize (a_name a)) v)).
Proof. exact array_to_append_spec. Qed.
Print Assumptions array_to_append_same_target.

Theorem map_to_index_same_target : forall base o os effs,
  map_to_index_action base o = Ok (os, effs) ->
  (os = [o] /\ effs = []) \/
  exists a al it vt first rest o' first' rest',
    lo_args o = [a] /\ a_type a = TMap al it vt /\ lo_assignments o = first :: rest /\
    os = [o'] /\ lo_name o' = lo_name o /\ lo_comments o' = lo_comments o /\ lo_default o' = lo_default o /\
    lo_args o' = [mkArg "key" it; mkArg (singularize (a_name a)) vt] /\
    lo_assignments o' = first' :: rest' /\
    la_path first' = la_path first ++ [mkPathItem "" (Some (mkPathIndex (Some (mkArg "key" it)) DNil)) vt None false] /\
    la_method first' = "index" /\ map la_path rest' = map la_path rest /\
    (forall l x, la_arg first = Some (l, x) -> la_arg first' = Some (l, mkArg (singularize (a_name a)) vt)).
Proof. exact map_to_index_spec. Qed.
Print Assumptions map_to_index_same_target.

Theorem unfold_boolean_same_target : forall tn fn o os effs,
  unfold_boolean_action tn fn o = Ok (os, effs) ->
  effs = [] /\
  (os = [o] \/
   exists first rest d1 d2,
     lo_assignments o = first :: rest /\
     os = [mkLOpt tn (lo_comments o) [] [] [constant_lasg (la_path first) (DBool true)] d1;
           mkLOpt fn (lo_comments o) [] [] [constant_lasg (la_path first) (DBool false)] d2]).
Proof. exact unfold_boolean_spec. Qed.
Print Assumptions unfold_boolean_same_target.

Theorem struct_fields_as_arguments_same_target : forall ss base explicit o os effs,
  struct_fields_as_arguments_action ss base explicit o = Ok (os, effs) ->
  effs = [] /\
  (os = [o] \/
   exists first rest o', lo_assignments o = first :: rest /\ os = [o'] /\ lo_name o' = lo_name o /\ lo_comments o' = lo_comments o /\
     forall a', In a' (lo_assignments o') ->
       In a' rest \/ la_path a' = la_path first \/ exists it, la_path a' = la_path first ++ [it] /\ pi_index it = None).
Proof. exact sfa_arguments_spec. Qed.
Print Assumptions struct_fields_as_arguments_same_target.

Theorem struct_fields_as_options_same_target : forall ss base explicit o os effs,
  struct_fields_as_options_action ss base explicit o = Ok (os, effs) ->
  effs = [] /\
  (os = [o] \/
   exists first rest, lo_assignments o = first :: rest /\
     forall o', In o' os ->
       exists f cs l, lo_name o' = f_name f /\ lo_comments o' = f_comments f /\ lo_args o' = [mkArg (f_name f) (f_type f)] /\
         lo_assignments o' = [mkLAsg (la_path first ++ path_from_struct_field f) (Some (l, mkArg (f_name f) (f_type f)))
                                     DNil None "direct" cs []]).
Proof. exact sfa_options_spec. Qed.
Print Assumptions struct_fields_as_options_same_target.

Theorem disjunction_as_options_same_target : forall ss base idx o os effs,
  disjunction_as_options_action ss base idx o = Ok (os, effs) ->
  effs = [] /\ forall o', In o' os ->
    map la_path (lo_assignments o') = map la_path (lo_assignments o) /\
    map la_method (lo_assignments o') = map la_method (lo_assignments o).
Proof. exact disjunction_as_options_spec. Qed.
Print Assumptions disjunction_as_options_same_target.

(* DeepCopy as used by duplicate: same value *)
Theorem deep_copy_is_same_value : forall base b, erase_builder (builder_deep_copy base b) = erase_builder b.
Proof. exact erase_builder_deep_copy. Qed.
Print Assumptions deep_copy_is_same_value.

(* ================================================================ regenerated obligation *)
(* the members of yaml.BuilderRule / yaml.OptionRule as declared in /repo NOW, and the order in
   which AsRewriteRule tests them (coq/Gen/VeneerRegistry_gen.v, rewritten on every run), are the
   members the model and the harness know, dispatched first-declared-first as the model does *)
Theorem registry_matches_model :
  builder_rule_members = model_builder_members /\ builder_rule_dispatch = model_builder_members /\
  option_rule_members = model_option_members /\ option_rule_dispatch = model_option_members.
Proof. vm_compute. repeat split. Qed.
Print Assumptions registry_matches_model.

(* ================================================================ non-vacuity *)
(* on the witness schemas: a sequence of all ten safe rules runs, selects, and yields well-typed
   builders: a renamed copy with an initialized constructor, a factory and a duplicated option *)
Definition c17_example_files : list vfile :=
  [mkVFile "all" "alpha"
     [[YBDuplicate (mkYBSel (Some "Foo") None None None) "Copy" ["name"]];
      [YBRename (mkYBSel None (Some "copy") None None) "FooCopy"];
      [YBInitialize (mkYBSel None (Some "FooCopy") None None) [("name", DStr "n")]];
      [YBAddFactory (mkYBSel None (Some "FooCopy") None None) (mkFactory "New" [] [] [mkOptionCall "tags" []])];
      [YBProperties (mkYBSel (Some "Bar") None None None) [mkField "internal" [] w_str false]];
      [YBOmit (mkYBSel (Some "bar") None None None)]]
     [[YODuplicate (mkYOSel (Some "Foo.tags") None None) "labels"];
      [YORename (mkYOSel None (Some "FooCopy.TAGS") None) "withTags"];
      [YOAddComments (mkYOSel (Some "Foo.name") None None) ["the name"]];
      [YOOmit (mkYOSel None (Some "FooCopy.labels") None)]]].
Example c17_nonvacuous :
  exists bs', apply_to w_schemas c17_example_files "go" w_before = Ok bs' /\ WTs w_schemas bs' = true /\
              map (fun b => (b_name b, map op_name (b_options b), List.length (ct_assignments (b_ctor b)), List.length (b_factories b))) bs'
              = [("Foo", ["tags"; "labels"; "name"], 0, 0); ("FooCopy", ["withTags"], 1, 1)].
Proof. eexists. vm_compute. repeat split. Qed.
