(* C17 — builder transformations keep builders well-typed, touch nothing they do not select, and
   honour their contracts.  Statements only; each closed by `exact <lemma>`; Print Assumptions
   under each.

   Model: coq/Model/Veneers.v — every builder rule, option action, selector, the YAML-level loader,
   Rewriter.ApplyTo, Builder.MakePath and Path.Append, one Gallina function per Go function, purely
   functional: since /repo a8e18fa (array_to_append, map_to_index, rename_arguments work on copies)
   and 0b5ce6d (a composed builder owns its constructor and properties) no rule writes through
   anything that shallow copies share.  The correspondence is strict: cog's output must EQUAL
   `apply_to`.
   Checkers (coq/Model/VeneersSpec.v), evaluated by the correspondence on the REAL output:
   `WT` (well-typed builder), `frame_ok` (unselected builders/options unchanged), contracts. *)
From Coq Require Import List String Bool ZArith.
From Cog Require Import Model.IR Model.IREq Model.Builders Model.BuildersEq Model.Veneers Model.VeneersSpec Proofs.VeneersProofs
                        Gen.VeneerRegistry_gen.
Import ListNotations.
Local Open Scope string_scope.
Local Open Scope list_scope.

(* ================================================================ frame: holds unconditionally *)
(* for ALL schema sets, builder sets, rule files (all 22 rules, any selectors and parameters) and
   languages, as Rewriter.ApplyTo runs them (common rules then language rules; builder rules then
   option rules; builders left without option dropped): the frame checker holds of the result —
   every builder that no builder rule selects is still there with the same object, package, name,
   properties, constructor and factories, and with every option of it that no option rule selects.
   `frame_ok` is the checker the correspondence evaluates on cog's own output. *)
Theorem unselected_unchanged : forall ss files lang bs lrs bs',
  rewriter_from files = Ok lrs -> apply_to ss files lang bs = Ok bs' -> frame_ok ss lrs lang bs bs' = true.
Proof. exact unselected_unchanged_proof. Qed.
Print Assumptions unselected_unchanged.

(* the same with Leibniz equalities instead of the decidable ones *)
Theorem unselected_unchanged_detailed : forall ss files lang bs lrs bs' b kept,
  rewriter_from files = Ok lrs -> apply_to ss files lang bs = Ok bs' ->
  In b bs ->
  (forall r, In r (builder_rules_for all_languages lrs ++ builder_rules_for lang lrs) -> sel_builder ss (brule_selector r) b = false) ->
  (forall o, In o kept -> In o (b_options b)) ->
  (forall r o, In r (option_rules_for all_languages lrs ++ option_rules_for lang lrs) -> In o kept -> sel_option (or_sel r) b o = false) ->
  kept <> [] ->
  exists b', In b' bs' /\ same_header b b' /\ forall o, In o kept -> In o (b_options b').
Proof. exact unselected_unchanged_detailed_proof. Qed.
Print Assumptions unselected_unchanged_detailed.

(* every single builder rule (all ten): an unselected builder is in the result, identical *)
Theorem unselected_builders_unchanged : forall ss r bs bs' b,
  apply_builder_rule ss r bs = Ok bs' -> In b bs -> sel_builder ss (brule_selector r) b = false -> In b bs'.
Proof. exact builder_rule_frame. Qed.
Print Assumptions unselected_builders_unchanged.

(* every single option rule (all twelve actions): every builder keeps its header and its unselected options *)
Theorem unselected_options_unchanged : forall ss r bs bs' b,
  apply_option_rule ss r bs = Ok bs' -> In b bs ->
  exists b', In b' bs' /\ same_header b b' /\
             forall o, In o (b_options b) -> sel_option (or_sel r) b o = false -> In o (b_options b').
Proof. exact apply_option_rule_frame. Qed.
Print Assumptions unselected_options_unchanged.

(* ================================================================ well-typedness *)
(* full statement: for all schema sets, rule files (whose own parameters are well-formed),
   languages and well-typed builder sets, the rewritten builders are well-typed.  Still REFUTED
   on the current code, in three ways (open findings), each a run of the model whose rule file is a
   fixed case of the correspondence and so replays on cog at every run: *)
Theorem rules_preserve_WT_refuted :
  ~ (forall ss files lang bs bs',
       consistent ss bs = true -> WTs ss bs = true -> files_wf files = true ->
       apply_to ss files lang bs = Ok bs' -> WTs ss bs' = true).
Proof. exact rules_preserve_WT_refuted_proof. Qed.
Print Assumptions rules_preserve_WT_refuted.
(* rename_arguments renames Args and the value argument but not the copy held by a constraint *)
Theorem rules_preserve_WT_refuted_by_stale_constraint : wt_witness w_files_constraint = true.
Proof. exact wt_witness_constraint. Qed.
Print Assumptions rules_preserve_WT_refuted_by_stale_constraint.
(* merge_into (and compose) do not check that the target path leads to the merged builder's object *)
Theorem rules_preserve_WT_refuted_by_unchecked_target : wt_witness w_files_target = true.
Proof. exact wt_witness_target. Qed.
Print Assumptions rules_preserve_WT_refuted_by_unchecked_target.
(* unfold_boolean (like map_to_index, struct_fields_as_*, promote) assumes the shape FromAST derives *)
Theorem rules_preserve_WT_refuted_by_assumed_shape : wt_witness w_files_shape = true.
Proof. exact wt_witness_shape. Qed.
Print Assumptions rules_preserve_WT_refuted_by_assumed_shape.
(* what used to refute it (merge_into then array_to_append on the merged copy) no longer does *)
Theorem merge_then_append_no_longer_refutes :
  match apply_to w_schemas w_files_merge_ok "go" w_before with
  | Ok bs' => WTs w_schemas bs' && existsb (fun b' => existsb (builder_eqb b') w_before && seqb (b_name b') "Foo") bs'
  | _ => false
  end = true.
Proof. exact merge_then_append_is_fine. Qed.
Print Assumptions merge_then_append_no_longer_refutes.

(* what holds, for ALL schema sets, builder sets, selectors, parameters and ALL sequences as
   Rewriter.ApplyTo runs them: 12 of the 22 rules can never break WT — builder rules omit, rename,
   properties, duplicate, initialize, add_factory and add_option (whose option only uses the
   arguments it declares); option rules omit, rename, add_comments, duplicate and add_assignment
   (of a constant or an envelope of constants).  `wt_safe_rules` is that boolean side condition. *)
Theorem rules_preserve_WT_partial : forall ss files lang bs lrs bs',
  rewriter_from files = Ok lrs -> wt_safe_rules lrs = true ->
  consistent_with ss bs -> WTs ss bs = true ->
  apply_to ss files lang bs = Ok bs' -> WTs ss bs' = true.
Proof. exact rules_preserve_WT_partial_proof. Qed.
Print Assumptions rules_preserve_WT_partial.

(* merge_into under the exact condition the code does not check (finding
   C17-merge-compose-unchecked-target): the path leads to the object the source builds *)
Theorem merge_into_preserves_WT_when_target_checked : forall ss s src under excl ren bs bs',
  (forall cur dest, consistent_with ss cur -> Forall (fun b => WT ss b = true) cur -> In dest cur -> sel_builder ss s dest = true ->
                    merge_target_checked ss cur dest src under) ->
  consistent_with ss bs -> Forall (fun b => WT ss b = true) bs ->
  apply_builder_rule ss (BRMergeInto s src under excl ren) bs = Ok bs' ->
  consistent_with ss bs' /\ Forall (fun b => WT ss b = true) bs'.
Proof. exact merge_into_rule_wt_proof. Qed.
Print Assumptions merge_into_preserves_WT_when_target_checked.

(* the five option actions that rewrite arguments keep an option of the shape FromAST derives
   (one argument, one assignment of it to a path ending in the argument's type) well-typed;
   `from_ast_options_have_derived_shape` says FromAST's options have it.  rename_arguments,
   array_to_append, map_to_index need an assignment without constraints (finding
   C17-rename-arguments-stale-constraints; arrays and maps never carry any). *)
Theorem from_ast_options_have_derived_shape : forall f o, struct_field_to_option f = Ok o ->
  exists a first, derived_shape o a first /\ a = mkArg (f_name f) (f_type f) /\ as_path first = path_from_struct_field f.
Proof. exact derived_shape_of_from_ast. Qed.
Print Assumptions from_ast_options_have_derived_shape.
Theorem array_to_append_preserves_WT_on_derived_options : forall ss root o a first os,
  derived_shape o a first -> as_constraints first = [] -> opt_wt ss root o = true -> array_to_append_action o = Ok os ->
  forallb (opt_wt ss root) os = true.
Proof. exact array_to_append_derived_wt. Qed.
Print Assumptions array_to_append_preserves_WT_on_derived_options.
Theorem map_to_index_preserves_WT_on_derived_options : forall ss root o a first os,
  derived_shape o a first -> as_constraints first = [] -> opt_wt ss root o = true -> map_to_index_action o = Ok os ->
  forallb (opt_wt ss root) os = true.
Proof. exact map_to_index_derived_wt. Qed.
Print Assumptions map_to_index_preserves_WT_on_derived_options.
Theorem unfold_boolean_preserves_WT_on_derived_options : forall ss root o a first tn fn os,
  derived_shape o a first -> opt_wt ss root o = true -> unfold_boolean_action tn fn o = Ok os ->
  forallb (opt_wt ss root) os = true.
Proof. exact unfold_boolean_derived_wt. Qed.
Print Assumptions unfold_boolean_preserves_WT_on_derived_options.
Theorem rename_arguments_preserves_WT_on_derived_options : forall ss root o a first names,
  derived_shape o a first -> as_constraints first = [] -> opt_wt ss root o = true ->
  forallb (opt_wt ss root) (rename_arguments_action names o) = true.
Proof. exact rename_arguments_derived_wt. Qed.
Print Assumptions rename_arguments_preserves_WT_on_derived_options.
Theorem disjunction_as_options_preserves_WT_on_derived_options : forall ss root o a first da d os,
  derived_shape o a first -> a_type a = TDisj da d -> opt_wt ss root o = true -> disjunction_as_options_action ss 0 o = Ok os ->
  forallb (opt_wt ss root) os = true.
Proof. exact disjunction_as_options_derived_wt. Qed.
Print Assumptions disjunction_as_options_preserves_WT_on_derived_options.

(* ---------------------------------------------------------------- all 22 rules, each where its condition holds *)
(* `run_checked` (Model/VeneersSpec.v) says that every rule of the run is applied where the condition it does
   not check holds, evaluated on the builders as they are when the rule is applied (`brule_cond`, `orule_cond`):
     - the 12 rules of `wt_safe_rules`: nothing (add_option / add_assignment: well-formed parameters);
     - merge_into: `merge_target_checked`; compose: `compose_checked` (the mapped path ends in an `any`, the
       composable builds a struct directly, its constants use no argument; no `__schema_entrypoint`);
     - promote_options_to_constructor: `promote_checked` (the promoted assignment uses no other argument);
     - struct_fields_as_options / _as_arguments: the action is a no-op on the option, or `sfa_checked` (the path
       ends in the argument's struct, not an array of it; no index argument; distinct field names; the other
       assignments do not use the first argument);
     - array_to_append, map_to_index, rename_arguments, unfold_boolean, disjunction_as_options (argument 0, a
       disjunction type): no-op, or the option has the shape FromAST derives (without constraint for the first three).
   Then, for ALL schema sets, builder sets, rule files and languages, the rewritten builders are well-typed. *)
Theorem rules_preserve_WT_where_checked : forall ss files lang bs lrs bs',
  rewriter_from files = Ok lrs -> run_checked ss lrs lang bs ->
  consistent_with ss bs -> WTs ss bs = true ->
  apply_to ss files lang bs = Ok bs' -> WTs ss bs' = true.
Proof. exact rules_preserve_WT_where_checked_proof. Qed.
Print Assumptions rules_preserve_WT_where_checked.

(* the single steps it is made of *)
Theorem builder_rule_preserves_WT_where_checked : forall ss r bs bs',
  brule_cond ss r bs -> apply_builder_rule ss r bs = Ok bs' ->
  consistent_with ss bs -> Forall (fun b => WT ss b = true) bs -> consistent_with ss bs' /\ Forall (fun b => WT ss b = true) bs'.
Proof. exact brule_cond_wt. Qed.
Print Assumptions builder_rule_preserves_WT_where_checked.
Theorem option_rule_preserves_WT_where_checked : forall ss r bs bs',
  orule_cond ss r bs -> apply_option_rule ss r bs = Ok bs' ->
  consistent_with ss bs -> Forall (fun b => WT ss b = true) bs -> consistent_with ss bs' /\ Forall (fun b => WT ss b = true) bs'.
Proof. exact orule_cond_wt. Qed.
Print Assumptions option_rule_preserves_WT_where_checked.
(* the safe group needs nothing *)
Theorem safe_rules_are_checked : (forall ss r bs, wt_safe_brule r = true -> brule_cond ss r bs) /\
                                 (forall ss act b o, wt_safe_action act = true -> action_cond ss act b o).
Proof. exact (conj wt_safe_brule_cond wt_safe_action_cond). Qed.
Print Assumptions safe_rules_are_checked.

(* each condition dropped: a run of the model that breaks WT (all are fixed cases of the correspondence;
   findings C17-merge-compose-unchecked-target and C17-rules-assume-derived-shape) *)
Theorem compose_unchecked_breaks_WT : wt_witness_on w_schemas_compose w_before_compose w_files_compose = true.
Proof. exact wt_witness_compose. Qed.
Print Assumptions compose_unchecked_breaks_WT.
Theorem promote_unchecked_breaks_WT : wt_witness w_files_promote = true.
Proof. exact wt_witness_promote. Qed.
Print Assumptions promote_unchecked_breaks_WT.
Theorem struct_fields_as_options_unchecked_breaks_WT : wt_witness_on w_schemas_sub w_before_sub (w_files_sfa true) = true.
Proof. exact wt_witness_sfa_options. Qed.
Print Assumptions struct_fields_as_options_unchecked_breaks_WT.
Theorem struct_fields_as_arguments_unchecked_breaks_WT : wt_witness_on w_schemas_sub w_before_sub (w_files_sfa false) = true.
Proof. exact wt_witness_sfa_arguments. Qed.
Print Assumptions struct_fields_as_arguments_unchecked_breaks_WT.

(* ================================================================ paths *)
(* Path.Append keeps both operands, for a prefix of ANY length k (induction on k): the first k items
   are the prefix, the suffix follows unchanged, the result ends where the suffix ends *)
Theorem path_append_keeps_both : forall k (under p : path), List.length under = k ->
  firstn k (path_append under p) = under /\ skipn k (path_append under p) = p /\
  List.length (path_append under p) = k + List.length p /\
  (p <> [] -> last_item (path_append under p) = last_item p).
Proof. exact path_append_keeps. Qed.
Print Assumptions path_append_keeps_both.

(* Builder.MakePath: a chain of existing fields with the recorded types, one item per dotted
   segment (any number of them), no argument, no index, no type hint *)
Theorem make_path_is_well_typed : forall ss bs b s p, consistent_with ss bs -> make_path bs b s = Ok p ->
  path_ok ss (o_type (b_for b)) p = true /\ path_args p = [] /\ List.length p = List.length (split_dots s) /\ p <> [] /\
  Forall (fun it => pi_typehint it = None /\ pi_index it = None) p.
Proof. exact make_path_ok. Qed.
Print Assumptions make_path_is_well_typed.

(* merge_into under a path of k dotted segments, for EVERY k: the destination keeps its options, the
   source's follow, and each of their assignments gets the SAME k-item prefix followed by its own path
   unchanged — every merged option still ends at its own field *)
Theorem merge_into_paths : forall ss src under excl ren cur dest dest' source,
  consistent_with ss cur ->
  merge_into_builder src under excl ren cur dest = Ok dest' ->
  locate_by_name cur (o_selfpkg (b_for dest)) src = Some source ->
  exists root k,
    make_path cur dest under = Ok root /\ k = List.length (split_dots under) /\ List.length root = k /\
    b_options dest' = b_options dest ++ map (merged_option root ren) (filter (fun o => negb (item_in_list (op_name o) excl)) (b_options source)) /\
    forall a, as_path (prefix_path root a) = root ++ as_path a /\
              firstn k (as_path (prefix_path root a)) = root /\ skipn k (as_path (prefix_path root a)) = as_path a /\
              (as_path a <> [] -> last_item (as_path (prefix_path root a)) = last_item (as_path a)).
Proof. exact merge_into_paths_proof. Qed.
Print Assumptions merge_into_paths.

(* a chain followed by a chain that starts where the first ends is a chain *)
Theorem path_chain_append : forall ss q p cur,
  path_ok_go ss cur (p ++ q) = path_ok_go ss cur p && path_ok_go ss (end_type cur p) q.
Proof. exact path_ok_go_app. Qed.
Print Assumptions path_chain_append.

(* ================================================================ contracts (for all inputs and parameters) *)
Theorem omit_removes : forall ss s bs bs',
  apply_builder_rule ss (BROmit s) bs = Ok bs' ->
  (forall b, In b bs' -> sel_builder ss s b = false /\ In b bs) /\
  (forall b, In b bs -> sel_builder ss s b = false -> In b bs').
Proof. exact omit_removes_builders. Qed.
Print Assumptions omit_removes.

Theorem omit_removes_options : forall ss s b,
  process_options ss (mkORule s AOmit) b = Ok (filter (fun o => negb (sel_option s b o)) (b_options b)).
Proof. exact omit_option_spec. Qed.
Print Assumptions omit_removes_options.

Theorem rename_only_renames : forall ss s n bs bs',
  apply_builder_rule ss (BRRename s n) bs = Ok bs' ->
  bs' = map (fun b => if sel_builder ss s b then set_name b n else b) bs.
Proof. exact rename_rule_spec. Qed.
Print Assumptions rename_only_renames.

Theorem rename_only_renames_options : forall ss s n b,
  process_options ss (mkORule s (ARename n)) b = Ok (map (fun o => if sel_option s b o then set_oname o n else o) (b_options b)).
Proof. exact rename_option_spec. Qed.
Print Assumptions rename_only_renames_options.

(* the copy equals its source in every field but the name: object, package, properties,
   constructor, options with their defaults, factories (the model's DeepCopy is the identity; that
   cog's is a faithful copy is re-checked on cog's output by the duplicate contracts) *)
Theorem duplicate_is_identical_copy : forall ss s n bs bs',
  apply_builder_rule ss (BRDuplicate s n []) bs = Ok bs' ->
  bs' = bs ++ map (fun b => set_name b n) (filter (sel_builder ss s) bs).
Proof. exact duplicate_rule_spec. Qed.
Print Assumptions duplicate_is_identical_copy.

Theorem duplicate_is_identical_copy_but_excluded : forall ss s n e excl bs bs',
  apply_builder_rule ss (BRDuplicate s n (e :: excl)) bs = Ok bs' ->
  bs' = bs ++ map (fun b => set_options (set_name b n)
                              (filter (fun o => negb (string_in_list_equal_fold (op_name o) (e :: excl))) (b_options b)))
                  (filter (sel_builder ss s) bs).
Proof. exact duplicate_rule_spec_excl. Qed.
Print Assumptions duplicate_is_identical_copy_but_excluded.

Theorem duplicate_option_is_identical_copy : forall ss s n b,
  process_options ss (mkORule s (ADuplicate n)) b
  = Ok (flat_map (fun o => if sel_option s b o then [o; set_oname o n] else [o]) (b_options b)).
Proof. exact duplicate_option_spec. Qed.
Print Assumptions duplicate_option_is_identical_copy.

Theorem array_to_append_same_target : forall o os,
  array_to_append_action o = Ok os ->
  os = [o] \/
  exists a al v first rest first',
    op_args o = [a] /\ a_type a = TArray al v /\ op_assignments o = first :: rest /\
    os = [mkOption (op_name o) (op_comments o) [mkArg (singularize (a_name a)) v] (first' :: rest) (op_default o)] /\
    as_path first' = as_path first /\ as_method first' = "append" /\
    as_constraints first' = as_constraints first /\ as_const first' = as_const first /\ as_env first' = as_env first /\
    as_arg first' = match as_arg first with Some _ => Some (mkArg (singularize (a_name a)) v) | None => None end.
Proof. exact array_to_append_spec. Qed.
Print Assumptions array_to_append_same_target.

Theorem map_to_index_same_target : forall o os,
  map_to_index_action o = Ok os ->
  os = [o] \/
  exists a al it vt first rest first',
    op_args o = [a] /\ a_type a = TMap al it vt /\ op_assignments o = first :: rest /\
    os = [mkOption (op_name o) (op_comments o) [mkArg "key" it; mkArg (singularize (a_name a)) vt] (first' :: rest) (op_default o)] /\
    as_path first' = as_path first ++ [index_item (mkArg "key" it) vt] /\ as_method first' = "index" /\
    as_constraints first' = as_constraints first /\ as_const first' = as_const first /\ as_env first' = as_env first /\
    as_arg first' = match as_arg first with Some _ => Some (mkArg (singularize (a_name a)) vt) | None => None end.
Proof. exact map_to_index_spec. Qed.
Print Assumptions map_to_index_same_target.

Theorem unfold_boolean_same_target : forall tn fn o os,
  unfold_boolean_action tn fn o = Ok os ->
  os = [o] \/
  exists first rest d1 d2,
    op_assignments o = first :: rest /\
    os = [mkOption tn (op_comments o) [] [constant_asg (as_path first) (DBool true)] d1;
          mkOption fn (op_comments o) [] [constant_asg (as_path first) (DBool false)] d2].
Proof. exact unfold_boolean_spec. Qed.
Print Assumptions unfold_boolean_same_target.

Theorem struct_fields_as_arguments_same_target : forall ss explicit o os,
  struct_fields_as_arguments_action ss explicit o = Ok os ->
  os = [o] \/
  exists first rest o', op_assignments o = first :: rest /\ os = [o'] /\ op_name o' = op_name o /\ op_comments o' = op_comments o /\
    forall a', In a' (op_assignments o') ->
      In a' rest \/ as_path a' = as_path first \/ exists it, as_path a' = as_path first ++ [it] /\ pi_index it = None.
Proof. exact sfa_arguments_spec. Qed.
Print Assumptions struct_fields_as_arguments_same_target.

Theorem struct_fields_as_options_same_target : forall ss explicit o os,
  struct_fields_as_options_action ss explicit o = Ok os ->
  os = [o] \/
  exists first rest, op_assignments o = first :: rest /\
    forall o', In o' os ->
      exists f cs, op_name o' = f_name f /\ op_comments o' = f_comments f /\ op_args o' = [mkArg (f_name f) (f_type f)] /\
        op_assignments o' = [mkAssignment (as_path first ++ path_from_struct_field f) (AValue (Some (mkArg (f_name f) (f_type f))) DNil None)
                                          "direct" cs []].
Proof. exact sfa_options_spec. Qed.
Print Assumptions struct_fields_as_options_same_target.

Theorem disjunction_as_options_same_target : forall ss idx o os,
  disjunction_as_options_action ss idx o = Ok os ->
  forall o', In o' os ->
    map as_path (op_assignments o') = map as_path (op_assignments o) /\
    map as_method (op_assignments o') = map as_method (op_assignments o).
Proof. exact disjunction_as_options_spec. Qed.
Print Assumptions disjunction_as_options_same_target.

(* ================================================================ regenerated obligations *)
(* the members of yaml.BuilderRule / yaml.OptionRule as declared in /repo NOW, and the order in
   which AsRewriteRule tests them (coq/Gen/VeneerRegistry_gen.v, rewritten on every run), are the
   members the model and the harness know, dispatched first-declared-first as the model does *)
Theorem registry_matches_model :
  builder_rule_members = model_builder_members /\ builder_rule_dispatch = model_builder_members /\
  option_rule_members = model_option_members /\ option_rule_dispatch = model_option_members.
Proof. vm_compute. repeat split. Qed.
Print Assumptions registry_matches_model.

(* Path.Append as written in /repo NOW appends into a slice of its own and returns it (it never
   extends the receiver or the parameter): the functional `path_append` is its model *)
Theorem path_append_copies : path_append_class = "copying".
Proof. vm_compute. reflexivity. Qed.
Print Assumptions path_append_copies.

(* ================================================================ non-vacuity *)
Definition c17_example_files : list vfile :=
  [mkVFile "all" "alpha"
     [[YBDuplicate (mkYBSel (Some "Foo") None None None) "Copy" ["name"]];
      [YBRename (mkYBSel None (Some "copy") None None) "FooCopy"];
      [YBInitialize (mkYBSel None (Some "FooCopy") None None) [("name", DStr "n")]];
      [YBAddFactory (mkYBSel None (Some "FooCopy") None None) (mkFactory "New" [] [] [mkOptionCall "tags" []])];
      [YBAddOption (mkYBSel None (Some "FooCopy") None None)
                   (mkVOption "both" [] [mkArg "v" w_str] [mkVAssignment "name" "direct" (VValue (Some (mkArg "v" w_str)) DNil None)])];
      [YBProperties (mkYBSel (Some "Bar") None None None) [mkField "internal" [] w_str false]];
      [YBOmit (mkYBSel (Some "bar") None None None)]]
     [[YODuplicate (mkYOSel (Some "Foo.tags") None None) "more"];
      [YORename (mkYOSel None (Some "FooCopy.TAGS") None) "withTags"];
      [YOAddComments (mkYOSel (Some "Foo.name") None None) ["the name"]];
      [YOAddAssignment (mkYOSel None (Some "FooCopy.both") None) (mkVAssignment "name" "direct" (VValue None (DStr "c") None))];
      [YOOmit (mkYOSel None (Some "FooCopy.more") None)]]].
Definition c17_example_summary (bs : list builder) :=
  map (fun b => (b_name b, map op_name (b_options b), List.length (ct_assignments (b_ctor b)), List.length (b_factories b))) bs.
Definition c17_example_lrs : list language_rules := match rewriter_from c17_example_files with Ok l => l | _ => [] end.
Definition c17_example_out : list builder := match apply_to w_schemas c17_example_files "go" w_before with Ok l => l | _ => [] end.
Example c17_nonvacuous :
  rewriter_from c17_example_files = Ok c17_example_lrs /\ wt_safe_rules c17_example_lrs = true /\
  apply_to w_schemas c17_example_files "go" w_before = Ok c17_example_out /\ WTs w_schemas c17_example_out = true /\
  frame_ok w_schemas c17_example_lrs "go" w_before c17_example_out = true /\
  c17_example_summary c17_example_out
  = [("Foo", ["tags"; "more"; "name"; "labels"], 0, 0); ("FooCopy", ["withTags"; "labels"; "both"], 1, 1)].
Proof. split; [|split; [|split; [|split; [|split]]]]; vm_compute; reflexivity. Qed.
