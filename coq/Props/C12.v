(* C12 -- the JSON Schema and OpenAPI documents cog emits describe the same documents as the generated types.
   Statements only; proofs in Proofs/JsonSchemaOutProofs.v and Proofs/JsonSchemaOutEncode.v.
   Model: Model/JsonSchemaOut.v (emit_* mirror internal/jennies/jsonschema/schema.go and the OpenAPI variant;
   js_valid validates exactly the emitted shapes), Model/JsonSchemaOutSpec.v (jv, sat), and the Go semantics
   model Model/GoSemDecode.v (encode) / Model/GoSemSpec.v (wt). *)
From Coq Require Import List String ZArith Bool.
From Cog Require Import Model.IR Model.Json Model.GoSemBase Model.GoSemDecode Model.GoSemSpec
  Model.JsonSchemaOut Model.JsonSchemaOutSpec Proofs.JsonSchemaOutProofs Proofs.JsonSchemaOutEncode
  Proofs.JsonSchemaOutWitness
  Model.GoSemEquals Model.GoSemValidate Model.GoSemSpec08 Model.GoSem Model.JsonSchemaOutValidated Proofs.JsonSchemaOutValidated.
Import ListNotations.
Local Open Scope string_scope.

(* ---------- every $ref resolves ---------- *)
(* For every context whose own references locate an object (C05) and every schema of it: whenever the jenny
   returns, every `$ref` of the document -- in local definitions, in the inlined foreign ones at any depth of the
   foreign-object loop, and the top-level entry point -- names a key of `definitions`. *)
Theorem emitted_refs_resolve : forall ctx s fuel jd,
    ctx_wf ctx -> In s ctx -> refs_located ctx s ->
    (s_entry s = "" \/ In (s_entry s) (map o_name (objects_of s))) ->
    emit_schema ctx fuel s = Ok jd ->
    forall r, In r (doc_refs jd) -> In r (def_names jd).
Proof. exact emit_schema_refs_resolve. Qed.
Print Assumptions emitted_refs_resolve.

(* ... and the jenny returns: the loop over foreign objects converts every SelfRef at most once, so for EVERY
   context (no well-formedness needed), every schema and every fuel >= number of objects of the context + 2
   (= emit_fuel) the emitter is Ok -- never OutOfFuel, the model's reading of a Go loop that does not end *)
Theorem emitter_returns : forall ctx s fuel,
    S (S (count_objects ctx)) <= fuel -> exists jd, emit_schema ctx fuel s = Ok jd.
Proof. exact emit_schema_returns. Qed.
Print Assumptions emitter_returns.

(* the former witness of non-termination (alpha.Root{x: ref beta.Node}, beta.Node{next?: ref beta.Node};
   Model/JsonSchemaOutSpec.v w_rec_ctx): Node is converted once, every $ref resolves *)
Example foreign_recursive_type_converted_once :
  exists jd, emit_schema w_rec_ctx (emit_fuel w_rec_ctx) w_rec_schema = Ok jd /\
             def_names jd = ["Root"; "Node"] /\ refs_resolve_b jd = true /\
             om_get (jd_defs jd) "Node" =
             Some (JSStruct [] [("next", (JSRef "beta" "Node", "", None))], "").
Proof. exact w_rec_terminates. Qed.

(* ---------- every object and field of the IR appears under its own name ---------- *)
(* full statement: the definition stored under an object's name is that object's own *)
Definition every_object_present_statement : Prop :=
  forall ctx s fuel jd, In s ctx -> NoDup (map o_name (objects_of s)) -> emit_schema ctx fuel s = Ok jd ->
                        forall o, In o (objects_of s) -> om_get (jd_defs jd) (o_name o) = Some (object_to_definition o).

(* refuted: foreign objects are inlined under their bare name *)
Theorem every_object_and_field_present_refuted : ~ every_object_present_statement.
Proof. exact objects_present_refuted. Qed.
Print Assumptions every_object_and_field_present_refuted.

(* proved when no object of another package carries the name of a local object *)
Theorem every_object_and_field_present_partial : forall ctx s fuel jd,
    ctx_wf ctx -> In s ctx -> NoDup (map o_name (objects_of s)) ->
    (forall p n o, p <> s_pkg s -> locate_object ctx p n = Some o -> ~ In (o_name o) (map o_name (objects_of s))) ->
    emit_schema ctx fuel s = Ok jd ->
    forall o, In o (objects_of s) ->
              om_get (jd_defs jd) (o_name o) = Some (object_to_definition o) /\
              (forall a dh fs f, o_type o = TStruct a dh fs -> NoDup (map (@f_name ty) fs) -> In f fs ->
                 exists req props, emit_type (o_type o) = JSStruct req props /\
                                   exists de df, om_get props (f_name f) = Some (emit_type (f_type f), de, df)).
Proof. exact objects_and_fields_present. Qed.
Print Assumptions every_object_and_field_present_partial.

(* ---------- every encoding of a value of the generated Go types validates ---------- *)
Definition encoded_values_validate_statement : Prop :=
  forall ctx defs t v, faithful ctx defs -> wt ctx t v = true -> jv defs (emit_type t) (encode ctx t v).

(* refuted twice over: `any` is emitted as `type: object`, and nullability is not expressed *)
Theorem encoded_values_validate_refuted : ~ encoded_values_validate_statement.
Proof. exact encoded_refuted_any. Qed.
Print Assumptions encoded_values_validate_refuted.

Theorem encoded_values_validate_refuted_nullable :
  exists ctx defs t v, faithful ctx defs /\ wt ctx t v = true /\ is_any t = false /\
                       ~ jv defs (emit_type t) (encode ctx t v).
Proof. exact encoded_refuted_nullable. Qed.
Print Assumptions encoded_values_validate_refuted_nullable.

(* proved for valid values (Model/JsonSchemaOutSpec.v `sat`: constraints, constants and enumeration membership
   hold, `any` positions hold objects, nil only where omitempty drops it, fields named apart), for every context
   and definitions table that is faithful to it, at any nesting depth, through any chain of references *)
Theorem encoded_values_validate_partial : forall ctx defs, faithful ctx defs ->
    forall v t, wt ctx t v = true -> sat ctx t v = true -> jv defs (emit_type t) (encode ctx t v).
Proof. exact encode_validates. Qed.
Print Assumptions encoded_values_validate_partial.

(* the definitions the jenny emits for a single-package context are faithful to it *)
Theorem single_package_definitions_faithful : forall s fuel jd,
    (forall k o, In (k, o) (s_objects s) -> k = o_name o) -> NoDup (map o_name (objects_of s)) ->
    emit_schema [s] fuel s = Ok jd -> faithful [s] (defs_of jd).
Proof. exact single_package_faithful. Qed.
Print Assumptions single_package_definitions_faithful.

(* the executable validator the correspondence runs decides the relation the theorems speak about *)
Theorem js_valid_decides_jv : forall defs fuel s d,
    (js_valid defs fuel s d = Some true -> jv defs s d) /\ (js_valid defs fuel s d = Some false -> ~ jv defs s d).
Proof. intros; split; [apply js_valid_sound | apply js_valid_complete]. Qed.
Print Assumptions js_valid_decides_jv.

(* ---------- required-ness, constraints, enum values and defaults are carried over unchanged ---------- *)
Theorem constraints_carried :
  (* required-ness *)
  (forall a dh fs req props n, emit_type (TStruct a dh fs) = JSStruct req props ->
      (In n req <-> exists f, In f fs /\ f_name f = n /\ f_required f = true)) /\
  (* defaults (fields named apart) *)
  (forall a dh fs f req props ps de df, NoDup (map (@f_name ty) fs) -> In f fs ->
      emit_type (TStruct a dh fs) = JSStruct req props -> om_get props (f_name f) = Some (ps, de, df) ->
      df = (if dyn_is_nil (dflt (ty_attrs (f_type f))) then None else Some (dyn_to_json (dflt (ty_attrs (f_type f)))))) /\
  (* enum values *)
  (forall a vs, emit_type (TEnum a vs) = JSEnum (map (fun ev => dyn_to_json (ev_value ev)) vs)) /\
  (* numeric and string constraints (operators named apart: a repeated operator keeps its last argument) *)
  (forall a k cs c kw, is_int_kind k = true \/ is_float_kind k = true ->
      NoDup (map (fun c => number_kw (c_op c)) cs) -> In c cs -> number_kw (c_op c) = Some kw ->
      exists ms, emit_type (TScalar a k DNil cs) = JSScalar ms /\ om_get ms kw = Some (first_arg c)) /\
  (forall a cs c kw, NoDup (map (fun c => string_kw (c_op c)) cs) -> In c cs -> string_kw (c_op c) = Some kw ->
      has_hint (TScalar a KString DNil cs) "string_format_datetime" = false ->
      exists ms, emit_type (TScalar a KString DNil cs) = JSScalar ms /\ om_get ms kw = Some (first_arg c)) /\
  (* constants *)
  (forall a k v cs, dyn_is_nil v = false -> k <> KAny ->
      exists ms, emit_type (TScalar a k v cs) = JSScalar ms /\ om_get ms "const" = Some (dyn_to_json v)).
Proof. exact carried_over. Qed.
Print Assumptions constraints_carried.

(* what is NOT carried: nullability, constant references, intersections *)
Theorem not_carried :
  (forall t b, emit_type (set_nullable t b) = emit_type t) /\
  (forall a p n v, emit_type (TConstRef a p n v) = JSEmpty) /\
  (forall a bs, emit_type (TInter a bs) = JSEmpty).
Proof. exact not_carried_over. Qed.
Print Assumptions not_carried.

(* ---------- non-vacuity: a context, a well-typed valid value, its encoding, and the verdict ---------- *)
Definition ex_ctx : schemas :=
  [mkSchema "p" {| m_kind := ""; m_variant := ""; m_identifier := "" |} "Root" (TRef A0 "p" "Root")
     [("Inner", mkObject "Inner" [] (TStruct A0 [] [mkField "n" [] (TScalar A0 KInt64 DNil [{| c_op := ">="; c_args := [DInt "int64" 1] |}]) true]) "p" "Inner");
      ("Root", mkObject "Root" ["the root"]
                 (TStruct A0 [] [mkField "id" [] (TScalar A0 KString DNil [{| c_op := "minLength"; c_args := [DInt "int64" 2] |}]) true;
                                 mkField "in" [] (TRef A0 "p" "Inner") true;
                                 mkField "opt" [] (TScalar {| nullable := true; dflt := DNil; hints := [] |} KBool DNil []) false;
                                 mkField "tags" [] (TArray A0 (TScalar A0 KString DNil [])) true]) "p" "Root")]].
Definition ex_val : gval :=
  GStruct [("id", GStr "ab"); ("in", GStruct [("n", GInt 3)]); ("opt", GNil); ("tags", GSlice [GStr "x"])].

Example encoded_value_validates :
  exists s jd, In s ex_ctx /\ emit_schema ex_ctx (emit_fuel ex_ctx) s = Ok jd /\
               refs_resolve_b jd = true /\
               wt ex_ctx (TRef A0 "p" "Root") ex_val = true /\ sat ex_ctx (TRef A0 "p" "Root") ex_val = true /\
               doc_valid jd "Root" (encode ex_ctx (TRef A0 "p" "Root") ex_val) = Some true /\
               doc_valid jd "Root" (JObj [("id", JStr "a"); ("in", JObj [("n", JNum 3 0)]); ("tags", JArr [])]) = Some false.
Proof.
  eexists; eexists. split; [left; reflexivity|]. split; [vm_compute; reflexivity|].
  repeat split; vm_compute; reflexivity.
Qed.

(* ---------------- tied to the generated Validate(): what Go's own Validate() accepts, the emitted schema accepts
   (Proofs/JsonSchemaOutValidated.v).  `structural` lists exactly what the emitted schema asks of an encoding that
   Validate() never looks at: an `any` holds an object, no nil is encoded outside omitempty fields, enum / constant /
   date-time leaves hold their values - the first two are the open findings C12-any-emitted-as-object,
   C12-nullable-not-expressed, C12-nil-required-collection.  Numeric bounds and string lengths are NOT assumed: they
   follow from Validate() returning no error. ---------------- *)
Theorem validated_values_validate : forall ctx defs p n v,
    faithful ctx defs ->
    ctx_supported ctx = true -> struct_object ctx p n = true -> wt ctx (TRef attrs0 p n) v = true ->
    ctx_alias_free ctx = true -> GoSemSpec08F.ctx_named ctx = true -> GoSemSpec08F.ctx_cdirect ctx = true ->
    validate_object ctx p n v = [] ->
    structural ctx (TRef attrs0 p n) v = true ->
    jv defs (JSRef p n) (encode_object ctx p n v).
Proof. exact validated_values_validate_obj. Qed.
Print Assumptions validated_values_validate.
Theorem validated_values_validate_any_type : forall ctx defs, faithful ctx defs ->
    forall v t path, wt ctx t v = true -> violations ctx path t v = [] -> structural ctx t v = true ->
                     jv defs (emit_type t) (encode ctx t v).
Proof. exact validated_values_validate_core. Qed.
Print Assumptions validated_values_validate_any_type.
Theorem validated_values_accepted_by_the_validator : forall ctx defs p n v fuel b,
    faithful ctx defs ->
    ctx_supported ctx = true -> struct_object ctx p n = true -> wt ctx (TRef attrs0 p n) v = true ->
    ctx_alias_free ctx = true -> GoSemSpec08F.ctx_named ctx = true -> GoSemSpec08F.ctx_cdirect ctx = true ->
    validate_object ctx p n v = [] -> structural ctx (TRef attrs0 p n) v = true ->
    js_valid defs fuel (JSRef p n) (encode_object ctx p n v) = Some b -> b = true.
Proof. exact validated_values_js_valid. Qed.
Print Assumptions validated_values_accepted_by_the_validator.
(* the OpenAPI document carries the same definitions table under components.schemas: the theorems cover both *)
Theorem openapi_has_the_same_definitions : forall s d,
    find_member "components" (match render_openapi s d with JObj ms => ms | _ => [] end) =
    Some (JObj [("schemas", render_defs openapi_prefix (jd_defs d))]) /\
    find_member "definitions" (match render_jsonschema d with JObj ms => ms | _ => [] end) =
    Some (render_defs jsonschema_prefix (jd_defs d)).
Proof. exact openapi_same_definitions. Qed.
Print Assumptions openapi_has_the_same_definitions.
Theorem validated_values_hypotheses_satisfiable :
  ctx_supported v_ex_ctx = true /\ struct_object v_ex_ctx "p" "Root" = true /\
  ctx_alias_free v_ex_ctx = true /\ GoSemSpec08F.ctx_named v_ex_ctx = true /\ GoSemSpec08F.ctx_cdirect v_ex_ctx = true /\
  wt v_ex_ctx (TRef attrs0 "p" "Root") v_ex_val = true /\
  validate_object v_ex_ctx "p" "Root" v_ex_val = [] /\ structural v_ex_ctx (TRef attrs0 "p" "Root") v_ex_val = true /\
  js_valid (w_defs v_ex_ctx) 20 (JSRef "p" "Root") (encode_object v_ex_ctx "p" "Root" v_ex_val) = Some true /\
  structural v_ex_ctx (TRef attrs0 "p" "Root") v_bad_val = true /\
  validate_object v_ex_ctx "p" "Root" v_bad_val = ["id"; "in.n"] /\
  js_valid (w_defs v_ex_ctx) 20 (JSRef "p" "Root") (encode_object v_ex_ctx "p" "Root" v_bad_val) = Some false.
Proof. exact validated_nonvacuous. Qed.
Print Assumptions validated_values_hypotheses_satisfiable.
