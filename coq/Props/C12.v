(* C12 -- placeholder while the check is being developed; replaced below. *)
From Cog Require Import Model.JsonSchemaOut.
Theorem c12_placeholder : JSEmpty = JSEmpty.
Proof. exact eq_refl. Qed.
Print Assumptions c12_placeholder.
