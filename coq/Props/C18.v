(* C18 — copies of the intermediate representation are faithful and independent.
   Statements only; each closed by `exact <lemma>`; Print Assumptions under each.
   `decls` / `copy_spec` are regenerated from /repo's DeepCopy methods on every run. *)
From Coq Require Import List String Bool Arith.
From Cog Require Import Model.Heap Model.HeapCheck Proofs.HeapProofs Gen.CopySpec_gen.
Import ListNotations.

(* For ANY declarations and ANY per-field copy table in which no declared field is dropped:
   the copy is equal, as data, to the original — for every value, of any shape and depth. *)
Theorem copy_faithful : forall d s off, no_missing d s = true ->
  forall v t m, m <> Missing -> erase (copy d s off t m v) = erase v.
Proof. exact copy_faithful_proof. Qed.
Print Assumptions copy_faithful.

(* For ANY sound table: every location of the copy is freshly allocated ... *)
Theorem copy_fresh : forall d s off fuel, spec_sound d s fuel = true ->
  forall v t m, wt d t v = true -> mode_ok d s fuel t m = true ->
  Forall (fun l => off <= l) (locs (copy d s off t m v)).
Proof. exact copy_fresh_proof. Qed.
Print Assumptions copy_fresh.

(* ... hence copy and original share no pointer target, slice backing array or map, *)
Theorem copy_independent : forall d s off fuel, spec_sound d s fuel = true ->
  forall v t m, wt d t v = true -> mode_ok d s fuel t m = true ->
  Forall (fun l => l < off) (locs v) ->
  forall l, In l (locs (copy d s off t m v)) -> ~ In l (locs v).
Proof. exact copy_independent_proof. Qed.
Print Assumptions copy_independent.

(* ... and no sequence of writes through locations the original does not contain — in
   particular through any location of the copy — changes the original: whatever a
   transformation does to the copy. *)
Theorem mutation_frame : forall ws v,
  Forall (fun w => ~ In (fst w) (locs v)) ws ->
  fold_left (fun acc w => write (fst w) (snd w) acc) ws v = v.
Proof. exact mutation_frame_proof. Qed.
Print Assumptions mutation_frame.

(* The obligations over the tables regenerated from the current source: *)
Theorem current_spec_no_missing : no_missing decls copy_spec = true.
Proof. vm_compute. reflexivity. Qed.
Print Assumptions current_spec_no_missing.

Theorem current_spec_sound : spec_sound decls copy_spec FUEL = true.
Proof. vm_compute. reflexivity. Qed.
Print Assumptions current_spec_sound.

(* so, for cog's own copy routines, on every well-typed value whose any-typed fields hold
   scalars: *)
Theorem cog_copy_faithful_and_independent : forall n v,
  has_copy copy_spec n = true -> wt decls (GNamed n) v = true ->
  Forall (fun l => l < OFF) (locs v) ->
  erase (copy decls copy_spec OFF (GNamed n) Call v) = erase v /\
  forall l, In l (locs (copy decls copy_spec OFF (GNamed n) Call v)) -> ~ In l (locs v).
Proof.
  intros n v Hc Hwt Hb. split.
  - apply copy_faithful; [exact current_spec_no_missing|discriminate].
  - apply (copy_independent decls copy_spec OFF FUEL current_spec_sound v (GNamed n) Call Hwt Hc Hb).
Qed.
Print Assumptions cog_copy_faithful_and_independent.

(* The full statement — also for any-typed fields holding a slice, map or struct — is refuted:
   such containers are shared between copy and original (known finding). *)
Definition any_container_witness : hval :=
  Node (TgStruct "TypeConstraint") None
       [("Op", Leaf "=="); ("Args", Node TgSlice (Some 1) [("", Node TgAny None [("", Node TgSlice (Some 2) [("", Leaf "x")])])])]%string.
Theorem copy_shares_any_containers_refuted :
  exists l, In l (locs (copy decls copy_spec OFF (GNamed "TypeConstraint") Call any_container_witness))
            /\ In l (locs any_container_witness).
Proof. exists 2. vm_compute. split; [right; left; reflexivity|right; left; reflexivity]. Qed.
Print Assumptions copy_shares_any_containers_refuted.

(* non-vacuity: a concrete nested Type value is inside the theorems' fragment *)
Example c18_value : hval :=
  Node (TgStruct "Argument") None
    [("Name", Leaf "arg");
     ("Type", Node (TgStruct "Type") None
        [("Kind", Leaf "array"); ("Nullable", Leaf "false"); ("Default", Node TgAny None [("", Leaf "d")]);
         ("Disjunction", Node TgPtr None []);
         ("Array", Node TgPtr (Some 1) [("", Node (TgStruct "ArrayType") None
             [("ValueType", Node (TgStruct "Type") None
                [("Kind", Leaf "ref"); ("Nullable", Leaf "true"); ("Default", Node TgAny None []);
                 ("Disjunction", Node TgPtr None []); ("Array", Node TgPtr None []); ("Enum", Node TgPtr None []);
                 ("Map", Node TgPtr None []); ("Struct", Node TgPtr None []);
                 ("Ref", Node TgPtr (Some 2) [("", Node (TgStruct "RefType") None [("ReferredPkg", Leaf "p"); ("ReferredType", Leaf "X")])]);
                 ("ConstantReference", Node TgPtr None []); ("Scalar", Node TgPtr None []);
                 ("Intersection", Node TgPtr None []); ("ComposableSlot", Node TgPtr None []);
                 ("Hints", Node TgMap (Some 3) [("h", Node TgAny None [("", Leaf "v")])]);
                 ("PassesTrail", Node TgSlice (Some 4) [("", Leaf "t")])])])]);
         ("Enum", Node TgPtr None []); ("Map", Node TgPtr None []); ("Struct", Node TgPtr None []);
         ("Ref", Node TgPtr None []); ("ConstantReference", Node TgPtr None []); ("Scalar", Node TgPtr None []);
         ("Intersection", Node TgPtr None []); ("ComposableSlot", Node TgPtr None []);
         ("Hints", Node TgMap None []); ("PassesTrail", Node TgSlice None [])])]%string.
Example c18_nonvacuous :
  has_copy copy_spec "Argument" = true /\ wt decls (GNamed "Argument") c18_value = true /\
  Forall (fun l => l < OFF) (locs c18_value) /\ locs c18_value = [1; 2; 3; 4] /\
  locs (copy decls copy_spec OFF (GNamed "Argument") Call c18_value) = [1 + OFF; 2 + OFF; 3 + OFF; 4 + OFF].
Proof.
  split; [reflexivity|]. split; [vm_compute; reflexivity|]. split.
  - vm_compute. repeat constructor.
  - split; vm_compute; reflexivity.
Qed.
