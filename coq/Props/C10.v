(* C10 — default constructors yield the schema's defaults and constants, in Go and in Python.
   Statements only.
     go_ctor ctx p n  : json.Marshal(New<n>()) as a function of the post-chain IR the Go jenny receives
                        (Model/Ctor.v: generateConstructor / defaultsForStruct / formatScalar / maybeValueAsPointer);
                        COk json | CNoCompile (the printed literal does not type-check: no constructor) | CUnm
     py_ctor pctx p n : json.dumps(<n>(), cls=JSONEncoder) as a function of the post-chain IR of the Python jenny
                        (Model/PySem.v: generateInitMethod / defaultValueForType / formatValue, encoder)
     fe_value, fe_default : what each front-end stores in Type.Default, with its dynamic Go type (Model/Ctor.v)
     process chain_go / chain_python : the compiler-pass chains (Gen/Chains_gen.v, regenerated from the source)
   declared_dyn, simple_field, simple_fields_hold, all_declared_hold, fits_scalar, gscalar_holds,
   plain_struct_object: Model/CtorSpec.v.

   The full statements are refuted by the faithful model (witnesses = the known findings); what IS proved:
   the constructors of both languages hold every declared value of the `simple` fields (bool, string, integer
   and float scalars, constants, lists of strings, with a default free of json.Number), at any position of
   any struct, and therefore agree on them; a scalar default that fits its field arrives unaltered from each of
   the three formats (JSON Schema: since the fixes that unwrap json.Number in walkNumber and walkList). *)
From Coq Require Import List String ZArith Bool.
From Cog Require Import Model.IR Model.Json Model.GoSemBase Model.GoSemDecode Model.Ctor Model.PySem Model.CtorSpec
  Model.Passes Model.PassesChain Model.Process Gen.Chains_gen Model.FrontEndChainSpec Proofs.CtorProofs Proofs.CtorEnumProofs Proofs.CtorChainProofs.
Import ListNotations.
Local Open Scope string_scope.

(* ---- Go ---- *)
Definition ctor_defaults_go_statement : Prop :=
  forall ctx p n fs j, plain_struct_object ctx p n = Some fs -> go_ctor ctx p n = COk j -> all_declared_hold fs j = true.

(* refuted on the IR level: a default carried by a reference to a disjunction struct is printed as `T{}` *)
Theorem ctor_defaults_go_refuted : ~ ctor_defaults_go_statement.
Proof. exact CtorProofs.ctor_defaults_go_refuted. Qed.
Print Assumptions ctor_defaults_go_refuted.

(* refuted through the real pass chain: the default of a union (DisjunctionToType) is gone when the Go jenny runs
   (that of an anonymous enumeration is kept since /repo 4d29ba4: ctor_defaults_go_chain_enum_witness below) *)
Definition ctor_defaults_go_chain_statement : Prop :=
  forall pre post p n fs j, process chain_go pre = Ok post -> plain_struct_object pre p n = Some fs ->
    go_ctor post p n = COk j -> all_declared_hold fs j = true.
Theorem ctor_defaults_go_chain_refuted : ~ ctor_defaults_go_chain_statement.
Proof. exact CtorProofs.ctor_defaults_go_chain_refuted. Qed.
Print Assumptions ctor_defaults_go_chain_refuted.

(* a list default of non-strings: `[]string{1, 2}` does not type-check, the package has no constructor *)
Theorem go_list_default_does_not_compile :
  go_ctor wit_go_list "w" "Root" = CNoCompile "[]string literal assigned to another slice type" /\
  py_ctor wit_go_list "w" "Root" = POk (JObj [("l", JArr [JNum 1 0; JNum 2 0])]).
Proof. exact CtorProofs.go_list_default_does_not_compile. Qed.
Print Assumptions go_list_default_does_not_compile.

Theorem ctor_defaults_go_partial : forall ctx p n fs j,
  plain_struct_object ctx p n = Some fs -> go_ctor ctx p n = COk j -> simple_fields_hold fs j = true.
Proof. exact CtorProofs.ctor_defaults_go_partial. Qed.
Print Assumptions ctor_defaults_go_partial.

(* ... and a simple field never keeps the package from compiling *)
Theorem simple_fields_compile : forall ctx dfs fld, simple_field fld = true ->
  exists x, go_field_value ctx dfs [] fld = COk x.
Proof. exact CtorProofs.simple_fields_compile. Qed.
Print Assumptions simple_fields_compile.

(* ---- Python ---- *)
Definition ctor_defaults_py_statement : Prop :=
  forall pctx p n fs j, plain_struct_object pctx p n = Some fs -> py_ctor pctx p n = POk j -> all_declared_hold fs j = true.

(* refuted: a default carried by a reference to a scalar alias is ignored (`Name()` is printed) *)
Theorem ctor_defaults_py_refuted : ~ ctor_defaults_py_statement.
Proof. exact CtorProofs.ctor_defaults_py_refuted. Qed.
Print Assumptions ctor_defaults_py_refuted.

Theorem ctor_defaults_py_partial : forall pctx p n fs j,
  plain_struct_object pctx p n = Some fs -> py_ctor pctx p n = POk j -> simple_fields_hold fs j = true.
Proof. exact CtorProofs.ctor_defaults_py_partial. Qed.
Print Assumptions ctor_defaults_py_partial.

(* ---- extension: references to enumerations (what chain_go makes of an anonymous enumeration) ----
   held_field ctx fld = simple_field fld || enumref_field ctx fld, where enumref_field asks for a reference to an
   enumeration object whose default IS one of the members (same dynamic Go type and value); held_expected is the
   declared value, resp. the selected member's value (Proofs/CtorEnumProofs.v). *)
Theorem ctor_defaults_go_partial_enum : forall ctx p n fs j,
  plain_struct_object ctx p n = Some fs -> go_ctor ctx p n = COk j -> held_fields_hold ctx fs j = true.
Proof. exact CtorEnumProofs.ctor_defaults_go_partial_enum. Qed.
Print Assumptions ctor_defaults_go_partial_enum.

Theorem ctor_defaults_py_partial_enum : forall pctx p n fs j,
  plain_struct_object pctx p n = Some fs -> py_ctor pctx p n = POk j -> held_fields_hold pctx fs j = true.
Proof. exact CtorEnumProofs.ctor_defaults_py_partial_enum. Qed.
Print Assumptions ctor_defaults_py_partial_enum.

(* through the REAL chain_go: the pass keeps the default on the reference it creates, and on the witness schema
   (`en: *"h" | "v"`, `un: string | bool | *"x"`) the post-chain field `en` is an enumref_field whose default NewRoot()
   holds, while the union's default is still lost *)
Theorem aete_keeps_default : forall spkg pkg cur sug a vs,
  fst (aete_type spkg pkg cur sug (TEnum a vs)) = TRef (mk_attrs (nullable a) (dflt a) []) spkg (upper_camel_case sug).
Proof. exact CtorEnumProofs.aete_keeps_default. Qed.
Print Assumptions aete_keeps_default.

Theorem ctor_defaults_go_chain_enum_witness :
  process chain_go wit_pre = Ok wit_gpost /\
  (exists fs, plain_struct_object wit_gpost "w" "Root" = Some fs /\
              existsb (fun fld => (seqb (f_name fld) "en" && enumref_field wit_gpost fld)%bool) fs = true) /\
  go_ctor wit_gpost "w" "Root" = COk wit_go_json /\
  holds_member wit_go_json "en" (JStr "h") = true /\
  holds_member wit_go_json "un" (JStr "x") = false.
Proof. exact CtorEnumProofs.ctor_defaults_go_chain_enum_witness. Qed.
Print Assumptions ctor_defaults_go_chain_enum_witness.

(* ---- THROUGH the real chains, for EVERY context of the leafy fragment (Model/FrontEndChainSpec.v ctx_leafy: struct
   objects whose fields are scalars / references / arrays / maps with ANY attributes, defaults and constants
   included).  On it chain_go and chain_python compute nrfn_only (only NotRequiredFieldAsNullableType acts:
   Proofs/FrontEndChainPasses.v chain_go_leafy, Proofs/CtorChainProofs.v chain_python_leafy), and the constructors over
   the post-chain context hold every declared value of the PRE-chain simple fields
   (pre_simple_field fld = simple_field (nrfn_field fld): simple once optional fields are nullable). ---- *)
Theorem chain_python_leafy : forall ctx, ctx_leafy ctx = true -> process chain_python ctx = Ok (nrfn_only ctx).
Proof. exact CtorChainProofs.chain_python_leafy. Qed.
Print Assumptions chain_python_leafy.

Theorem ctor_defaults_go_chain_partial : forall ctx out p n fs j,
  ctx_leafy ctx = true -> process chain_go ctx = Ok out -> plain_struct_object ctx p n = Some fs ->
  go_ctor out p n = COk j -> pre_simple_fields_hold fs j = true.
Proof. exact CtorChainProofs.ctor_defaults_go_chain_partial. Qed.
Print Assumptions ctor_defaults_go_chain_partial.

Theorem ctor_defaults_py_chain_partial : forall ctx out p n fs j,
  ctx_leafy ctx = true -> process chain_python ctx = Ok out -> plain_struct_object ctx p n = Some fs ->
  py_ctor out p n = POk j -> pre_simple_fields_hold fs j = true.
Proof. exact CtorChainProofs.ctor_defaults_py_chain_partial. Qed.
Print Assumptions ctor_defaults_py_chain_partial.

Theorem go_py_agree_chain_partial : forall ctx gout pout p n fs a b,
  ctx_leafy ctx = true -> process chain_go ctx = Ok gout -> process chain_python ctx = Ok pout ->
  plain_struct_object ctx p n = Some fs -> go_ctor gout p n = COk a -> py_ctor pout p n = POk b ->
  simple_fields_agree (map nrfn_field fs) a b = true.
Proof. exact CtorChainProofs.go_py_agree_chain_partial. Qed.
Print Assumptions go_py_agree_chain_partial.

Theorem simple_field_pre : forall fld, simple_field fld = true -> pre_simple_field fld = true.
Proof. exact CtorChainProofs.simple_field_pre. Qed.
Print Assumptions simple_field_pre.

(* ---- END TO END for scalar fields of plain structs, from each of the three formats: the value j declared in the
   source schema (stored by the front-end as fe_value fmt numtext j: Model/Ctor.v, validated against the real
   front-ends) is the value both constructors hold after the real chains.
   fe_scalar_field fmt numtext fld j := exists a k cs, f_type fld = TScalar a k DNil cs /\ dflt a = fe_value fmt numtext j /\
     scalar_json_value j = true /\ fits_scalar k j = true /\ is_datetime (f_type fld) = false /\ k is bool/string/int/float ---- *)
Theorem c10_end_to_end_scalars_go : forall fmt numtext ctx out p n fs fld j oj,
  numtext_ok numtext -> ctx_leafy ctx = true -> process chain_go ctx = Ok out ->
  plain_struct_object ctx p n = Some fs -> In fld fs -> fe_scalar_field fmt numtext fld j ->
  go_ctor out p n = COk oj -> holds_member oj (f_name fld) j = true.
Proof. exact CtorChainProofs.c10_end_to_end_scalars_go. Qed.
Print Assumptions c10_end_to_end_scalars_go.

Theorem c10_end_to_end_scalars_py : forall fmt numtext ctx out p n fs fld j oj,
  numtext_ok numtext -> ctx_leafy ctx = true -> process chain_python ctx = Ok out ->
  plain_struct_object ctx p n = Some fs -> In fld fs -> fe_scalar_field fmt numtext fld j ->
  py_ctor out p n = POk oj -> holds_member oj (f_name fld) j = true.
Proof. exact CtorChainProofs.c10_end_to_end_scalars_py. Qed.
Print Assumptions c10_end_to_end_scalars_py.

Example c10_chain_nonvacuous :
  ctx_leafy nv_ctx = true /\
  (exists fs, plain_struct_object nv_ctx "w" "Root" = Some fs /\ List.length (filter pre_simple_field fs) >= 6) /\
  (exists out j, process chain_go nv_ctx = Ok out /\ go_ctor out "w" "Root" = COk j /\
                 j = JObj [("b", JBool true); ("i", JNum 7 0); ("f", JNum 15 (-1)); ("s", JStr "x"); ("k", JStr "fixed");
                           ("l", JArr [JStr "a"; JStr "b"])]) /\
  (exists out j, process chain_python nv_ctx = Ok out /\ py_ctor out "w" "Root" = POk j /\
                 holds_member j "i" (JNum 7 0) = true /\ holds_member j "s" (JStr "x") = true).
Proof. exact CtorChainProofs.c10_chain_nonvacuous. Qed.

(* ---- the two languages agree ---- *)
Definition go_py_agree_statement : Prop :=
  forall pre gpost ppost p n fs a b,
    process chain_go pre = Ok gpost -> process chain_python pre = Ok ppost -> plain_struct_object pre p n = Some fs ->
    go_ctor gpost p n = COk a -> py_ctor ppost p n = POk b -> declared_agree fs a b = true.

(* refuted: Go returns "" / null where Python returns the declared enum member / union value *)
Theorem go_py_agree_refuted : ~ go_py_agree_statement.
Proof. exact CtorProofs.go_py_agree_refuted. Qed.
Print Assumptions go_py_agree_refuted.

Theorem go_py_agree_partial : forall ctx pctx p n fs a b,
  plain_struct_object ctx p n = Some fs -> plain_struct_object pctx p n = Some fs ->
  go_ctor ctx p n = COk a -> py_ctor pctx p n = POk b -> simple_fields_agree fs a b = true.
Proof. exact CtorProofs.go_py_agree_partial. Qed.
Print Assumptions go_py_agree_partial.

(* ---- a default the source schema accepts is not altered, re-typed or dropped: per input format ---- *)
(* scalars, all three formats (JSON Schema since numeric defaults are unwrapped from json.Number) *)
Theorem default_not_altered_scalars : forall fmt numtext pt k j,
  numtext_ok numtext -> scalar_json_value j = true -> fits_scalar k j = true -> is_datetime pt = false ->
  (exists v, assign_scalar pt k (format_scalar (fe_value fmt numtext j)) = COk v /\ gscalar_holds v j = true) /\
  py_lit_json (fe_value fmt numtext j) = POk j.
Proof. exact CtorProofs.default_not_altered_scalars. Qed.
Print Assumptions default_not_altered_scalars.

(* refuted for LIST defaults of numbers, in every format: Go rejects the []string{...} literal *)
Theorem default_not_altered_lists_refuted_go : forall fmt numtext m e a,
  exists w, assign (TArray a (TScalar attrs0 KInt64 DNil [])) (format_scalar (fe_value fmt numtext (JArr [JNum m e]))) = CNoCompile w.
Proof. exact CtorProofs.go_list_of_numbers_does_not_compile. Qed.
Print Assumptions default_not_altered_lists_refuted_go.

(* dropped before any jenny runs *)
Theorem defaults_dropped_by_front_ends : forall numtext j,
  fe_default "jsonschema" "enum" numtext j = DNil /\ fe_default "jsonschema" "union" numtext j = DNil /\
  fe_default "jsonschema" "struct" numtext j = DNil /\
  fe_default "openapi" "union" numtext j = DNil /\ fe_default "openapi" "struct" numtext j = DNil.
Proof. exact CtorProofs.defaults_dropped_by_front_ends. Qed.
Print Assumptions defaults_dropped_by_front_ends.

Example c10_nonvacuous :
  exists ctx p n fs a b,
    plain_struct_object ctx p n = Some fs /\ go_ctor ctx p n = COk a /\ py_ctor ctx p n = POk b /\
    List.length (filter simple_field fs) >= 3 /\ simple_fields_hold fs a = true /\ simple_fields_hold fs b = true.
Proof. exact CtorProofs.c10_nonvacuous. Qed.
