(* C08 — generated Validate() and strict decoding reject exactly what the schema forbids.
   Statements only.  Models: Model/GoSemValidate.v (struct_validation_method.tmpl), Model/GoSemStrict.v
   (struct.strict.json_unmarshal.tmpl and the two disjunction variants); specifications:
   Model/GoSemSpec08.v (`violations`: every constraint, at any depth, through any reference;
   `strict_ok`: the property's four conditions, recursively), Model/GoSemSpec01.v (`roundtrip_safe`).
   Every full statement the faithful model refutes is kept, with its refutation (the witness is a
   defect of the generated code or a corner of the model named in the comment) and the proved partial
   version under explicit boolean side conditions:
     ctx_alias_free ctx    no constraint is reachable from an object that is not a struct   (Model/GoSemSpec08.v)
     ctx_cdirect ctx       every constant reference names an enum object directly          (Model/GoSemSpec08F.v)
     ctx_named ctx         no struct field is named ""                                      (Model/GoSemSpec08F.v)
     ctx_unions_flat ctx   array / map branches of a union of scalars hold scalars          (Model/GoSemSpec08F.v)
     roundtrip_safe        the document avoids the three strict-decoder defects             (Model/GoSemSpec01.v)
     is_unmodelled _ = false   the model has an answer (inline struct fields have no template case). *)
From Coq Require Import List String ZArith Bool.
From Cog Require Import Model.GoSem Model.GoSemSpec08 Model.GoSemSpec08F Model.GoSemSpec01 Proofs.GoSemC08Proofs
     Model.Src Model.FrontEnd Model.FrontEndSpec Proofs.FrontEndWitness Proofs.FrontEndFields Model.FrontEndSpecOA Proofs.FrontEndOA.
Import ListNotations.
Local Open Scope string_scope.

(* a value of a struct object of a supported context *)
Definition typed_obj (ctx : schemas) (p n : string) (v : gval) : Prop :=
  ctx_supported ctx = true /\ struct_object ctx p n = true /\ wt ctx (TRef attrs0 p n) v = true.

(* ---- Validate(): every reported path is the path of a violated constraint ---- *)
Definition validate_reports_only_violations_statement : Prop :=
  forall ctx p n v q, typed_obj ctx p n v ->
    In q (validate_object ctx p n v) -> In q (violations_object ctx p n v).
(* refuted only by a field named "": MakeBuildErrors("", err) prints ".n" where the field path is "n" *)
Theorem validate_reports_only_violations_refuted : ~ validate_reports_only_violations_statement.
Proof. exact GoSemC08Proofs.validate_reports_only_violations_refuted. Qed.
Print Assumptions validate_reports_only_violations_refuted.
Theorem validate_reports_only_violations_partial : forall ctx p n v q, typed_obj ctx p n v -> ctx_named ctx = true ->
  In q (validate_object ctx p n v) -> In q (violations_object ctx p n v).
Proof. exact GoSemC08Proofs.validate_reports_only_violations_weak. Qed.
Print Assumptions validate_reports_only_violations_partial.

(* ---- Validate() returns an error iff a constraint is violated ---- *)
Definition validate_iff_statement : Prop :=
  forall ctx p n v, typed_obj ctx p n v ->
    (validate_object ctx p n v = [] <-> violations_object ctx p n v = []).
(* refuted: a constraint behind a scalar alias (Name: string minLength 3; id: Name; "ab") is never checked *)
Theorem validate_iff_refuted : ~ validate_iff_statement.
Proof. exact GoSemC08Proofs.validate_iff_refuted. Qed.
Print Assumptions validate_iff_refuted.
(* when nothing constrained sits behind a non-struct object, Validate reports EXACTLY the violations, with
   their paths, at any depth (arrays, maps, pointers, referenced and union-branch structs) *)
Theorem validate_iff_partial : forall ctx p n v, typed_obj ctx p n v ->
  ctx_alias_free ctx = true -> ctx_named ctx = true -> ctx_cdirect ctx = true ->
  validate_object ctx p n v = violations_object ctx p n v.
Proof. exact GoSemC08Proofs.validate_iff_partial_weak. Qed.
Print Assumptions validate_iff_partial.

(* ---- the strict decoder accepts iff the four conditions hold ---- *)
Definition strict_iff_statement : Prop :=
  forall ctx p n d, ctx_supported ctx = true -> struct_object ctx p n = true ->
    ((exists v, strict_object ctx p n d = GOk v) <-> strict_ok_object ctx p n d = true).
(* refuted: a map of maps of structs is rejected whatever it holds (the template reads a shadowed variable) *)
Theorem strict_iff_refuted : ~ strict_iff_statement.
Proof. exact GoSemC08Proofs.strict_iff_refuted. Qed.
Print Assumptions strict_iff_refuted.

(* soundness: what the strict decoder accepts meets the four conditions *)
Definition strict_accepts_only_ok_statement : Prop :=
  forall ctx p n d v, ctx_supported ctx = true -> struct_object ctx p n = true ->
    json_wf d = true -> json_null_free d = true ->
    strict_object ctx p n d = GOk v -> strict_ok_object ctx p n d = true.
(* refuted: the branches of a union of scalars are tried with the LENIENT decoder, so an array-of-structs
   branch accepts undeclared members *)
Theorem strict_accepts_only_ok_refuted : ~ strict_accepts_only_ok_statement.
Proof. exact GoSemC08Proofs.strict_accepts_only_ok_partial_refuted. Qed.
Print Assumptions strict_accepts_only_ok_refuted.
Theorem strict_accepts_only_ok_partial : forall ctx p n d v, ctx_supported ctx = true -> struct_object ctx p n = true ->
  json_wf d = true -> json_null_free d = true -> ctx_unions_flat ctx = true ->
  strict_object ctx p n d = GOk v -> strict_ok_object ctx p n d = true.
Proof. exact GoSemC08Proofs.strict_accepts_only_ok_partial_weak. Qed.
Print Assumptions strict_accepts_only_ok_partial.

(* completeness: a document meeting the four conditions is accepted, outside the listed defects *)
Theorem strict_rejects_only_bad_partial : forall ctx p n d, ctx_supported ctx = true -> struct_object ctx p n = true ->
  json_wf d = true -> json_null_free d = true -> roundtrip_safe ctx p n d = true ->
  strict_ok_object ctx p n d = true -> is_unmodelled (strict_object ctx p n d) = false ->
  exists v, strict_object ctx p n d = GOk v.
Proof. exact GoSemC08Proofs.strict_rejects_only_bad_partial_weak. Qed.
Print Assumptions strict_rejects_only_bad_partial.

(* non-vacuity: a typed value of a context meeting every side condition, with a violation below the top level;
   and a document meeting the hypotheses of both strict-decoder theorems *)
Example c08_nonvacuous : exists ctx p n v, typed_obj ctx p n v /\ ctx_alias_free ctx = true /\
  ctx_named ctx = true /\ ctx_cdirect ctx = true /\ violations_object ctx p n v <> [].
Proof. exact GoSemC08Proofs.c08_nonvacuous_weak. Qed.

(* ---------------- "what the schema forbids" = "what the IR forbids": the JSON Schema front-end keeps the
   constraints (Model/FrontEnd.v parse_jsonschema, compared with the real parser on every run).
   field_kept s obj f: bounds, lengths, required-ness and nullability of member f of definition obj appear on the
   corresponding field of the parsed IR. ---------------- *)
Theorem parse_jsonschema_keeps_constraints_refuted_full :
  ~ (forall s obj fs f, src_wf s = true -> In (obj, SStruct fs) (src_defs s) -> In f fs -> field_kept s obj f = true).
Proof. exact parse_jsonschema_keeps_constraints_refuted. Qed.
Print Assumptions parse_jsonschema_keeps_constraints_refuted_full.
(* the only shape that loses its constraints is the constrained `[T, "null"]` type array (open finding
   C08-jsonschema-nullable-scalar-type-array-drops-constraints); field_union_plain excludes a one-branch union,
   an artefact of the specification, not of cog *)
Theorem parse_jsonschema_keeps_constraints_partial :
  forall s obj fs f, src_wf s = true -> In (obj, SStruct fs) (src_defs s) -> In f fs ->
    (sf_nullta f = false \/ src_constraints (sf_type f) = []) -> field_union_plain f = true ->
    field_kept s obj f = true.
Proof. exact parse_jsonschema_keeps_constraints_partial_weak. Qed.
Print Assumptions parse_jsonschema_keeps_constraints_partial.
(* OpenAPI: every member keeps its constraints, required-ness and nullability, no exclusion *)
Theorem parse_openapi_keeps_constraints :
  forall s obj fs f, src_wf_oa s = true -> In (obj, SStruct fs) (src_defs s) -> In f fs -> oa_field_kept s obj f = true.
Proof. exact parse_openapi_keeps_constraints_partial. Qed.
Print Assumptions parse_openapi_keeps_constraints.
