(* C08 — generated Validate() and strict decoding reject exactly what the schema forbids.
   Statements only.  Models: Model/GoSemValidate.v (struct_validation_method.tmpl), Model/GoSemStrict.v
   (struct.strict.json_unmarshal.tmpl and the two disjunction variants); specifications:
   Model/GoSemSpec08.v (`violations`, `strict_ok`), Model/GoSemSpec01.v (`roundtrip_safe`). *)
From Coq Require Import List String ZArith Bool.
From Cog Require Import Model.GoSem Model.GoSemSpec08 Model.GoSemSpec01 Proofs.GoSemC08Proofs.
Import ListNotations.
Local Open Scope string_scope.

(* a value of a struct object of a supported context *)
Definition typed_obj (ctx : schemas) (p n : string) (v : gval) : Prop :=
  ctx_supported ctx = true /\ struct_object ctx p n = true /\ wt ctx (TRef attrs0 p n) v = true.

(* ---- Validate(): every reported path is the path of a violated constraint (holds in full) ---- *)
Theorem validate_reports_only_violations : forall ctx p n v q, typed_obj ctx p n v ->
  In q (validate_object ctx p n v) -> In q (violations_object ctx p n v).
Proof. exact GoSemC08Proofs.validate_reports_only_violations. Qed.
Print Assumptions validate_reports_only_violations.

(* ---- Validate() returns an error iff a constraint is violated ---- *)
Definition validate_iff_statement : Prop :=
  forall ctx p n v, typed_obj ctx p n v ->
    (validate_object ctx p n v = [] <-> violations_object ctx p n v = []).
(* refuted: a constraint behind a scalar alias (Name: string minLength 3; id: Name; "ab") is never checked *)
Theorem validate_iff_refuted : ~ validate_iff_statement.
Proof. exact GoSemC08Proofs.validate_iff_refuted. Qed.
Print Assumptions validate_iff_refuted.
(* when no constraint sits behind a non-struct object, Validate reports exactly the violations, with their paths *)
Theorem validate_iff_partial : forall ctx p n v, typed_obj ctx p n v -> ctx_alias_free ctx = true ->
  validate_object ctx p n v = violations_object ctx p n v.
Proof. exact GoSemC08Proofs.validate_iff_partial. Qed.
Print Assumptions validate_iff_partial.

(* ---- the strict decoder accepts iff the four conditions hold ---- *)
Definition strict_iff_statement : Prop :=
  forall ctx p n d, ctx_supported ctx = true -> struct_object ctx p n = true ->
    ((exists v, strict_object ctx p n d = GOk v) <-> strict_ok_object ctx p n d = true).
(* refuted: a map of maps of structs is rejected whatever it holds (the template reads a shadowed variable) *)
Theorem strict_iff_refuted : ~ strict_iff_statement.
Proof. exact GoSemC08Proofs.strict_iff_refuted. Qed.
Print Assumptions strict_iff_refuted.
(* soundness: what the strict decoder accepts meets the four conditions (documents without null / duplicate names) *)
Theorem strict_accepts_only_ok_partial : forall ctx p n d v, ctx_supported ctx = true -> struct_object ctx p n = true ->
  json_wf d = true -> json_null_free d = true ->
  strict_object ctx p n d = GOk v -> strict_ok_object ctx p n d = true.
Proof. exact GoSemC08Proofs.strict_accepts_only_ok_partial. Qed.
Print Assumptions strict_accepts_only_ok_partial.
(* completeness: a document meeting the four conditions is accepted, outside the listed defects *)
Theorem strict_rejects_only_bad_partial : forall ctx p n d, ctx_supported ctx = true -> struct_object ctx p n = true ->
  json_wf d = true -> json_null_free d = true -> roundtrip_safe ctx p n d = true ->
  strict_ok_object ctx p n d = true -> exists v, strict_object ctx p n d = GOk v.
Proof. exact GoSemC08Proofs.strict_rejects_only_bad_partial. Qed.
Print Assumptions strict_rejects_only_bad_partial.

Example c08_nonvacuous : exists ctx p n v, typed_obj ctx p n v /\ ctx_alias_free ctx = true /\
  violations_object ctx p n v <> [].
Proof. exact GoSemC08Proofs.c08_nonvacuous. Qed.
