(* C16 — builders are derived completely and type-correctly from the schemas.
   Statements only; each closed by `exact <lemma>`; Print Assumptions under each. *)
From Coq Require Import List String Bool.
From Cog Require Import Model.IR Model.Builders Model.BuildersEq Model.Spec16 Proofs.C16Proofs.
Import ListNotations.

(* For ALL schema sets on which the derivation succeeds (no alias cycle, no dangling alias):
   exactly the objects that are structs — directly or through a chain of references — get a
   builder, one each, in object order (struct_objects), and in every builder every field of the
   resolved struct is covered exactly once, in field order (covered): by one option whose single
   argument has the field's name, type and default and whose single direct assignment targets
   the one-item path of that field with the field's scalar constraints — or, when the schema
   fixes the value, by a constructor constant (concrete scalar; required non-nullable reference
   to a constant) or by nothing (constant reference) — with no option, argument, property or
   factory left over.  `builders_ok` (Model/Spec16.v) is that statement as a decidable checker;
   it is the predicate the correspondence evaluates on the real FromAST's output. *)
Theorem from_ast_builders_ok : forall ss bs, from_ast ss = Ok bs -> builders_ok ss bs = true.
Proof. exact from_ast_builders_ok_proof. Qed.
Print Assumptions from_ast_builders_ok.

Theorem builder_count : forall ss bs, from_ast ss = Ok bs ->
  List.length bs = List.length (struct_objects ss).
Proof. exact builder_count_proof. Qed.
Print Assumptions builder_count.

(* per field: the role FromAST gives a field is the one the schema dictates *)
Theorem role_matches_schema : forall ss f r, field_role_of (res_fuel ss) ss f = Ok r ->
  match fixed_value ss f, r with
  | None, RoleOption o => option_covers f o = true
  | Some None, RoleNothing => True
  | Some (Some v), RoleConstant a => constant_covers f v a = true
  | _, _ => False
  end.
Proof. exact role_matches_fixed. Qed.
Print Assumptions role_matches_schema.

(* non-vacuity: an alias of a struct with a constant, a constant reference, a constrained and a
   defaulted field *)
Local Open Scope string_scope.
Definition c16_example : schemas :=
  [mkSchema "p" {| m_kind := "" ; m_variant := "" ; m_identifier := "" |} "" ty_zero
     [("S", mkObject "S" [] (TStruct A0 [] [
          mkField "kind" [] (TScalar A0 KString (DStr "k") []) true;
          mkField "c" [] (TConstRef A0 "p" "E" (DStr "a")) true;
          mkField "n" [] (TScalar {| nullable := false ; dflt := DInt "int64" 3 ; hints := [] |} KInt64 DNil
                                  [{| c_op := ">=" ; c_args := [DInt "int64" 1] |}]) false;
          mkField "k2" [] (TRef A0 "p" "K") true]) "p" "S");
      ("Alias", mkObject "Alias" [] (TRef A0 "p" "S") "p" "Alias");
      ("K", mkObject "K" [] (TScalar A0 KString (DStr "fixed") []) "p" "K");
      ("E", mkObject "E" [] (TEnum A0 [mkEnumVal (TScalar A0 KString DNil []) "a" (DStr "a")]) "p" "E")]].
Example c16_nonvacuous :
  exists bs, from_ast c16_example = Ok bs /\ List.length bs = 2 /\
             map (fun b => (List.length (b_options b), List.length (ct_assignments (b_ctor b)))) bs = [(1, 2); (1, 2)].
Proof. eexists. vm_compute. repeat split. Qed.
