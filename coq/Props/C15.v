(* C15 — schema transformations have their documented effect and touch nothing else.
   Statements only; each closed by `exact <lemma>`; Print Assumptions under each.
   `wf_schema`: object keys are the object names and are unique (what every front-end builds). *)
From Coq Require Import List String Bool.
From Cog Require Import Model.IR Model.Passes Model.Process Model.Spec15 Proofs.PassLemmas Proofs.C15Proofs.
Import ListNotations.

(* The object-local transformations (omit_fields, retype_object, retype_field,
   fields_set_required, fields_set_not_required, fields_set_default, hint_object,
   append_comment_objects), for ALL schemas and parameters: *)

(* ... are a map over the objects: package, metadata, entry point, keys and ORDER unchanged, *)
Theorem local_pass_is_map : forall p g ss,
  local_fn p = Some g -> Forall wf_schema ss -> run_pass p ss = Ok (map_objects g ss).
Proof. exact local_pass_is_map_proof. Qed.
Print Assumptions local_pass_is_map.

(* ... an object the selector does not name (package exact, name case-insensitive) is returned
   identical — comments, defaults, hints, fields and their order included, *)
Theorem local_untargeted_unchanged : forall p g o,
  local_fn p = Some g -> targets_object p o = false -> g o = o.
Proof. exact local_untargeted_unchanged_proof. Qed.
Print Assumptions local_untargeted_unchanged.

(* ... no object is renamed or moved to another package, *)
Theorem local_preserves_identity : forall p g o, local_fn p = Some g ->
  o_name (g o) = o_name o /\ o_selfpkg (g o) = o_selfpkg o /\ o_selfname (g o) = o_selfname o.
Proof. exact local_preserves_identity_proof. Qed.
Print Assumptions local_preserves_identity.

(* ... hence the frame condition on whole schema sets, and well-formedness is kept, *)
Theorem local_frame : forall p g ss ss',
  local_fn p = Some g -> Forall wf_schema ss -> run_pass p ss = Ok ss' ->
  Forall2 (schema_frame p) ss ss' /\ Forall wf_schema ss'.
Proof. exact local_frame_proof. Qed.
Print Assumptions local_frame.

(* ... and a transformation whose target does not exist leaves the schemas unchanged. *)
Theorem local_absent_identity : forall p g ss,
  local_fn p = Some g -> Forall wf_schema ss ->
  (forall s ko, In s ss -> In ko (s_objects s) -> targets_object p (snd ko) = false) ->
  run_pass p ss = Ok ss.
Proof. exact local_absent_identity_proof. Qed.
Print Assumptions local_absent_identity.

(* For every SEQUENCE of object-local transformations: an object none of them names is
   identical, under the same key at the same position, at the end. *)
Theorem sequence_frame : forall ps ss ss',
  all_local ps -> Forall wf_schema ss -> process ps ss = Ok ss' ->
  Forall2 (schema_seq_frame ps) ss ss'.
Proof. exact sequence_frame_proof. Qed.
Print Assumptions sequence_frame.

Theorem process_app : forall ps qs ss, process (ps ++ qs) ss = bind (process ps ss) (process qs).
Proof. exact process_app_proof. Qed.
Print Assumptions process_app.

(* field-level effect and frame *)
Theorem fields_set_required_fields : forall req refs o a dh fs,
  o_type o = TStruct a dh fs ->
  exists fs', o_type (fields_set_req_obj req refs o) = TStruct a dh fs' /\
    Forall2 (fun f f' =>
       f_name f' = f_name f /\ f_comments f' = f_comments f /\
       if existsb (fun r => fieldref_matches r o f) refs
       then f_required f' = req /\ f_type f' = set_nullable (f_type f) (negb req)
       else f' = f) fs fs'.
Proof. exact fields_set_required_fields_proof. Qed.
Print Assumptions fields_set_required_fields.

Theorem omit_fields_fields : forall refs o a dh fs,
  o_type o = TStruct a dh fs ->
  o_type (omit_fields_obj refs o)
  = TStruct a dh (filter (fun f => negb (existsb (fun r => fieldref_matches r o f) refs)) fs).
Proof. exact omit_fields_fields_proof. Qed.
Print Assumptions omit_fields_fields.

Theorem retype_field_fields : forall r as_ c o fs,
  (forall f, In f fs -> fieldref_matches r o f = false) /\ retype_first o r as_ c fs = fs
  \/ exists pre f post, fs = pre ++ f :: post /\
       (forall g, In g pre -> fieldref_matches r o g = false) /\ fieldref_matches r o f = true /\
       retype_first o r as_ c fs
       = pre ++ mkField (f_name f) (match c with Some x => x | None => f_comments f end) as_ (f_required f) :: post.
Proof. exact retype_field_fields_proof. Qed.
Print Assumptions retype_field_fields.

(* omit *)
Theorem omit_exact : forall refs ss,
  omit refs ss = map (fun s => set_objects s (filter (fun ko => negb (objrefs_match refs (snd ko))) (s_objects s))) ss.
Proof. exact omit_exact_proof. Qed.
Print Assumptions omit_exact.
Theorem omit_absent_identity : forall refs ss,
  (forall s ko, In s ss -> In ko (s_objects s) -> objrefs_match refs (snd ko) = false) ->
  run_pass (POmit refs) ss = Ok ss.
Proof. exact omit_absent_identity_proof. Qed.
Print Assumptions omit_absent_identity.

(* add_object / duplicate_object *)
Theorem add_object_fresh : forall pkg obj as_ c s,
  s_pkg s = pkg -> ~ In obj (map fst (s_objects s)) ->
  s_objects (register_objects s [mkObject obj c as_ pkg obj]) = s_objects s ++ [(obj, mkObject obj c as_ pkg obj)].
Proof. exact add_object_fresh_proof. Qed.
Print Assumptions add_object_fresh.
Theorem add_object_absent_identity : forall pkg obj as_ c ss,
  (forall s, In s ss -> s_pkg s <> pkg) -> run_pass (PAddObject pkg obj as_ c) ss = Ok ss.
Proof. exact add_object_absent_identity_proof. Qed.
Print Assumptions add_object_absent_identity.
Theorem duplicate_absent_identity : forall pkg obj ap ao om ss,
  locate_object ss pkg obj = None -> run_pass (PDuplicateObject pkg obj ap ao om) ss = Ok ss.
Proof. exact duplicate_absent_identity_proof. Qed.
Print Assumptions duplicate_absent_identity.
Theorem duplicate_is_copy : forall pkg obj ap ao ss src,
  locate_object ss pkg obj = Some src ->
  run_pass (PDuplicateObject pkg obj ap ao []) ss
  = Ok (map (fun s => if seqb (s_pkg s) ap
                      then register_objects s [mkObject ao (o_comments src) (o_type src) ap ao] else s) ss).
Proof. exact duplicate_is_copy_proof. Qed.
Print Assumptions duplicate_is_copy.

(* schema_set_identifier / schema_set_entry_point *)
Theorem schema_set_identifier_frame : forall pkg id ss,
  Forall2 (fun s s' => s_pkg s' = s_pkg s /\ s_objects s' = s_objects s /\ s_entry s' = s_entry s /\
                       s_entrytype s' = s_entrytype s /\
                       (s_pkg s <> pkg -> s' = s) /\ (s_pkg s = pkg -> m_identifier (s_meta s') = id))
          ss (schema_set_identifier pkg id ss).
Proof. exact schema_set_identifier_frame_proof. Qed.
Print Assumptions schema_set_identifier_frame.
Theorem schema_set_entrypoint_frame : forall pkg ep ss,
  Forall2 (fun s s' => s_pkg s' = s_pkg s /\ s_objects s' = s_objects s /\ s_meta s' = s_meta s /\
                       (s_pkg s <> pkg -> s' = s) /\
                       (s_pkg s = pkg -> s_entry s' = ep /\ s_entrytype s' = TRef A0 pkg ep))
          ss (schema_set_entrypoint pkg ep ss).
Proof. exact schema_set_entrypoint_frame_proof. Qed.
Print Assumptions schema_set_entrypoint_frame.

(* the implementation model does what the documented behaviour (Model/Spec15.v) says, for every
   transformation and every sequence *)
Theorem process_refines_spec : forall ps ss, process ps ss = spec_process ps ss.
Proof. exact process_refines_spec_proof. Qed.
Print Assumptions process_refines_spec.

(* non-vacuity: a concrete three-object schema where selectors match something *)
Example c15_schema : schema :=
  mkSchema "p" {| m_kind := "" ; m_variant := "" ; m_identifier := "" |} "" ty_zero
    [("Foo", mkObject "Foo" ["c"] (TStruct A0 [] [mkField "a" [] (TScalar A0 KString DNil []) false;
                                                   mkField "b" [] (TRef A0 "p" "Bar") true]) "p" "Foo");
     ("Bar", mkObject "Bar" [] (TScalar A0 KInt64 DNil []) "p" "Bar");
     ("Baz", mkObject "Baz" [] (TEnum A0 []) "p" "Baz")]%string.
Example c15_nonvacuous :
  wf_schema c15_schema /\
  targets_object (PFieldsSetRequired [("p", "foo", "A")]%string) (mkObject "Foo" [] ty_zero "p" "Foo")%string = true /\
  targets_object (PFieldsSetRequired [("p", "foo", "A")]%string) (mkObject "Bar" [] ty_zero "p" "Bar")%string = false /\
  run_pass (PFieldsSetRequired [("p", "foo", "A")]%string) [c15_schema] <> Ok [c15_schema].
Proof.
  split; [split; [repeat constructor; simpl; intuition discriminate|repeat constructor]|].
  split; [reflexivity|]. split; [reflexivity|]. vm_compute. discriminate.
Qed.
