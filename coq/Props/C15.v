(* C15 — placeholder while the theorems are being written *)
From Cog Require Import Model.Spec15.
Theorem process_nil : forall ss, process [] ss = Ok ss.
Proof. reflexivity. Qed.
