(* C04 — no input or configuration makes cog panic or hang.
   PARTIAL by nature (see DESIGN.md): the byte level and third-party parsers are not modelled;
   what is proved here concerns the IR-level models, in which every Go panic (nil payload,
   failed type assertion, index out of range) is an explicit `Panic` outcome and every unbounded
   recursion an explicit `OutOfFuel`.  Statements only; each closed by `exact <lemma>`. *)
From Coq Require Import List String Bool.
From Cog Require Import Model.IR Model.Passes Model.Filter Model.Process Model.Builders Model.BuildersEq
     Model.Spec16 Proofs.C04Proofs.
Import ListNotations.

(* The user-configurable transformations other than add_fields / constant_to_enum are total
   functions in the model: whatever the schemas and parameters, they return schemas. *)
Theorem simple_transformations_total : forall p ss,
  match p with
  | PRenameObject _ _ _ | POmit _ | POmitFields _ | PAddObject _ _ _ _ | PDuplicateObject _ _ _ _ _
  | PRetypeObject _ _ _ _ | PRetypeField _ _ _ _ _ | PFieldsSetRequired _ | PFieldsSetNotRequired _
  | PFieldsSetDefault _ | PReplaceReference _ _ _ _ | PTrimEnumValues | PHintObject _ _ _
  | PSchemaSetIdentifier _ _ | PSchemaSetEntrypoint _ _ | PPrefixObjectNames _ | PAppendCommentObjects _
  | PUnspec | PInferEntrypoint | PNameAnonymousStruct _ _ _ _ => is_ok (run_pass p ss) = true
  | _ => True
  end.
Proof. intros p ss. destruct p; exact I || reflexivity. Qed.
Print Assumptions simple_transformations_total.

(* add_fields returns schemas or an error, never a panic *)
Theorem add_fields_no_panic : forall pkg obj news ss, ok_or_err (add_fields pkg obj news ss) = true.
Proof. exact add_fields_no_panic_proof. Qed.
Print Assumptions add_fields_no_panic.

(* constant_to_enum: the only panic is the type assertion on a selected string constant whose
   value is not a string *)
Theorem constant_to_enum_no_panic : forall refs ss,
  (forall s ko, In s ss -> In ko (s_objects s) -> bad_string_constant refs (snd ko) = false) ->
  is_ok (constant_to_enum refs ss) = true.
Proof. exact constant_to_enum_no_panic_proof. Qed.
Print Assumptions constant_to_enum_no_panic.

(* builder derivation: on every schema set whose aliases resolve without looping and whose
   scalar constraints carry an argument, FromAST neither panics nor runs out of stack *)
Theorem from_ast_no_panic : forall ss, in_claim ss = true -> is_ok (from_ast ss) = true.
Proof. exact from_ast_no_panic_proof. Qed.
Print Assumptions from_ast_no_panic.

(* ... and outside that claim the faithful model does crash (the genuine defects the search
   finds on the real CLI): a dangling alias panics, an alias cycle exhausts the stack *)
Local Open Scope string_scope.
Definition m0 := {| m_kind := "" ; m_variant := "" ; m_identifier := "" |}.
Theorem from_ast_panics_on_dangling_alias_refuted :
  from_ast [mkSchema "p" m0 "" ty_zero [("A", mkObject "A" [] (TRef A0 "p" "Missing") "p" "A")]]
  = Panic "invalid memory address or nil pointer dereference (AsStruct on a reference that does not resolve)".
Proof. vm_compute. reflexivity. Qed.
Print Assumptions from_ast_panics_on_dangling_alias_refuted.
Theorem from_ast_overflows_on_alias_cycle_refuted :
  from_ast [mkSchema "p" m0 "" ty_zero [("A", mkObject "A" [] (TRef A0 "p" "A") "p" "A")]] = OutOfFuel.
Proof. vm_compute. reflexivity. Qed.
Print Assumptions from_ast_overflows_on_alias_cycle_refuted.

(* non-vacuity *)
Example c04_nonvacuous :
  in_claim [mkSchema "p" m0 "" ty_zero
              [("S", mkObject "S" [] (TStruct A0 [] [mkField "x" [] (TRef A0 "p" "T") true]) "p" "S");
               ("T", mkObject "T" [] (TScalar A0 KString DNil []) "p" "T")]] = true.
Proof. vm_compute. reflexivity. Qed.
