(* C04 — no input or configuration makes cog panic or hang.
   PARTIAL by nature (see DESIGN.md): the byte level and third-party parsers are not modelled;
   what is proved here concerns the IR-level models, in which every Go panic (nil payload,
   failed type assertion, index out of range) is an explicit `Panic` outcome and every unbounded
   recursion an explicit `OutOfFuel`.  Statements only; each closed by `exact <lemma>`. *)
From Coq Require Import List String Bool.
From Cog Require Import Model.IR Model.Passes Model.Filter Model.Process Model.Builders Model.BuildersEq
     Model.Spec16 Model.PassesChain Proofs.C04Proofs Proofs.ChainTotalProofs Proofs.ChainPhpJavaProofs Proofs.ChainTotalProofs2.
Import ListNotations.

(* The user-configurable transformations other than add_fields / constant_to_enum are total
   functions in the model: whatever the schemas and parameters, they return schemas. *)
Theorem simple_transformations_total : forall p ss,
  match p with
  | PRenameObject _ _ _ | POmit _ | POmitFields _ | PAddObject _ _ _ _ | PDuplicateObject _ _ _ _ _
  | PRetypeObject _ _ _ _ | PRetypeField _ _ _ _ _ | PFieldsSetRequired _ | PFieldsSetNotRequired _
  | PFieldsSetDefault _ | PReplaceReference _ _ _ _ | PTrimEnumValues | PHintObject _ _ _
  | PSchemaSetIdentifier _ _ | PSchemaSetEntrypoint _ _ | PPrefixObjectNames _ | PAppendCommentObjects _
  | PUnspec | PInferEntrypoint | PNameAnonymousStruct _ _ _ _ => is_ok (run_pass p ss) = true
  | _ => True
  end.
Proof. intros p ss. destruct p; exact I || reflexivity. Qed.
Print Assumptions simple_transformations_total.

(* add_fields returns schemas or an error, never a panic *)
Theorem add_fields_no_panic : forall pkg obj news ss, ok_or_err (add_fields pkg obj news ss) = true.
Proof. exact add_fields_no_panic_proof. Qed.
Print Assumptions add_fields_no_panic.

(* constant_to_enum: the only panic is the type assertion on a selected string constant whose
   value is not a string *)
Theorem constant_to_enum_no_panic : forall refs ss,
  (forall s ko, In s ss -> In ko (s_objects s) -> bad_string_constant refs (snd ko) = false) ->
  is_ok (constant_to_enum refs ss) = true.
Proof. exact constant_to_enum_no_panic_proof. Qed.
Print Assumptions constant_to_enum_no_panic.

(* builder derivation: on every schema set whose aliases resolve without looping and whose
   scalar constraints carry an argument, FromAST neither panics nor runs out of stack *)
Theorem from_ast_no_panic : forall ss, in_claim ss = true -> is_ok (from_ast ss) = true.
Proof. exact from_ast_no_panic_proof. Qed.
Print Assumptions from_ast_no_panic.

(* ... and outside that claim the faithful model does crash (the genuine defects the search
   finds on the real CLI): a dangling alias panics, an alias cycle exhausts the stack *)
Local Open Scope string_scope.
Definition m0 := {| m_kind := "" ; m_variant := "" ; m_identifier := "" |}.
Theorem from_ast_panics_on_dangling_alias_refuted :
  from_ast [mkSchema "p" m0 "" ty_zero [("A", mkObject "A" [] (TRef A0 "p" "Missing") "p" "A")]]
  = Panic "invalid memory address or nil pointer dereference (AsStruct on a reference that does not resolve)".
Proof. vm_compute. reflexivity. Qed.
Print Assumptions from_ast_panics_on_dangling_alias_refuted.
Theorem from_ast_overflows_on_alias_cycle_refuted :
  from_ast [mkSchema "p" m0 "" ty_zero [("A", mkObject "A" [] (TRef A0 "p" "A") "p" "A")]] = OutOfFuel.
Proof. vm_compute. reflexivity. Qed.
Print Assumptions from_ast_overflows_on_alias_cycle_refuted.

(* non-vacuity *)
Example c04_nonvacuous :
  in_claim [mkSchema "p" m0 "" ty_zero
              [("S", mkObject "S" [] (TStruct A0 [] [mkField "x" [] (TRef A0 "p" "T") true]) "p" "S");
               ("T", mkObject "T" [] (TScalar A0 KString DNil []) "p" "T")]] = true.
Proof. vm_compute. reflexivity. Qed.

(* ---------- the language chains' passes (Model/PassesChain.v; Proofs/ChainTotalProofs.v).
   is_ok' / ok_or_err' are is_ok / ok_or_err: no Panic, no OutOfFuel (and no error / possibly an error).
   Each conditional theorem comes with the witness on which the real pass panics or overflows the stack when the
   condition is dropped: those witnesses are crash findings of C04. ---------- *)
Theorem chain_passes_total : forall p ss,
  match p with
  | PAnonymousStructsToNamed | PNotRequiredFieldAsNullableType | PAnonymousEnumToExplicitType
  | PRenameNumericEnumValues => is_ok' (run_pass p ss) = true
  | _ => True
  end.
Proof. exact total_chain_passes. Qed.
Print Assumptions chain_passes_total.
Theorem disjunction_with_constant_to_default_total : forall ss, is_ok' (disjunction_with_constant_to_default ss) = true.
Proof. exact dwctd_total. Qed.
Print Assumptions disjunction_with_constant_to_default_total.
Theorem disjunction_of_anonymous_structs_to_explicit_total : forall ss,
  is_ok' (disjunction_of_anonymous_structs_to_explicit ss) = true.
Proof. exact doaste_total. Qed.
Print Assumptions disjunction_of_anonymous_structs_to_explicit_total.
Theorem disjunction_with_null_to_optional_no_panic : forall ss,
  no_null_null ss = true -> is_ok' (disjunction_with_null_to_optional ss) = true.
Proof. exact dwnto_no_panic. Qed.
Print Assumptions disjunction_with_null_to_optional_no_panic.
Theorem prefix_enum_values_total_on_named_members : forall ss,
  pev_safe_schemas ss = true -> is_ok' (prefix_enum_values ss) = true.
Proof. exact prefix_enum_values_no_panic. Qed.
Print Assumptions prefix_enum_values_total_on_named_members.
Theorem sanitize_enum_member_names_total_on_named_members : forall ss,
  senm_safe_schemas ss = true -> is_ok' (sanitize_enum_member_names ss) = true.
Proof. exact sanitize_no_panic. Qed.
Print Assumptions sanitize_enum_member_names_total_on_named_members.
(* the passes that follow references while resolving union branches neither panic nor exhaust the stack when
   those references resolve without looping *)
Theorem flatten_disjunctions_no_crash : forall ss, unions_resolve ss = true -> is_ok' (flatten_disjunctions ss) = true.
Proof. exact flatten_no_crash. Qed.
Print Assumptions flatten_disjunctions_no_crash.
Theorem undiscriminated_disjunction_to_any_no_crash : forall ss,
  unions_resolve ss = true -> is_ok' (undiscriminated_disjunction_to_any ss) = true.
Proof. exact undiscriminated_no_crash. Qed.
Print Assumptions undiscriminated_disjunction_to_any_no_crash.
Theorem disjunction_to_type_no_crash : forall ss, unions_resolve ss = true -> ok_or_err' (disjunction_to_type ss) = true.
Proof. exact dtt_no_crash. Qed.
Print Assumptions disjunction_to_type_no_crash.
Theorem dataquery_identification_total_on_struct_base : forall ss,
  dataquery_base_ok ss = true -> is_ok' (dataquery_identification ss) = true.
Proof. exact dataquery_identification_no_panic. Qed.
Print Assumptions dataquery_identification_total_on_struct_base.
(* the conditions are needed: the model (= the real passes, by correspondence) crashes without them *)
Theorem chain_pass_crash_witnesses :
  (exists ss, disjunction_with_null_to_optional ss = Panic "index out of range [0] with length 0") /\
  (exists ss, prefix_enum_values ss = Panic "index out of range [0] with length 0") /\
  (exists ss, unions_resolve ss = false /\ flatten_disjunctions ss = OutOfFuel /\
              undiscriminated_disjunction_to_any ss = OutOfFuel /\ disjunction_to_type ss = OutOfFuel) /\
  (exists ss, dataquery_identification ss = Panic "invalid memory address or nil pointer dereference").
Proof.
  split; [eexists; exact dwnto_panics_on_null_null|].
  split; [eexists; exact (proj1 enum_member_panics)|].
  split; [eexists; exact reference_cycle_overflows|].
  eexists; exact dataquery_identification_panics.
Qed.
Print Assumptions chain_pass_crash_witnesses.
(* exact success conditions (is_ok' = the decidable condition), and the two remaining reference-following passes *)
Theorem disjunction_with_null_to_optional_exact : forall ss,
  is_ok' (disjunction_with_null_to_optional ss) = no_null_null ss.
Proof. exact dwnto_exact. Qed.
Print Assumptions disjunction_with_null_to_optional_exact.
Theorem prefix_enum_values_ok_exactly : forall ss, is_ok' (prefix_enum_values ss) = pev_safe_schemas ss.
Proof. exact prefix_enum_values_exact. Qed.
Print Assumptions prefix_enum_values_ok_exactly.
Theorem inline_objects_with_types_exact : forall kinds ss,
  is_ok' (inline_objects_with_types kinds ss) = is_ok' (iowt_collect kinds ss).
Proof. exact iowt_exact. Qed.
Print Assumptions inline_objects_with_types_exact.
Theorem remove_intersections_total_on_string_hints : forall ss,
  ri_hints_ok ss = true -> is_ok' (remove_intersections ss) = true.
Proof. exact remove_intersections_no_panic. Qed.
Print Assumptions remove_intersections_total_on_string_hints.
Theorem disjunction_infer_mapping_no_crash : forall ss, dim_safe_schemas ss = true -> is_ok' (disjunction_infer_mapping ss) = true.
Proof. exact dim_no_crash. Qed.
Print Assumptions disjunction_infer_mapping_no_crash.
(* never an error or a panic; the stack is exhausted only through a reference cycle (OutOfFuel) *)
Theorem disjunction_of_constants_to_enum_ok_or_fuel : forall ss,
  enums_scalar ss = true -> ok_or_fuel' (disjunction_of_constants_to_enum ss) = true.
Proof. exact docte_ok_or_fuel. Qed.
Print Assumptions disjunction_of_constants_to_enum_ok_or_fuel.
Theorem sanitize_enum_member_names_ok_exactly : forall ss, is_ok' (sanitize_enum_member_names ss) = senm_safe_schemas ss.
Proof. exact sanitize_exact. Qed.
Print Assumptions sanitize_enum_member_names_ok_exactly.
