(* C11 — generated Python types round-trip documents and agree with Go on the wire format.
   Statements only.  py_roundtrip / py_from_json / py_init / py_encode: Model/PySem.v (the meaning of the
   generated from_json, __init__, to_json and of the runtime JSONEncoder, as functions of the post-chain IR
   the Python jenny receives).  le_null_u, py_valid, py_rt_safe, wire_safe: Model/PySemSpec.v.
   std_roundtrip: Model/GoSem.v (json.Unmarshal / json.Marshal on the generated Go types).

   le_null_u d e says: e is d with some null-valued members removed (objects as finite maps, numbers by
   value); on documents without duplicate member names it is Json.json_eq_mod_null (checks/c11.py evaluates
   both on every real case).  "A document the schema accepts" enters as py_valid (the shape from_json relies
   on: implied by acceptance for the construct grammar; acceptance itself is decided by the schema
   languages' reference validators in the correspondence). *)
From Coq Require Import List String ZArith Bool.
From Cog Require Import Model.GoSem Model.GoSemSpec08 Model.GoSemSpec01 Model.Ctor Model.PySem Model.PySemChecks
  Model.PySemSpec Proofs.PySemProofs.
Import ListNotations.
Local Open Scope string_scope.

(* ---- from_json then to_json (through the generated encoder) reproduces the document ---- *)
Definition py_roundtrip_statement : Prop :=
  forall pctx p n d, json_wf d = true -> py_valid_object pctx p n d = true -> py_roundtrip_holds pctx p n d = true.

(* refuted: an optional struct given as an explicit null makes from_json raise (TypeError) *)
Theorem py_roundtrip_refuted : ~ py_roundtrip_statement.
Proof. exact PySemProofs.py_roundtrip_refuted. Qed.
Print Assumptions py_roundtrip_refuted.

(* outside the exclusions of py_rt_safe (explicit null where from_json recurses; absent optional member that is a
   constant / has a default / is not nullable; null for a member with a default; maps of maps of non-scalars;
   typing.Union[]) every valid document round-trips, at any nesting depth *)
Theorem py_roundtrip_partial : forall pctx p n d,
  json_wf d = true -> py_valid_object pctx p n d = true -> py_rt_safe_object pctx p n d = true ->
  py_roundtrip_holds pctx p n d = true.
Proof. exact PySemProofs.py_roundtrip_partial. Qed.
Print Assumptions py_roundtrip_partial.

(* ---- the JSON Python produces equals the JSON Go produces ---- *)
Definition py_go_same_wire_statement : Prop :=
  forall ctx pctx p gn pn d,
    ctx_supported ctx = true -> json_wf d = true ->
    ir_valid_object ctx p gn d = true -> py_valid_object pctx p pn d = true ->
    same_wire_holds ctx pctx p gn pn d = true.

(* refuted: an optional array given as [] is dropped by Go (omitempty) and kept by Python *)
Theorem py_go_same_wire_refuted : ~ py_go_same_wire_statement.
Proof. exact PySemProofs.py_go_same_wire_refuted. Qed.
Print Assumptions py_go_same_wire_refuted.

(* a second witness: an absent optional constant is materialised by Python's __init__ and left out by Go *)
Theorem py_go_same_wire_refuted_optional_constant :
  std_roundtrip wit_const_ctx "w" "Root" (JObj [("id", JStr "a")]) = GOk (JObj [("id", JStr "a")]) /\
  py_roundtrip wit_const_ctx "w" "Root" (JObj [("id", JStr "a")]) = POk (JObj [("id", JStr "a"); ("kind", JStr "k1")]) /\
  py_valid_object wit_const_ctx "w" "Root" (JObj [("id", JStr "a")]) = true /\
  py_rt_safe_object wit_const_ctx "w" "Root" (JObj [("id", JStr "a")]) = false.
Proof. exact PySemProofs.wit_const_facts. Qed.
Print Assumptions py_go_same_wire_refuted_optional_constant.

(* partial, RELATIVE to the Go round-trip conclusion of C01 (premise `le_null_u d g`: Go's output g is the
   document up to omitted null members, what go_roundtrip_nf_partial states on roundtrip_safe documents): on
   the Python-safe fragment Python's output is the document up to omitted null members too, so the two SDKs
   can differ only in the presence of members that are null in the document.  The unconditional agreement on
   wire_safe documents is validated on every generated case (pf_wire_in_safe, against the real outputs and
   against both models), not proved. *)
Theorem py_go_same_wire_partial : forall pctx p pn d g,
  json_wf d = true -> py_valid_object pctx p pn d = true -> py_rt_safe_object pctx p pn d = true ->
  le_null_u d g = true ->
  exists e, py_roundtrip pctx p pn d = POk e /\ agree_up_to_null_members e g.
Proof. exact PySemProofs.py_go_same_wire_partial. Qed.
Print Assumptions py_go_same_wire_partial.

Example c11_nonvacuous :
  exists pctx p n d, json_wf d = true /\ py_valid_object pctx p n d = true /\ py_rt_safe_object pctx p n d = true /\
                     json_depth d >= 2.
Proof. exact PySemProofs.c11_nonvacuous. Qed.
