(* C11 — generated Python types round-trip documents and agree with Go on the wire format.
   Statements only.  py_roundtrip / py_from_json / py_init / py_encode: Model/PySem.v (the meaning of the
   generated from_json, __init__, to_json and of the runtime JSONEncoder, as functions of the post-chain IR
   the Python jenny receives).  le_null_u, py_valid, py_rt_safe, wire_safe: Model/PySemSpec.v.
   std_roundtrip: Model/GoSem.v (json.Unmarshal / json.Marshal on the generated Go types).

   le_null_u d e says: e is d with some null-valued members removed (objects as finite maps, numbers by
   value); on documents without duplicate member names it is Json.json_eq_mod_null (checks/c11.py evaluates
   both on every real case).  "A document the schema accepts" enters as py_valid (the shape from_json relies
   on: implied by acceptance for the construct grammar; acceptance itself is decided by the schema
   languages' reference validators in the correspondence). *)
From Coq Require Import List String ZArith Bool.
From Cog Require Import Model.GoSem Model.GoSemSpec08 Model.GoSemSpec01 Model.GoSemSpec01F Model.Ctor Model.PySem
  Model.PySemChecks Model.PySemSpec Proofs.PySemProofs Proofs.PySafeNeeded Proofs.PyGoWire.
Import ListNotations.
Local Open Scope string_scope.

(* ---- from_json then to_json (through the generated encoder) reproduces the document ---- *)
Definition py_roundtrip_statement : Prop :=
  forall pctx p n d, json_wf d = true -> py_valid_object pctx p n d = true -> py_roundtrip_holds pctx p n d = true.

(* refuted: an optional struct given as an explicit null makes from_json raise (TypeError) *)
Theorem py_roundtrip_refuted : ~ py_roundtrip_statement.
Proof. exact PySemProofs.py_roundtrip_refuted. Qed.
Print Assumptions py_roundtrip_refuted.

(* outside the exclusions of py_rt_safe (explicit null where from_json recurses; absent optional member that is a
   constant / has a default / is not nullable; null for a member with a default; maps of maps of non-scalars;
   typing.Union[]) every valid document round-trips, at any nesting depth *)
Theorem py_roundtrip_partial : forall pctx p n d,
  json_wf d = true -> py_valid_object pctx p n d = true -> py_rt_safe_object pctx p n d = true ->
  py_roundtrip_holds pctx p n d = true.
Proof. exact PySemProofs.py_roundtrip_partial. Qed.
Print Assumptions py_roundtrip_partial.

(* ---- the JSON Python produces equals the JSON Go produces ---- *)
Definition py_go_same_wire_statement : Prop :=
  forall ctx pctx p gn pn d,
    ctx_supported ctx = true -> json_wf d = true ->
    ir_valid_object ctx p gn d = true -> py_valid_object pctx p pn d = true ->
    same_wire_holds ctx pctx p gn pn d = true.

(* refuted: an optional array given as [] is dropped by Go (omitempty) and kept by Python *)
Theorem py_go_same_wire_refuted : ~ py_go_same_wire_statement.
Proof. exact PySemProofs.py_go_same_wire_refuted. Qed.
Print Assumptions py_go_same_wire_refuted.

(* a second witness: an absent optional constant is materialised by Python's __init__ and left out by Go *)
Theorem py_go_same_wire_refuted_optional_constant :
  std_roundtrip wit_const_ctx "w" "Root" (JObj [("id", JStr "a")]) = GOk (JObj [("id", JStr "a")]) /\
  py_roundtrip wit_const_ctx "w" "Root" (JObj [("id", JStr "a")]) = POk (JObj [("id", JStr "a"); ("kind", JStr "k1")]) /\
  py_valid_object wit_const_ctx "w" "Root" (JObj [("id", JStr "a")]) = true /\
  py_rt_safe_object wit_const_ctx "w" "Root" (JObj [("id", JStr "a")]) = false.
Proof. exact PySemProofs.wit_const_facts. Qed.
Print Assumptions py_go_same_wire_refuted_optional_constant.

(* partial, RELATIVE to the Go round-trip conclusion of C01 (premise `le_null_u d g`: Go's output g is the
   document up to omitted null members, what go_roundtrip_nf_partial states on roundtrip_safe documents): on
   the Python-safe fragment Python's output is the document up to omitted null members too, so the two SDKs
   can differ only in the presence of members that are null in the document.  The unconditional agreement on
   wire_safe documents is validated on every generated case (pf_wire_in_safe, against the real outputs and
   against both models), not proved. *)
Theorem py_go_same_wire_partial : forall pctx p pn d g,
  json_wf d = true -> py_valid_object pctx p pn d = true -> py_rt_safe_object pctx p pn d = true ->
  le_null_u d g = true ->
  exists e, py_roundtrip pctx p pn d = POk e /\ agree_up_to_null_members e g.
Proof. exact PySemProofs.py_go_same_wire_partial. Qed.
Print Assumptions py_go_same_wire_partial.

(* UNCONDITIONAL agreement on the decidable fragment wire_safeF (Model/PySemSpec.v): the document is valid for both
   contexts, inside Go's corrected exclusion predicate roundtrip_safeF (C01) and inside py_rt_safe, and no member is
   given as explicit null.  Go's side is the induction of Proofs/GoSemC01Sem2.v over Model/GoSemDecode.v's decode /
   encode, Python's side py_roundtrip_partial; nothing is taken as a premise.  (The null-member restriction is a
   limit of the proof: both round-trip theorems are stated "up to omitted null members"; which null members each SDK
   omits is validated on every generated case, pf_wire_in_safe, not proved.) *)
Theorem py_go_same_wire_safe : forall ctx pctx p gn pn d,
  ctx_supported ctx = true -> json_wf d = true -> wire_safeF ctx pctx p gn pn d = true ->
  same_wire_holds ctx pctx p gn pn d = true.
Proof. exact PyGoWire.py_go_same_wire_safe. Qed.
Print Assumptions py_go_same_wire_safe.

Example py_go_same_wire_safe_nonvacuous :
  ctx_supported wit_gctx = true /\
  wire_safeF wit_gctx wit_ctx "w" "Root" "Root"
    (JObj [("id", JStr "a"); ("opt", JObj [("x", JNum 1 0)]); ("tags", JArr [JStr "t"])]) = true.
Proof. exact PyGoWire.py_go_same_wire_safe_nonvacuous. Qed.

(* the output of the Python round trip has no duplicate member names *)
Theorem py_roundtrip_wf : forall pctx p n d e,
  json_wf d = true -> py_valid_object pctx p n d = true -> py_rt_safe_object pctx p n d = true ->
  py_roundtrip pctx p n d = POk e -> le_null_u d e = true /\ json_wf e = true.
Proof. exact PySemProofs.py_roundtrip_wf. Qed.
Print Assumptions py_roundtrip_wf.

(* ---- every exclusion of py_rt_safe is needed: a valid, duplicate-free document violating only that exclusion, on
   which the round trip fails (needed pctx d := json_wf d /\ py_valid_object /\ py_rt_safe_object = false /\
   py_roundtrip_holds = false) ---- *)
Theorem py_rt_safe_conditions_needed :
  needed N11.c_null_struct N11.d_null_struct /\      (* null for a reference to a struct: TypeError *)
  needed N11.c_null_array N11.d_null_array /\        (* null for an array of non-scalars: TypeError *)
  needed N11.c_null_map N11.d_null_map /\            (* null for a map of non-scalars: AttributeError *)
  needed N11.c_abs_const (N11.idoc []) /\            (* absent optional constant: materialised *)
  needed N11.c_abs_default (N11.idoc []) /\          (* absent optional member with a default: materialised *)
  needed N11.c_abs_nonnull (N11.idoc []) /\          (* absent optional array not nullable in the IR: [] *)
  needed N11.c_null_default N11.d_null_tags /\       (* null for an array with a default: replaced *)
  needed N11.c_null_nonnull N11.d_null_t /\          (* null for an array not nullable in the IR: [] *)
  needed N11.c_nested N11.d_nested /\                (* map of maps of non-scalars: shadowed `key` *)
  needed N11.c_union N11.d_union.                    (* typing.Union[]: the module does not import *)
Proof.
  repeat split;
    first [ apply safe_needed_null_struct | apply safe_needed_null_array | apply safe_needed_null_map
          | apply safe_needed_absent_constant | apply safe_needed_absent_default | apply safe_needed_absent_not_nullable
          | apply safe_needed_null_with_default | apply safe_needed_null_not_nullable | apply safe_needed_nested_maps
          | apply safe_needed_empty_union ].
Qed.
Print Assumptions py_rt_safe_conditions_needed.

Example c11_nonvacuous :
  exists pctx p n d, json_wf d = true /\ py_valid_object pctx p n d = true /\ py_rt_safe_object pctx p n d = true /\
                     json_depth d >= 2.
Proof. exact PySemProofs.c11_nonvacuous. Qed.
