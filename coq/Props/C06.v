(* C06 — each language's generators receive types in the normal form they assume.
   Statements only; proofs in Proofs/C06Proofs.v; Print Assumptions under each.
   chain_<lang> (Gen/Chains_gen.v) is regenerated from internal/jennies/*/jennies.go on every run;
   NF predicates: Model/NF.v; pass models: Model/PassesChain.v (validated by correspondence). *)
From Coq Require Import List String Bool.
From Cog Require Import Model.IR Model.Passes Model.PassesChain Model.Process Model.NF Model.Spec06
     Gen.Chains_gen Proofs.C06Proofs Proofs.ChainNFProofs Proofs.ChainPresProofs Proofs.ChainPhpJavaProofs Proofs.ChainRefsProofs2 Proofs.ChainPhpInlineNF.
Import ListNotations.
Local Open Scope string_scope.

(* obligations over the regenerated chains: only passes that have a model; a pass added to, or an
   unrecognised construct in, CompilerPasses() shows up as PUnknown and breaks these *)
Theorem chains_modelled :
  forallb modelled chain_go && forallb modelled chain_java && forallb modelled chain_php &&
  forallb modelled chain_python && forallb modelled chain_typescript = true.
Proof. vm_compute. reflexivity. Qed.
Print Assumptions chains_modelled.

(* every chain that promises "non-required fields are nullable" runs the pass that establishes it,
   and the TypeScript/Python chains end with the pass that removes numeric member names *)
Theorem chains_have_their_establishing_pass :
  forallb (fun ch => existsb (fun p => match p with PNotRequiredFieldAsNullableType => true | _ => false end) ch)
          [chain_go; chain_java; chain_php; chain_python] &&
  forallb (fun ch => match last ch PUnspec with PRenameNumericEnumValues => true | _ => false end)
          [chain_python; chain_typescript] = true.
Proof. vm_compute. reflexivity. Qed.
Print Assumptions chains_have_their_establishing_pass.

(* For ALL IRs, arbitrarily nested: right after NotRequiredFieldAsNullableType every non-required
   field — in objects, arrays, map index/value types, union and allOf branches — is nullable. *)
Theorem not_required_establishes_optional_nullable : forall ss,
  has_optional_not_nullable (not_required_field_as_nullable_type ss) = false.
Proof. exact not_required_establishes_optional_nullable_proof. Qed.
Print Assumptions not_required_establishes_optional_nullable.

(* For ALL IRs: after RenameNumericEnumValues no enum object has a purely numeric member name
   (names_fit: the name's digits fit the int range strconv.Atoi accepts). *)
Theorem rename_numeric_establishes : forall ss,
  names_fit ss -> numeric_member (rename_numeric_enum_values ss) = false.
Proof. exact rename_numeric_establishes_proof. Qed.
Print Assumptions rename_numeric_establishes.

(* hence the TypeScript normal form, for all IRs *)
Theorem nf_typescript_partial : forall ss out,
  names_fit ss -> process chain_typescript ss = Ok out -> nf_violations "typescript" out = [].
Proof.
  intros ss out Hfit H. unfold chain_typescript in H. cbn [process run_pass bind] in H.
  inversion H; subst. unfold nf_violations. simpl.
  rewrite (rename_numeric_establishes ss Hfit). reflexivity.
Qed.
Print Assumptions nf_typescript_partial.

(* ---- the full statements for Go, Java, PHP and Python are REFUTED by the faithful model: the
   later passes of the chains undo or never reach what the earlier ones established (open known
   findings with ids starting C06).  Witnesses by vm_compute. ---- *)
Definition m0 := {| m_kind := "" ; m_variant := "" ; m_identifier := "" |}.
Definition Sc (k : skind) := TScalar A0 k DNil [].
(* string | [](int64 | bool) *)
Definition w_nested : schemas :=
  [mkSchema "p" m0 "" ty_zero
    [("Obj", mkObject "Obj" [] (TStruct A0 [] [mkField "u" [] (TDisj A0 (mkDisj [Sc KString; TArray A0 (TDisj A0 (mkDisj [Sc KInt64; Sc KBool] "" []))] "" [])) true]) "p" "Obj")]].
(* an optional undiscriminated union of struct references, and string | (int64 | null) *)
Definition w_opt : schemas :=
  [mkSchema "p" m0 "" ty_zero
    [("A", mkObject "A" [] (TStruct A0 [] [mkField "x" [] (Sc KString) true]) "p" "A");
     ("B", mkObject "B" [] (TStruct A0 [] [mkField "y" [] (Sc KString) true]) "p" "B");
     ("Obj", mkObject "Obj" [] (TStruct A0 [] [mkField "u" [] (TDisj A0 (mkDisj [TRef A0 "p" "A"; TRef A0 "p" "B"] "" [])) false;
                                               mkField "n" [] (TDisj A0 (mkDisj [Sc KString; TDisj A0 (mkDisj [Sc KInt64; Sc KNull] "" [])] "" [])) true]) "p" "Obj")]].
Definition chain_breaks (lang : string) (ch : list pass) (w : schemas) (v : string) : Prop :=
  exists out, process ch w = Ok out /\ In v (nf_violations lang out).

Theorem nf_go_refuted : chain_breaks "go" chain_go w_nested "union-remains" /\
                        chain_breaks "go" chain_go w_opt "optional-field-not-nullable" /\
                        chain_breaks "go" chain_go w_opt "T-or-null-union".
Proof. repeat split; eexists; (split; [vm_compute; reflexivity|vm_compute; tauto]). Qed.
Print Assumptions nf_go_refuted.
Theorem nf_java_refuted : chain_breaks "java" chain_java w_nested "union-remains" /\
                          chain_breaks "java" chain_java w_opt "optional-field-not-nullable".
Proof. repeat split; eexists; (split; [vm_compute; reflexivity|vm_compute; tauto]). Qed.
Print Assumptions nf_java_refuted.
Theorem nf_php_refuted : chain_breaks "php" chain_php w_opt "optional-field-not-nullable" /\
                         chain_breaks "php" chain_php w_opt "T-or-null-union".
Proof. repeat split; eexists; (split; [vm_compute; reflexivity|vm_compute; tauto]). Qed.
Print Assumptions nf_php_refuted.
Theorem nf_python_refuted : chain_breaks "python" chain_python w_opt "T-or-null-union".
Proof. eexists; (split; [vm_compute; reflexivity|vm_compute; tauto]). Qed.
Print Assumptions nf_python_refuted.

(* ---- what each establishing pass establishes, for all IRs of any nesting (Proofs/ChainNFProofs.v) ---- *)
Theorem anonymous_enum_to_explicit_type_establishes : forall ss,
  has_anonymous_enum (anonymous_enum_to_explicit_type ss) = false.
Proof. exact aete_establishes_no_anonymous_enum. Qed.
Print Assumptions anonymous_enum_to_explicit_type_establishes.
Theorem anonymous_structs_to_named_establishes : forall ss,
  has_anonymous_struct (anonymous_structs_to_named ss) = false.
Proof. exact astn_establishes_no_anonymous_struct. Qed.
Print Assumptions anonymous_structs_to_named_establishes.
Theorem sanitize_enum_member_names_establishes : forall ss out,
  sanitize_enum_member_names ss = Ok out -> php_unsanitised_member out = false.
Proof. exact sanitize_establishes. Qed.
Print Assumptions sanitize_enum_member_names_establishes.
Theorem prefix_enum_values_establishes : forall ss out,
  prefix_enum_values ss = Ok out -> go_unprefixed_member out = false.
Proof. exact prefix_establishes. Qed.
Print Assumptions prefix_enum_values_establishes.
(* the two union passes establish their part exactly when no union sits below a union branch
   (otherwise: the witnesses of nf_*_refuted = finding C06-union-nested-in-union-branch) *)
Theorem disjunction_with_null_to_optional_establishes : forall ss out,
  nested_union ss = false -> disjunction_with_null_to_optional ss = Ok out -> has_t_or_null out = false.
Proof. exact dwnto_establishes_no_t_or_null. Qed.
Print Assumptions disjunction_with_null_to_optional_establishes.
Theorem disjunction_to_type_establishes : forall ss out,
  nested_union ss = false -> nested_union_entry ss = false -> disjunction_to_type ss = Ok out -> has_union out = false.
Proof. exact dtt_establishes_no_union. Qed.
Print Assumptions disjunction_to_type_establishes.

(* ---- chain-level normal forms on "tame" inputs (Proofs/ChainPresProofs.v): establishment by the right pass
   and preservation by every later pass of the REGENERATED chain.  tame_<lang> is decidable and excludes exactly
   the shapes behind the open findings (union below a union branch, union inside an allOf composition,
   entry point that is not a plain reference, an optional union that becomes `any`; Python: a null branch in a
   union of more than two branches, numeric member names too long to rename). ---- *)
Theorem nf_go_partial : forall ss out,
  tame_go ss = true -> process chain_go ss = Ok out -> nf_violations "go" out = [].
Proof. exact go_chain_nf. Qed.
Print Assumptions nf_go_partial.
Theorem nf_go_no_union_partial : forall ss out,
  nested_union ss = false -> entry_simple ss = true -> process chain_go ss = Ok out ->
  has_union out = false /\ has_t_or_null out = false.
Proof. exact go_chain_no_union. Qed.
Print Assumptions nf_go_no_union_partial.
(* Java: the chain without its last pass; RemoveIntersections rebuilds fields (finding C06-java-remove-intersections-fields) *)
Theorem nf_java_core_partial : forall ss out,
  tame_java ss = true -> process (removelast chain_java) ss = Ok out -> nf_violations "java" out = [].
Proof. exact java_chain_core_nf. Qed.
Print Assumptions nf_java_core_partial.
Theorem nf_python_partial : forall ss out,
  tame_python ss = true -> process chain_python ss = Ok out -> nf_violations "python" out = [].
Proof. exact python_chain_nf. Qed.
Print Assumptions nf_python_partial.
(* Java, the whole chain: RemoveIntersections keeps the normal form when no struct field refers to an object it
   collapses or to an alias of an array (ri_safe, computed on the model's own state before that pass); the failing
   case is finding C06-java-remove-intersections-fields (third conjunct of nf_java_partial_nonvacuous) *)
Theorem remove_intersections_preserves_nf : forall ss out,
  ri_safe ss = true -> remove_intersections ss = Ok out -> nf_violations "java" ss = [] -> nf_violations "java" out = [].
Proof. exact remove_intersections_keeps_nf. Qed.
Print Assumptions remove_intersections_preserves_nf.
Theorem nf_java_partial : forall ss out,
  tame_java_full ss = true -> process chain_java ss = Ok out -> nf_violations "java" out = [].
Proof. exact java_chain_nf. Qed.
Print Assumptions nf_java_partial.
Theorem nf_java_partial_nonvacuous :
  (tame_java_full w_tame = true /\ exists out, process chain_java w_tame = Ok out /\ List.length (objects_of out) = 11 /\ nf_violations "java" out = []) /\
  (tame_java_full w_alias_unreferred = true /\ exists out, process chain_java w_alias_unreferred = Ok out /\
     map o_name (objects_of out) = ["Alias"; "Obj"; "StringOrInt64"] /\ nf_violations "java" out = []) /\
  (tame_java w_alias_referred = true /\ tame_java_full w_alias_referred = false /\
   exists out, process chain_java w_alias_referred = Ok out /\ In "optional-field-not-nullable" (nf_violations "java" out)).
Proof. exact java_chain_nf_nonvacuous. Qed.
Print Assumptions nf_java_partial_nonvacuous.
(* PHP: the chain without InlineObjectsWithTypes, and the whole chain when that pass has nothing left to inline
   (a sufficient condition; a real inlining drops the nullability of the reference: finding C06-php-inlined-reference,
   second conjunct of nf_php_partial_nonvacuous) *)
Theorem nf_php_core_partial : forall ss out,
  tame_php_core ss = true -> process (removelast chain_php) ss = Ok out -> nf_violations "php" out = [].
Proof. exact php_chain_core_nf. Qed.
Print Assumptions nf_php_core_partial.
Theorem nf_php_partial : forall ss out,
  tame_php ss = true -> process chain_php ss = Ok out -> nf_violations "php" out = [].
Proof. exact php_chain_nf. Qed.
Print Assumptions nf_php_partial.
Theorem nf_php_partial_nonvacuous :
  (tame_php w_tame = true /\ nf_violations "php" w_tame = ["anonymous-enum"; "anonymous-struct"; "optional-field-not-nullable"; "T-or-null-union"] /\
   exists out, process chain_php w_tame = Ok out /\ nf_violations "php" out = []) /\
  (tame_php_core w_inlined_reference = true /\ tame_php w_inlined_reference = false /\
   exists out, process chain_php w_inlined_reference = Ok out /\ In "optional-field-not-nullable" (nf_violations "php" out)).
Proof. exact php_chain_nf_nonvacuous. Qed.
Print Assumptions nf_php_partial_nonvacuous.
(* PHP with a REAL inlining: InlineObjectsWithTypes keeps the normal form when no optional field refers directly to
   an inlined non-nullable object and no union branch to an inlined null (iowt_nf_safe), in the order-independent
   case (iowt_refs_safe); sufficient, and exactly what separates the two witnesses *)
Theorem nf_php_inlining_partial : forall ss out,
  tame_php_inl ss = true -> process chain_php ss = Ok out -> nf_violations "php" out = [].
Proof. exact php_chain_nf_inl. Qed.
Print Assumptions nf_php_inlining_partial.
(* the hypotheses are satisfiable by a schema that exercises every pass, and each conjunct of tame_go is needed *)
Theorem nf_go_partial_nonvacuous :
  tame_go w_tame = true /\
  nf_violations "go" w_tame = ["union-remains"; "anonymous-enum"; "anonymous-struct"; "optional-field-not-nullable"; "T-or-null-union"] /\
  exists out, process chain_go w_tame = Ok out /\ List.length (objects_of out) = 11 /\ nf_violations "go" out = [].
Proof. exact go_chain_nf_nonvacuous. Qed.
Print Assumptions nf_go_partial_nonvacuous.
Theorem nf_go_partial_conditions_needed :
  (nested_union w_union_in_array_branch = true /\ go_breaks w_union_in_array_branch "union-remains") /\
  (union_in_inter w_union_in_inter = true /\ nested_union w_union_in_inter = false /\ go_breaks w_union_in_inter "anonymous-struct") /\
  (tame_go w_optional_any = false /\ nested_union w_optional_any = false /\ union_in_inter w_optional_any = false /\
   entry_simple w_optional_any = true /\ go_breaks w_optional_any "optional-field-not-nullable") /\
  (entry_simple w_union_entry = false /\ nested_union w_union_entry = false /\ go_breaks w_union_entry "union-remains").
Proof. exact tame_go_conditions_needed. Qed.
Print Assumptions nf_go_partial_conditions_needed.

(* non-vacuity: the establishing pass really changes something, and a chain can succeed cleanly *)
Example c06_nonvacuous :
  has_optional_not_nullable w_opt = true /\
  has_optional_not_nullable (not_required_field_as_nullable_type w_opt) = false /\
  (exists out, process chain_python w_nested = Ok out /\ nf_violations "python" out = []).
Proof. split; [reflexivity|]. split; [reflexivity|]. eexists. split; vm_compute; reflexivity. Qed.
