(* C06 — placeholder while the theorems are being written *)
From Cog Require Import Model.Spec06 Gen.Chains_gen.
Theorem chain_typescript_is : chain_typescript = [PRenameNumericEnumValues].
Proof. reflexivity. Qed.
