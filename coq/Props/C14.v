(* C14 — Go converters invert builders.  Statements only; each closed by `exact <lemma>`; Print Assumptions
   under each.

   The model: coq/Model/Converter.v — languages.ConverterGenerator.FromBuilder (mapping IR: guards,
   generatedPaths, argument mappings) and the meaning of the Go that converters/converter.tmpl prints from it,
   producing a builder program; composed with C09's builder_eval (coq/Model/BuilderEval.v) by
   `convert_then_build`.  The text level (fmt %#v, cog.Dump, the compiler reading the literals back) is the
   identity on values in the model; the two-stage correspondence of checks/c14.py is what validates that.

   Proved: for every builder whose options only assign directly (what FromAST derives, and what the veneers
   rename / omit / duplicate / unfold_boolean / struct_fields_as_* keep) no option is emitted twice and the
   emitted calls follow the order of the builder's options; for the option FromAST derives for a field, the
   argument the converter prints writes back exactly the value it read.  Refuted by the faithful model, with
   witness: the full statement "equal to v in every field that differs from the defaults". *)
From Coq Require Import List String ZArith Bool.
From Cog Require Import Model.IR Model.Json Model.Builders Model.BuildersEq Model.Spec16 Model.GoSem
  Model.BuilderEval Model.BuilderSpec Model.Converter Proofs.BuilderEvalProofs Proofs.ConverterProofs Model.ConverterSpec Proofs.ConverterWhole.
Import ListNotations.
Local Open Scope string_scope.

(* every option appears at most once, in the order of the builder's options (and only options of this
   builder appear) *)
Theorem each_needed_option_once : forall e p n v b bp bn ctor calls,
  locate_builder (be_builders e) p n = Some b ->
  (forall o, In o (b_options b) -> direct_option o) -> NoDup (map op_name (b_options b)) ->
  converter_output e p n v = GOk (BBuild bp bn ctor calls) ->
  subseq (map fst calls) (map op_name (b_options b)) /\ NoDup (map fst calls).
Proof. exact each_option_at_most_once_proof. Qed.
Print Assumptions each_needed_option_once.

(* FromBuilder keeps at most one mapping per option, for that option (ms, in option order), followed by the
   loops of listOfDisjunctionOptions (lms: one per list of unions exposed as per-branch appending options) *)
Theorem one_mapping_per_option : forall e b,
  exists ms lms, Forall2 mapping_of (b_options b) ms /\
             cv_mappings (from_builder e b) =
             filter (fun m => negb (match cm_options m with [] => true | _ => false end)) (ms ++ lms).
Proof. exact from_builder_mappings. Qed.
Print Assumptions one_mapping_per_option.

(* for every builder FromAST derives (field names distinct): the converter has exactly one mapping per option,
   in option order; each is guarded by the guards of its single assignment (non-nil path, non-empty string,
   non-empty array, different from the default) and carries one argument read from the field *)
Theorem converter_shape_of_derived_builders : forall ss bs b e,
  from_ast ss = Ok bs -> In b bs ->
  (forall a dh fs, resolve_to_type (res_fuel ss) ss (o_type (b_for b)) = Ok (TStruct a dh fs) -> NoDup (map f_name fs)) ->
  exists fs', Forall2 (fun f o => struct_field_to_option f = Ok o) fs' (b_options b) /\
              cv_mappings (from_builder e b) = derived_mappings e b fs' (b_options b).
Proof. exact from_ast_converter_shape_proof. Qed.
Print Assumptions converter_shape_of_derived_builders.

(* executing the emitted calls (C09 option_sequences): a field holds the value of the call of its option, a
   field whose option was not emitted holds what the constructor left there *)
Theorem rebuilt_fields_follow_calls : forall e b calls st stn,
  derived_builder b -> is_struct_val (bs_obj st) = true ->
  go_calls e b st calls = GOk stn ->
  forall f o, In o (b_options b) -> struct_field_to_option f = Ok o -> f_name f <> "" ->
    match last_call (f_name f) calls with
    | None => obj_field (bs_obj stn) (f_name f) = obj_field (bs_obj st) (f_name f)
    | Some [av] =>
        match arg_value e [(f_name f, av)] (mkArg (f_name f) (f_type f)) with
        | GOk (Some v) => obj_field (bs_obj stn) (f_name f) = Some (maybe_ptr (f_type f) v)
        | _ => True
        end
    | Some _ => True
    end.
Proof. exact go_sequence_last_write_proof. Qed.
Print Assumptions rebuilt_fields_follow_calls.

(* the call emitted for the option FromAST derives for a field of plain type: executed, it stores the value
   the converter read from that field (x; printed dereferenced as y when the field is a pointer) and leaves
   every other field alone *)
Theorem convert_then_build_partial : forall e f o st fs x y,
  struct_field_to_option f = Ok o -> f_name f <> "" ->
  type_has_builder e (f_type f) = false ->
  bs_obj st = GStruct fs -> gmap_find fs (f_name f) <> None ->
  (if as_pointer (f_type f) then x = GPtr y else x = y) ->
  exists fs', go_option e o st [AVal y] = GOk (mkBState (GStruct fs') (bs_errors st)) /\
              gmap_find fs' (f_name f) = Some x /\
              (forall g, g <> f_name f -> gmap_find fs' g = gmap_find fs g).
Proof. exact derived_call_writes_back_proof. Qed.
Print Assumptions convert_then_build_partial.

(* the full statement: the rebuilt object equals v in every field that differs from the builder's defaults *)
Definition convert_then_build_statement : Prop :=
  forall e p n v w d,
    convert_then_build e p n v = GOk (BROk w) -> default_of e p n = Some d ->
    forall g, obj_field w g = obj_field v g \/ obj_field v g = obj_field d g.

(* witness: Root { name: string (default "d"), size?: int64 };  v = { name: "" }.  The guard
   `input.Name != "" && input.Name != "d"` skips the option, the constructor's default "d" stays *)
Definition c14_ctx : schemas :=
  [mkSchema "p" {| m_kind := "" ; m_variant := "" ; m_identifier := "" |} "" ty_zero
     [("Root", mkObject "Root" [] (TStruct A0 [] [
          mkField "name" [] (TScalar {| nullable := false ; dflt := DStr "d" ; hints := [] |} KString DNil []) true;
          mkField "size" [] (TScalar {| nullable := true ; dflt := DNil ; hints := [] |} KInt64 DNil []) false]) "p" "Root")]].
Definition c14_env : benv :=
  mkBEnv c14_ctx (match from_ast c14_ctx with Ok bs => bs | _ => [] end)
         [("p", "Root", GStruct [("name", GStr "d"); ("size", GNil)])].

Theorem convert_then_build_refuted : ~ convert_then_build_statement.
Proof.
  intros H.
  destruct (H c14_env "p" "Root" (GStruct [("name", GStr ""); ("size", GNil)])
              (GStruct [("name", GStr "d"); ("size", GNil)]) (GStruct [("name", GStr "d"); ("size", GNil)])
              eq_refl eq_refl "name") as [E|E]; vm_compute in E; discriminate.
Qed.
Print Assumptions convert_then_build_refuted.

(* non-vacuity: a value that differs from the defaults in both fields is converted into two calls, in option
   order, and rebuilt exactly *)
Example c14_nonvacuous :
  converter_output c14_env "p" "Root" (GStruct [("name", GStr "abc"); ("size", GPtr (GInt 5))])
    = GOk (BBuild "p" "Root" [] [("name", [BVal (GStr "abc")]); ("size", [BVal (GInt 5)])]) /\
  convert_then_build c14_env "p" "Root" (GStruct [("name", GStr "abc"); ("size", GPtr (GInt 5))])
    = GOk (BROk (GStruct [("name", GStr "abc"); ("size", GPtr (GInt 5))])).
Proof. vm_compute. split; reflexivity. Qed.


(* END TO END, for every builder whose options are the options FromAST derives for a list of fields with distinct
   non-empty names (what converter_shape_of_derived_builders gives for every from_ast builder) and every value
   v satisfying the decidable conv_safe (Model/ConverterSpec.v: per field, either the option's guards hold and the
   printed argument, stored by the option, is the value read -- or they do not hold and the field already holds
   the constructor's value; scalar-like fields without builders): the converter returns a builder expression
   whose execution (C09 builder_eval) yields an object equal to v at EVERY field the builder has an option for;
   Build() is Validate() of that object. *)
Theorem convert_then_build_partial_whole : forall e b fs v st0,
  locate_builder (be_builders e) (builder_for_pkg b) (b_name b) = Some b ->
  Forall2 (fun f o => struct_field_to_option f = Ok o) fs (b_options b) ->
  NoDup (map f_name fs) -> (forall f, In f fs -> f_name f <> "") ->
  ct_args (b_ctor b) = [] -> cv_ctor_args (from_builder e b) = [] ->
  go_new_builder e b [] = GOk st0 -> is_struct_val (bs_obj st0) = true ->
  conv_safe e b fs (b_options b) v (bs_obj st0) = true ->
  exists calls stn,
    converter_output e (builder_for_pkg b) (b_name b) v = GOk (BBuild (builder_for_pkg b) (b_name b) [] calls) /\
    builder_eval e (builder_for_pkg b) (b_name b) [] calls = GOk (stn, go_build e b stn) /\
    forall f, In f fs -> obj_field (bs_obj stn) (f_name f) = obj_field v (f_name f).
Proof. exact convert_then_build_partial_whole_proof. Qed.
Print Assumptions convert_then_build_partial_whole.

(* non-vacuity: the builder of the C14 example; conv_safe holds for a value that differs from the defaults in
   both fields and for the default value itself, and fails for the witness of convert_then_build_refuted *)
Definition c14w_ctx : schemas :=
  [mkSchema "p" {| m_kind := "" ; m_variant := "" ; m_identifier := "" |} "" ty_zero
     [("Root", mkObject "Root" [] (TStruct A0 [] [
          mkField "name" [] (TScalar {| nullable := false ; dflt := DStr "d" ; hints := [] |} KString DNil []) true;
          mkField "size" [] (TScalar {| nullable := true ; dflt := DNil ; hints := [] |} KInt64 DNil []) false]) "p" "Root")]].
Definition c14w_env : benv :=
  mkBEnv c14w_ctx (match from_ast c14w_ctx with Ok bs => bs | _ => [] end)
         [("p", "Root", GStruct [("name", GStr "d"); ("size", GNil)])].
Definition c14w_fields : list field :=
  match c14w_ctx with [s] => match s_objects s with [(_, o)] => match o_type o with TStruct _ _ fs => fs | _ => [] end | _ => [] end | _ => [] end.

Definition c14w_b : builder := match be_builders c14w_env with b :: _ => b | [] => mkBuilder (mkObject "" [] ty_zero "" "") "" "" [] (mkConstructor [] []) [] [] end.
Example c14_whole_nonvacuous :
    be_builders c14w_env = [c14w_b] /\
    conv_safe c14w_env c14w_b c14w_fields (b_options c14w_b) (GStruct [("name", GStr "abc"); ("size", GPtr (GInt 5))])
              (GStruct [("name", GStr "d"); ("size", GNil)]) = true /\
    conv_safe c14w_env c14w_b c14w_fields (b_options c14w_b) (GStruct [("name", GStr "d"); ("size", GNil)])
              (GStruct [("name", GStr "d"); ("size", GNil)]) = true /\
    conv_safe c14w_env c14w_b c14w_fields (b_options c14w_b) (GStruct [("name", GStr ""); ("size", GNil)])
              (GStruct [("name", GStr "d"); ("size", GNil)]) = false /\
    cv_ctor_args (from_builder c14w_env c14w_b) = [] /\
    go_new_builder c14w_env c14w_b [] = GOk (mkBState (GStruct [("name", GStr "d"); ("size", GNil)]) []).
Proof. repeat split; vm_compute; reflexivity. Qed.
Example c14_whole_nonvacuous_options :
  Forall2 (fun f o => struct_field_to_option f = Ok o) c14w_fields (b_options c14w_b).
Proof.
  assert (Hf : c14w_fields = firstn 2 c14w_fields) by (vm_compute; reflexivity).
  assert (Ho : b_options c14w_b = firstn 2 (b_options c14w_b)) by (vm_compute; reflexivity).
  remember c14w_fields as fs eqn:Efs. remember (b_options c14w_b) as os eqn:Eos.
  vm_compute in Efs. vm_compute in Eos. subst fs os.
  repeat (constructor; [vm_compute; reflexivity|]). constructor.
Qed.
