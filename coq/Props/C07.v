(* C07 - outputs independent of sibling languages and of input order; inputs never mutated.
   Statements only; each closed by `exact <lemma>`; Print Assumptions under each.
   Consolidate / Merge are modelled on the IR (Model/Pipeline.v); the language loop of
   Pipeline.Run runs over a labelled heap value and reuses C18 (copy_faithful, copy_independent,
   mutation_frame, current_spec_sound) - imported, not re-proved. *)
From Coq Require Import List String Bool Arith Permutation.
From Cog Require Import Model.Pipeline Model.HeapCheck Proofs.HeapProofs Proofs.PipelineProofs
  Proofs.PipelineRunProofs Props.C18 Gen.CopySpec_gen.
Import ListNotations.
Local Open Scope list_scope.

(* ---------------- same-package inputs: union or conflict ---------------------------------------- *)
(* If Consolidate succeeds then, package by package, the result holds every definition of every
   input of that package - the very object, or one that Object.Equal identifies with it - and
   nothing else: no definition is dropped, overwritten or invented. (For every sequence of package
   groups - in particular `group_by_package inputs`, the one the current code uses; inputs
   well-formed: objects keyed by their name, names distinct.) *)
Theorem merge_union_or_conflict : forall seq r,
  Forall (fun pg => Forall wf_schema (snd pg)) seq ->
  consolidate_seq seq = Ok r ->
  Forall2 (fun pg rs => s_pkg rs = fst pg /\ union_of (snd pg) rs) seq r.
Proof. exact merge_union_or_conflict_proof. Qed.
Print Assumptions merge_union_or_conflict.

(* ... and two inputs of one package that define one name differently make the run fail *)
Theorem merge_conflict_is_an_error : forall pkg s1 s2 k o1 o2,
  wf_schema s1 -> wf_schema s2 ->
  In (k, o1) (s_objects s1) -> In (k, o2) (s_objects s2) -> object_eqb o1 o2 = false ->
  is_ok (merge_group pkg [s1; s2]) = false.
Proof. exact merge_conflict_err_proof. Qed.
Print Assumptions merge_conflict_is_an_error.

(* ---------------- input order ------------------------------------------------------------------- *)
(* Schemas.Consolidate as it is now (fix 3c2d3f2) is a function of its inputs: the packages come
   out in order of first appearance. *)
Theorem consolidate_result_order : forall ss r, consolidate ss = Ok r ->
  map s_pkg r = map fst (group_by_package ss) /\ (NoDup (map s_pkg ss) -> map s_pkg r = map s_pkg ss).
Proof. exact consolidate_result_order_proof. Qed.
Print Assumptions consolidate_result_order.

(* Permuting inputs that define pairwise different packages changes neither accept/reject nor any
   per-package schema (Schemas.Locate); the returned list is permuted along with the inputs (it
   lists the packages in input order on both sides) and nothing else changes. That the generated
   FILES do not depend on that list order is a property of the jennies: validated by the
   input-permutation runs of the correspondence, not proved. *)
Theorem input_order_irrelevant : forall ss ss',
  NoDup (map s_pkg ss) -> Permutation ss ss' ->
  is_ok (consolidate ss) = is_ok (consolidate ss') /\
  forall r, consolidate ss = Ok r ->
    exists r', consolidate ss' = Ok r' /\ Permutation r r' /\ (forall pkg, locate r pkg = locate r' pkg) /\
               map s_pkg r = map s_pkg ss /\ map s_pkg r' = map s_pkg ss'.
Proof. exact input_order_irrelevant_proof. Qed.
Print Assumptions input_order_irrelevant.

(* Adding (last) an input whose package no other input defines: the result is the old result -
   same schemas, same order - followed by the new package's schema. *)
Theorem unreferenced_input_irrelevant : forall ss x r',
  NoDup (map s_pkg (ss ++ [x])) -> consolidate (ss ++ [x]) = Ok r' ->
  exists r y, consolidate ss = Ok r /\ r' = r ++ [y] /\ s_pkg y = s_pkg x /\
              forall pkg, pkg <> s_pkg x -> locate r pkg = locate r' pkg.
Proof. exact unreferenced_input_irrelevant_proof. Qed.
Print Assumptions unreferenced_input_irrelevant.

(* The same two statements for the variant that ranged over the byPackage map (before the fix;
   not cog's code any more), under ANY iteration orders before and after: per-package schemas
   only - the order of the list followed the map (C03, unsorted_variant_consolidate_map_order_refuted). *)
Theorem map_order_variant_input_order_irrelevant : forall ss ss' ord ord',
  NoDup (map s_pkg ss) -> Permutation ss ss' ->
  (forall l, Permutation (ord l) l) -> (forall l, Permutation (ord' l) l) ->
  is_ok (consolidate_map_order ord ss) = is_ok (consolidate_map_order ord' ss') /\
  forall r, consolidate_map_order ord ss = Ok r ->
    exists r', consolidate_map_order ord' ss' = Ok r' /\ Permutation r r' /\ forall pkg, locate r pkg = locate r' pkg.
Proof. exact map_order_input_order_irrelevant_proof. Qed.
Print Assumptions map_order_variant_input_order_irrelevant.

(* ---------------- the language loop -------------------------------------------------------------- *)
(* ASSUMED (Section hypotheses made explicit below): a sound copy table that drops nothing; a copy
   mode deep enough for the shared value's type; a chain writes only through locations of the copy
   it was handed or through later allocations; what is generated for a language is a function
   `out` of the language and of the DATA of the copy (jennies abstracted). *)
Theorem process_does_not_mutate : forall (lang : Type) d sp off fuel t m
  (writes : lang -> hval -> list (loc * list (string * hval))) (out : lang -> hval -> list file),
  spec_sound d sp fuel = true -> mode_ok d sp fuel t m = true ->
  (forall L c, Forall (fun w => In (fst w) (locs c) \/ off <= fst w) (writes L c)) ->
  forall L shared, wt d t shared = true -> Forall (fun l => l < off) (locs shared) ->
  fst (iteration lang d sp off t m write writes out L shared) = shared.
Proof. exact process_does_not_mutate_proof. Qed.
Print Assumptions process_does_not_mutate.

(* whatever languages run, in whatever order: each gets exactly what it gets alone *)
Theorem language_independent : forall (lang : Type) d sp off fuel t m
  (writes : lang -> hval -> list (loc * list (string * hval))) (out : lang -> hval -> list file),
  spec_sound d sp fuel = true -> no_missing d sp = true -> mode_ok d sp fuel t m = true ->
  (forall L c, Forall (fun w => In (fst w) (locs c) \/ off <= fst w) (writes L c)) ->
  forall seq shared, wt d t shared = true -> Forall (fun l => l < off) (locs shared) ->
  run lang d sp off t m write writes out seq shared = map (fun L => (L, out L (erase shared))) seq.
Proof. exact language_independent_proof. Qed.
Print Assumptions language_independent.

Theorem language_alone_or_together : forall (lang : Type) d sp off fuel t m
  (writes : lang -> hval -> list (loc * list (string * hval))) (out : lang -> hval -> list file),
  spec_sound d sp fuel = true -> no_missing d sp = true -> mode_ok d sp fuel t m = true ->
  (forall L c, Forall (fun w => In (fst w) (locs c) \/ off <= fst w) (writes L c)) ->
  forall seq shared L fs, wt d t shared = true -> Forall (fun l => l < off) (locs shared) ->
  In (L, fs) (run lang d sp off t m write writes out seq shared) ->
  run lang d sp off t m write writes out [L] shared = [(L, fs)].
Proof. exact PipelineRunProofs.language_alone_or_together. Qed.
Print Assumptions language_alone_or_together.

(* for cog's own copy routines (table regenerated from /repo by tools/copyspec, C18): Schemas.DeepCopy
   is a fresh slice of fresh pointers to Schema.DeepCopy() results = mode SlicePtrCall *)
Definition SCHEMAS_T : gty := GSlice (GPtr (GNamed "Schema")).
Theorem cog_language_independent : forall (lang : Type)
  (writes : lang -> hval -> list (loc * list (string * hval))) (out : lang -> hval -> list file),
  (forall L c, Forall (fun w => In (fst w) (locs c) \/ OFF <= fst w) (writes L c)) ->
  forall seq shared, wt decls SCHEMAS_T shared = true -> Forall (fun l => l < OFF) (locs shared) ->
  run lang decls copy_spec OFF SCHEMAS_T SlicePtrCall write writes out seq shared
  = map (fun L => (L, out L (erase shared))) seq.
Proof.
  intros lang writes out Hw. apply (language_independent lang decls copy_spec OFF FUEL SCHEMAS_T SlicePtrCall writes out);
    [exact current_spec_sound|exact current_spec_no_missing|vm_compute; reflexivity|exact Hw].
Qed.
Print Assumptions cog_language_independent.

(* without the copy the statement is false *)
Theorem language_dependent_without_copy_refuted :
  let r := run bool [] [] 4000 (GSlice GScalar) Shallow write nocopy_writes nocopy_out in
  exists fs fs', In (false, fs) (r [true; false] nocopy_shared) /\ r [false] nocopy_shared = [(false, fs')] /\ fs <> fs'.
Proof. exact language_dependent_without_copy_refuted_proof. Qed.
Print Assumptions language_dependent_without_copy_refuted.

(* non-vacuity: two inputs of one package with disjoint definitions merge into their union; the
   same two with one name defined differently are rejected *)
Definition ex_obj (n : string) (k : skind) : string * object :=
  (n, mkObject n [] (TScalar attrs0 k DNil []) "p" n).
Definition ex_in (objs : list (string * object)) : schema :=
  mkSchema "p" {| m_kind := "" ; m_variant := "" ; m_identifier := "" |} "" ty_zero objs.
Example c07_nonvacuous :
  (exists r, consolidate [ex_in [ex_obj "A" KString]; ex_in [ex_obj "B" KBool]] = Ok [r]
             /\ map fst (s_objects r) = ["A"; "B"]%string) /\
  is_ok (consolidate [ex_in [ex_obj "A" KString]; ex_in [ex_obj "A" KBool]]) = false.
Proof. split; [eexists; split; vm_compute; reflexivity|vm_compute; reflexivity]. Qed.
