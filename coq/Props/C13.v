(* C13 — generated Equals is an equivalence matching equality of the encoded values.
   Statements only.  eqc / encode / wt / vsim / keys_aligned: coq/Model/GoSem*.v.
   The faithful model of templates/types/struct_equality_method.tmpl compares maps by `len` plus
   lookups of SELF's keys in OTHER; symmetry, transitivity and agreement with the encoding are
   therefore refuted (witnesses below) and proved under the explicit side condition
   `keys_aligned a b` (corresponding maps have the same key set). *)
From Coq Require Import List String ZArith Bool.
From Cog Require Import Model.GoSem Proofs.GoSemEqualsProofs.
From Cog Require Import Model.GoSemSpec13P Proofs.GoSemEqualsEnc.
Import ListNotations.
Local Open Scope string_scope.

(* values of a type of a supported context *)
Definition typed (ctx : schemas) (t : ty) (v : gval) : Prop :=
  ctx_supported ctx = true /\ ty_supported ctx t = true /\ wt ctx t v = true.

(* ---- reflexivity: holds in full ---- *)
Theorem equals_refl : forall ctx t a, typed ctx t a -> eqc ctx t (t_nullable t) a a = true.
Proof. exact GoSemEqualsProofs.equals_refl. Qed.
Print Assumptions equals_refl.

(* ---- symmetry ---- *)
Definition equals_sym_statement : Prop :=
  forall ctx t a b, typed ctx t a -> typed ctx t b ->
    eqc ctx t (t_nullable t) a b = eqc ctx t (t_nullable t) b a.
Theorem equals_sym_refuted : ~ equals_sym_statement.
Proof. exact GoSemEqualsProofs.equals_sym_refuted. Qed.
Print Assumptions equals_sym_refuted.
Theorem equals_sym_partial : forall ctx t a b, typed ctx t a -> typed ctx t b -> keys_aligned a b = true ->
    eqc ctx t (t_nullable t) a b = eqc ctx t (t_nullable t) b a.
Proof. exact GoSemEqualsProofs.equals_sym_partial. Qed.
Print Assumptions equals_sym_partial.

(* ---- transitivity ---- *)
Definition equals_trans_statement : Prop :=
  forall ctx t a b c, typed ctx t a -> typed ctx t b -> typed ctx t c ->
    eqc ctx t (t_nullable t) a b = true -> eqc ctx t (t_nullable t) b c = true ->
    eqc ctx t (t_nullable t) a c = true.
Theorem equals_trans_refuted : ~ equals_trans_statement.
Proof. exact GoSemEqualsProofs.equals_trans_refuted. Qed.
Print Assumptions equals_trans_refuted.
Theorem equals_trans_partial : forall ctx t a b c, typed ctx t a -> typed ctx t b -> typed ctx t c ->
    keys_aligned a b = true -> keys_aligned b c = true ->
    eqc ctx t (t_nullable t) a b = true -> eqc ctx t (t_nullable t) b c = true ->
    eqc ctx t (t_nullable t) a c = true.
Proof. exact GoSemEqualsProofs.equals_trans_partial. Qed.
Print Assumptions equals_trans_partial.

(* ---- Equals => equal encodings up to absent/null/empty collections ---- *)
Definition equals_implies_encode_eq_mod_empty_statement : Prop :=
  forall ctx t a b, typed ctx t a -> typed ctx t b ->
    eqc ctx t (t_nullable t) a b = true ->
    json_eq_mod_empty (encode ctx t a) (encode ctx t b) = true.
Theorem equals_implies_encode_eq_mod_empty_refuted : ~ equals_implies_encode_eq_mod_empty_statement.
Proof. exact GoSemEqualsProofs.equals_implies_encode_eq_mod_empty_refuted. Qed.
Print Assumptions equals_implies_encode_eq_mod_empty_refuted.
Theorem equals_implies_encode_eq_mod_empty_partial : forall ctx t a b, typed ctx t a -> typed ctx t b ->
    keys_aligned a b = true -> eqc ctx t (t_nullable t) a b = true ->
    json_eq_mod_empty (encode ctx t a) (encode ctx t b) = true.
Proof. exact GoSemEqualsProofs.equals_implies_encode_eq_mod_empty_partial. Qed.
Print Assumptions equals_implies_encode_eq_mod_empty_partial.

(* ---- any difference visible in the encoding (a changed leaf, at any depth) is detected ---- *)
Definition single_leaf_difference_detected_statement : Prop :=
  forall ctx t a b, typed ctx t a -> typed ctx t b ->
    json_eq_mod_empty (encode ctx t a) (encode ctx t b) = false ->
    eqc ctx t (t_nullable t) a b = false.
Theorem single_leaf_difference_detected_refuted : ~ single_leaf_difference_detected_statement.
Proof. exact GoSemEqualsProofs.single_leaf_difference_detected_refuted. Qed.
Print Assumptions single_leaf_difference_detected_refuted.
Theorem single_leaf_difference_detected_partial : forall ctx t a b, typed ctx t a -> typed ctx t b ->
    keys_aligned a b = true ->
    json_eq_mod_empty (encode ctx t a) (encode ctx t b) = false ->
    eqc ctx t (t_nullable t) a b = false.
Proof. exact GoSemEqualsProofs.single_leaf_difference_detected_partial. Qed.
Print Assumptions single_leaf_difference_detected_partial.

(* ---- equal encodings => Equals ---- *)
Definition encode_eq_implies_equals_statement : Prop :=
  forall ctx t a b, typed ctx t a -> typed ctx t b ->
    json_eq (encode ctx t a) (encode ctx t b) = true ->
    eqc ctx t (t_nullable t) a b = true.
(* refuted twice: time.Time compared with `!=` (the same instant parsed from "...Z" and from "...+00:00"
   carries a different *Location), and a union int64|float64 holding 1 in either branch *)
Theorem encode_eq_implies_equals_refuted : ~ encode_eq_implies_equals_statement.
Proof. exact GoSemEqualsProofs.encode_eq_implies_equals_refuted. Qed.
Print Assumptions encode_eq_implies_equals_refuted.

(* ---- non-vacuity: a typed value with a non-empty map, slice and pointer, equal to itself ---- *)
Example c13_nonvacuous : exists ctx t a, typed ctx t a /\ eqc ctx t (t_nullable t) a a = true.
Proof. exact GoSemEqualsProofs.c13_nonvacuous. Qed.

(* ---- the fifth law has a proved partial form too (Proofs/GoSemEqualsEnc.v): equal encodings imply Equals for all
   typed values that are enc_faithful - a decidable walk excluding time.Time leaves, disjunction structs, structs
   declaring a field name twice, unnormalised floats and non-canonical `any` payloads; each exclusion is needed
   (seven witness lemmas encode_eq_implies_equals_needs_... in that file). No keys_aligned hypothesis. ---- *)
Theorem encode_eq_implies_equals_partial : forall ctx t a b,
  typed ctx t a -> typed ctx t b ->
  enc_faithful ctx t a = true -> enc_faithful ctx t b = true ->
  json_eq (encode ctx t a) (encode ctx t b) = true -> eqc ctx t (t_nullable t) a b = true.
Proof. exact GoSemEqualsEnc.encode_eq_implies_equals_partial. Qed.
Print Assumptions encode_eq_implies_equals_partial.
