(* C20 — pipeline, schema-transformation and builder-transformation YAML files are decoded
   strictly, and the published JSON Schemas accept exactly the keys the loaders accept.
   Statements only; each closed by `exact <lemma>` (or vm_compute for the obligations over the
   tables regenerated from /repo on this run: Gen/ConfigKeys_gen.v); Print Assumptions under each.

   Free-form by design, hence outside "part of the configuration language": every position whose
   shape is NMap or NAny in the regenerated forests -- today `parameters`, `templates_data`,
   `packages_import_map`, `builder_factories_class_map` (pipeline); `hints`, `defaults`,
   `default`, `discriminator_mapping`, `reference_value`, `value`, constraint `args` (schema
   transformations); `rename_options`, `composition_map`, initialisation `value`, assignment
   `constant` … (builder transformations).  `strict_at` never passes through them. *)
From Coq Require Import List String Bool Arith.
From Cog Require Import Model.Config Proofs.ConfigProofs Gen.ConfigKeys_gen.
Import ListNotations.
Local Open Scope string_scope.

(* ---------------------------------------------------------------- strict decoding, any depth *)
(* For EVERY forest, document, path (of any length, through declared keys and sequence elements)
   to a mapping that is decoded into a closed struct r, key k not declared by r, and value v:
   yaml.v3 with KnownFields(true) refuses the document with k: v added there. *)
Theorem unknown_key_rejected : forall D p n d r k v,
  strict_at D n d p = Some r -> undeclared D r k = true ->
  decode_strict D n (inject d p k v) = false.
Proof. exact unknown_key_rejected_proof. Qed.
Print Assumptions unknown_key_rejected.

(* … hence the loader (decode, then the As… conversions) refuses it, whenever its decoder is strict *)
Theorem unknown_key_rejected_by_loader : forall F p d r k v,
  f_known_fields F = true ->
  strict_at (f_defs F) (f_root F) d p = Some r -> undeclared (f_defs F) r k = true ->
  load F (inject d p k v) = false.
Proof. exact unknown_key_rejected_load_proof. Qed.
Print Assumptions unknown_key_rejected_by_loader.

(* and the flag is what it rests on: without KnownFields the same injection is accepted *)
Theorem lax_decoder_accepts_injection : forall D r o kvs k v,
  assoc D r = Some o -> assoc (o_fields o) k = None -> o_extra o = None -> mem k (keys_of kvs) = false ->
  decode false D (NObj r) (DMap kvs) = true ->
  decode false D (NObj r) (inject (DMap kvs) [] k v) = true.
Proof. exact lax_accepts_injection_proof. Qed.
Print Assumptions lax_decoder_accepts_injection.

(* Obligation over the decoder table regenerated from internal/codegen and internal/yaml: every
   yaml decoder the three loaders create has KnownFields(true) applied. *)
Theorem loaders_strict : forallb f_known_fields loaders = true.
Proof. vm_compute. reflexivity. Qed.
Print Assumptions loaders_strict.

(* So, for cog's three configuration languages as they are in the source now: *)
Theorem cog_unknown_key_rejected : forall F, In F loaders -> forall p d r k v,
  strict_at (f_defs F) (f_root F) d p = Some r -> undeclared (f_defs F) r k = true ->
  load F (inject d p k v) = false.
Proof.
  intros F HF p d r k v. apply unknown_key_rejected_by_loader.
  exact (proj1 (forallb_forall f_known_fields loaders) loaders_strict F HF).
Qed.
Print Assumptions cog_unknown_key_rejected.

(* ---------------------------------------------------------------- rules without action *)
(* A struct whose conversion is a union dispatch that refuses the empty case: a mapping in which
   no dispatched member is set (absent, or null) does not convert. *)
Theorem empty_rule_rejected : forall D C r o keys kvs,
  assoc D r = Some o -> In (CUnion keys true) (constrs_of C r) -> first_set keys kvs = None ->
  convert D C (NObj r) (DMap kvs) = false.
Proof. exact empty_rule_rejected_proof. Qed.
Print Assumptions empty_rule_rejected.

Theorem no_member_set_iff : forall keys kvs,
  first_set keys kvs = None <-> (forall k, In k keys -> member_set kvs k = false).
Proof. exact first_set_none_iff. Qed.
Print Assumptions no_member_set_iff.

(* Obligations over the regenerated conversion tables: `passes`, `builders` and `options` are
   converted entry by entry by a union dispatch ending in an error … *)
Theorem cog_rule_sites : forallb (fun s => rule_site_ok (forest_of loaders (fst s)) (fst (snd s)) (snd (snd s))) rule_sites = true.
Proof. vm_compute. reflexivity. Qed.
Print Assumptions cog_rule_sites.

(* … so a file with an entry `- {}` (or any entry in which no recognised action is set) in one of
   those lists is refused, wherever the entry stands: *)
Theorem cog_rule_without_action_rejected : forall fi key e, In (fi, (key, e)) rule_sites ->
  forall kvs i ds j ekvs,
    nth_error kvs i = Some (key, DSeq ds) -> nth_error ds j = Some (DMap ekvs) ->
    first_set (rule_keys (forest_of loaders fi) e) ekvs = None ->
    load (forest_of loaders fi) (DMap kvs) = false.
Proof.
  intros fi key e Hin. apply rule_site_rejects_empty_proof.
  exact (proj1 (forallb_forall _ rule_sites) cog_rule_sites (fi, (key, e)) Hin).
Qed.
Print Assumptions cog_rule_without_action_rejected.

(* ---------------------------------------------------------------- union registries *)
(* Every nil-able member a union struct declares is tested by its As… if-chain, and the chain
   ends in an error (regenerated from internal/yaml/compilerpasses.go, builder.go, option.go). *)
Theorem registry_total : forallb union_total registry = true.
Proof. vm_compute. reflexivity. Qed.
Print Assumptions registry_total.

(* Every struct that is a union struct, or flattens one with `,inline`, has that union's dispatch
   in its conversion (i.e. something calls the As… method on it). *)
Theorem unions_enforced :
  forallb (fun s => existsb (fun u => String.eqb (u_struct u) (snd (snd s)) &&
                                      union_enforced (f_conv (forest_of loaders (fst s))) (fst (snd s)) u) registry)
          union_sites = true.
Proof. vm_compute. reflexivity. Qed.
Print Assumptions unions_enforced.

(* ---------------------------------------------------------------- published schemas *)
(* General: a finite two-way simulation between the struct names of one forest and the definition
   names of another makes both accept exactly the same mapping keys, in every document. *)
Theorem same_keys_sound : forall R L S, same_keys R L S = true ->
  forall d, keys_ok (f_defs L) (f_root L) d = keys_ok (f_defs S) (f_root S) d.
Proof. exact same_keys_sound_proof. Qed.
Print Assumptions same_keys_sound.

(* Obligation over the regenerated forests: loader structs and schemas/*.json declare the same
   keys at every position, with the same shape (struct / sequence / free-form map / scalar / any)
   under every key, and nothing the translators did not understand. *)
Theorem schemas_accept_same_keys :
  same_keys pipeline_rel pipeline_loader pipeline_schema &&
  same_keys compiler_passes_rel compiler_passes_loader compiler_passes_schema &&
  same_keys veneers_rel veneers_loader veneers_schema = true.
Proof. vm_compute. reflexivity. Qed.
Print Assumptions schemas_accept_same_keys.

(* lifted to documents: a document uses only keys the schema allows <-> only keys the loader allows *)
Theorem schemas_accept_same_keys_documents : forall d,
  keys_ok (f_defs pipeline_loader) (f_root pipeline_loader) d = keys_ok (f_defs pipeline_schema) (f_root pipeline_schema) d /\
  keys_ok (f_defs compiler_passes_loader) (f_root compiler_passes_loader) d =
    keys_ok (f_defs compiler_passes_schema) (f_root compiler_passes_schema) d /\
  keys_ok (f_defs veneers_loader) (f_root veneers_loader) d = keys_ok (f_defs veneers_schema) (f_root veneers_schema) d.
Proof.
  intros d. pose proof schemas_accept_same_keys as H.
  apply andb_true_iff in H. destruct H as [H H3]. apply andb_true_iff in H. destruct H as [H1 H2].
  split; [exact (same_keys_sound _ _ _ H1 d)|]. split; [exact (same_keys_sound _ _ _ H2 d)|exact (same_keys_sound _ _ _ H3 d)].
Qed.
Print Assumptions schemas_accept_same_keys_documents.

(* what loads uses only keys of the language; what validates uses only keys of the schema *)
Theorem loaded_uses_declared_keys : forall D d n, decode_strict D n d = true -> keys_ok D n d = true.
Proof. exact decode_keys_ok_proof. Qed.
Print Assumptions loaded_uses_declared_keys.

Theorem validated_uses_declared_keys : forall D d n, schema_accepts D n d = true -> keys_ok D n d = true.
Proof. exact schema_accepts_keys_ok_proof. Qed.
Print Assumptions validated_uses_declared_keys.

(* an unknown key at a language position is a key the forest does not allow -- so, by the
   simulation, the published schema refuses it as well *)
Theorem unknown_key_not_allowed : forall D p n d r k v,
  strict_at D n d p = Some r -> undeclared D r k = true -> keys_ok D n (inject d p k v) = false.
Proof. exact unknown_key_not_keys_ok_proof. Qed.
Print Assumptions unknown_key_not_allowed.

(* ---------------------------------------------------------------- non-vacuity *)
(* a self-contained configuration language: root {rules: [{omit: {name: string}} | {keep: {}}], opts: map} *)
Example c20_forest : forest :=
  {| f_root := NObj "Root";
     f_defs := [("Root", {| o_fields := [("rules", NSeq (NObj "Rule")); ("opts", NMap NAny)]; o_extra := None |});
                ("Rule", {| o_fields := [("omit", NObj "Omit"); ("keep", NObj "Keep")]; o_extra := None |});
                ("Omit", {| o_fields := [("name", NScalar KString)]; o_extra := None |});
                ("Keep", {| o_fields := []; o_extra := None |})];
     f_conv := [("Root", [CEach "rules"]); ("Rule", [CUnion ["omit"; "keep"] true])];
     f_known_fields := true |}.
Example c20_doc : doc :=
  DMap [("opts", DMap [("anything", DScalar SInt)]);
        ("rules", DSeq [DMap [("keep", DMap [])]; DMap [("omit", DMap [("name", DScalar (SStr "x"))])]])].
Example c20_nonvacuous :
  load c20_forest c20_doc = true /\
  strict_at (f_defs c20_forest) (f_root c20_forest) c20_doc [1; 1; 0] = Some "Omit" /\
  undeclared (f_defs c20_forest) "Omit" "nmae" = true /\
  load c20_forest (inject c20_doc [1; 1; 0] "nmae" (DScalar (SStr "x"))) = false /\
  (* free-form position: not part of the language, injection accepted *)
  strict_at (f_defs c20_forest) (f_root c20_forest) c20_doc [0] = None /\
  load c20_forest (inject c20_doc [0] "nmae" (DScalar (SStr "x"))) = true /\
  (* a rule entry with no action *)
  load c20_forest (DMap [("rules", DSeq [DMap [("keep", DMap [])]; DMap []])]) = false /\
  load c20_forest (DMap [("rules", DSeq [DMap [("omit", DScalar SNull)]])]) = false.
Proof. vm_compute. repeat split. Qed.

(* the same on cog's own languages as regenerated now: a valid document reaching the deepest
   language position, and an unknown key there *)
Example c20_nonvacuous_current :
  let F := forest_of loaders example_file in
  load F example_doc = true /\
  schema_accepts (f_defs (forest_of schemas example_file)) (f_root (forest_of schemas example_file)) example_doc = true /\
  (exists r, strict_at (f_defs F) (f_root F) example_doc example_path = Some r /\
             undeclared (f_defs F) r "verif_unknown_key" = true) /\
  load F (inject example_doc example_path "verif_unknown_key" (DScalar (SStr "x"))) = false /\
  3 <= List.length example_path.
Proof.
  cbv zeta. split; [vm_compute; reflexivity|]. split; [vm_compute; reflexivity|].
  split; [eexists; split; vm_compute; reflexivity|]. split; [vm_compute; reflexivity|].
  vm_compute. repeat constructor.
Qed.
