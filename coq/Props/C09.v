(* C09 — a builder option sets exactly its target; invalid input is reported, valid input never fails.
   Statements only; each closed by `exact <lemma>`; Print Assumptions under each.

   The model: coq/Model/BuilderEval.v (Go: builder.tmpl, options.tmpl, assignment.tmpl, nilcheck.tmpl) and
   coq/Model/PyBuilderEval.v (Python) give the meaning of the generated builder code as a function of the
   post-chain context and of the builder IR the jennies generate from (after veneers and
   languages.GenerateBuilderNilChecks), over the Go values / Validate() of coq/Model/GoSem*.v.  The
   constructors of the generated types are an input (`be_defaults`).  Vocabulary: Model/BuilderSpec.v.

   What is proved for ALL builder IRs (any veneers): the frame half of "exactly" and the constants.
   What is proved for the options BuilderGenerator.FromAST derives (struct_field_to_option f = Ok o: one
   argument, one direct assignment to the field): the target half, the call sequences, and the reporting of
   constraint violations.  What the faithful model REFUTES is stated as `..._refuted` with its witness. *)
From Coq Require Import List String ZArith Bool.
From Cog Require Import Model.IR Model.Json Model.Builders Model.BuildersEq Model.Spec16 Model.GoSem Model.GoSemSpec08
  Model.BuilderEval Model.PyBuilderEval Model.BuilderSpec Proofs.BuilderEvalProofs Proofs.BuilderEvalProofs2 Proofs.BuilderEvalProofs3.
Import ListNotations.
Local Open Scope string_scope.

(* ------------------------------------------------------------------ exactly the target *)

(* frame, for every option of every builder IR whose paths start with a named field (any veneers, nil checks,
   envelopes, append / index, several assignments, a nested builder that fails half-way): a top-level field
   that is not the head of one of the option's assignment or nil-check paths is left untouched *)
Theorem option_frame_go : forall e o st args st',
  go_option e o st args = GOk st' -> wf_option o = true ->
  forall g, ~ In g (option_heads o) -> obj_field (bs_obj st') g = obj_field (bs_obj st) g.
Proof. exact go_option_frame_proof. Qed.
Print Assumptions option_frame_go.

Theorem option_frame_python : forall e o obj args obj',
  py_option e o obj args = GOk obj' -> wf_option o = true ->
  forall g, ~ In g (option_heads o) -> obj_field obj' g = obj_field obj g.
Proof. exact py_option_frame_proof. Qed.
Print Assumptions option_frame_python.

(* nil checks initialise intermediate objects and nothing else: a guard whose path holds a value is a no-op *)
Theorem nil_check_only_initialises_go : forall e env obj nc x,
  path_get env (nc_path nc) obj = Some x -> x <> GNil -> go_nil_check e env obj nc = GOk obj.
Proof. exact go_nil_check_only_missing_proof. Qed.
Print Assumptions nil_check_only_initialises_go.

Theorem nil_check_only_initialises_python : forall e env obj nc x,
  path_get env (nc_path nc) obj = Some x -> x <> GNil -> py_nil_check e env obj nc = GOk obj.
Proof. exact py_nil_check_only_missing_proof. Qed.
Print Assumptions nil_check_only_initialises_python.

(* target + frame for the option FromAST derives for a field f: called with an argument that evaluates to v (a
   plain value, or the object a nested builder built), the object differs from the object before exactly at
   field f, which holds v (behind a pointer when the field is nullable and neither an array nor a map);
   builder.errors is unchanged *)
Theorem option_sets_exactly_target : forall e f o st fs old av v,
  struct_field_to_option f = Ok o -> f_name f <> "" ->
  bs_obj st = GStruct fs -> gmap_find fs (f_name f) = Some old ->
  arg_value e [(f_name f, av)] (mkArg (f_name f) (f_type f)) = GOk (Some v) ->
  exists fs', go_option e o st [av] = GOk (mkBState (GStruct fs') (bs_errors st)) /\
              gmap_find fs' (f_name f) = Some (maybe_ptr (f_type f) v) /\
              (forall g, g <> f_name f -> gmap_find fs' g = gmap_find fs g) /\
              map fst fs' = map fst fs.
Proof. exact go_derived_option_sets_proof. Qed.
Print Assumptions option_sets_exactly_target.

(* Python: the same, provided the argument satisfies the constraints the option checks first *)
Theorem option_sets_exactly_target_python : forall e f o fs old v bs,
  struct_field_to_option f = Ok o -> f_name f <> "" ->
  gmap_find fs (f_name f) = Some old ->
  holds_all (scalar_constraints (f_type f)) v = Some bs -> forallb (fun b => b) bs = true ->
  exists fs', py_option e o (GStruct fs) [AVal v] = GOk (GStruct fs') /\
              gmap_find fs' (f_name f) = Some v /\
              (forall g, g <> f_name f -> gmap_find fs' g = gmap_find fs g) /\
              map fst fs' = map fst fs.
Proof. exact py_derived_option_sets_proof. Qed.
Print Assumptions option_sets_exactly_target_python.

(* ------------------------------------------------------------------ constants *)

(* for every builder whose constructor constants sit on fields no option touches (const_safe: decidable),
   after the constructor and ANY sequence of option calls every constant field holds its constant *)
Theorem constants_present : forall e b st0 calls stn,
  const_safe b = true ->
  (forall d, default_of e (builder_for_pkg b) (builder_for_name b) = Some d -> is_struct_val d = true) ->
  go_new_builder e b [] = GOk st0 -> go_calls e b st0 calls = GOk stn ->
  forall a h c, In a (ct_assignments (b_ctor b)) -> const_assignment a = Some (h, c) ->
  exists v, go_const_value (path_last_type (as_path a)) c = GOk v /\ obj_field (bs_obj stn) h = Some v.
Proof. exact go_constants_present_proof. Qed.
Print Assumptions constants_present.

(* the builders FromAST derives are of that kind, and all their options have the derived shape, whenever the
   struct's field names are distinct and not empty *)
Theorem from_ast_builders_shape : forall ss bs b,
  from_ast ss = Ok bs -> In b bs ->
  (forall a dh fs, resolve_to_type (res_fuel ss) ss (o_type (b_for b)) = Ok (TStruct a dh fs) ->
                   NoDup (map f_name fs) /\ forall f, In f fs -> f_name f <> "") ->
  derived_builder b /\ const_safe b = true.
Proof. exact from_ast_builder_shape_proof. Qed.
Print Assumptions from_ast_builders_shape.

(* ------------------------------------------------------------------ call sequences *)

(* by induction over the call sequence, for a builder as FromAST derives it: after any sequence of option
   calls, a field holds the value of the LAST call of its option (when that argument evaluated), and a field
   whose option was never called holds what the constructor left there *)
Theorem option_sequences : forall e b calls st stn,
  derived_builder b -> is_struct_val (bs_obj st) = true ->
  go_calls e b st calls = GOk stn ->
  forall f o, In o (b_options b) -> struct_field_to_option f = Ok o -> f_name f <> "" ->
    match last_call (f_name f) calls with
    | None => obj_field (bs_obj stn) (f_name f) = obj_field (bs_obj st) (f_name f)
    | Some [av] =>
        match arg_value e [(f_name f, av)] (mkArg (f_name f) (f_type f)) with
        | GOk (Some v) => obj_field (bs_obj stn) (f_name f) = Some (maybe_ptr (f_type f) v)
        | _ => True
        end
    | Some _ => True
    end.
Proof. exact go_sequence_last_write_proof. Qed.
Print Assumptions option_sequences.

(* ------------------------------------------------------------------ invalid input is reported *)

(* Go: a violated constraint of a scalar field is reported by Build(), at the field's path *)
Theorem invalid_reported_partial : forall e b ob a dh fs f o st fvs at_ k cs c v,
  locate_object (be_ctx e) (builder_for_pkg b) (builder_for_name b) = Some ob ->
  o_type ob = TStruct a dh fs -> nullable a = false ->
  In f fs -> NoDup (map f_name fs) -> f_name f <> "" ->
  f_type f = TScalar at_ k DNil cs -> is_any (f_type f) = false ->
  struct_field_to_option f = Ok o ->
  bs_obj st = GStruct fvs -> map fst fvs = map f_name fs ->
  In c cs -> constraint_holds c v = Some false ->
  exists st', go_option e o st [AVal v] = GOk st' /\
              exists ps, go_build e b st' = BRErr ps /\ In (f_name f) ps.
Proof. exact go_violation_reported_proof. Qed.
Print Assumptions invalid_reported_partial.

(* Python: the option call itself raises *)
Theorem invalid_reported_python_partial : forall e f o obj v bs c,
  struct_field_to_option f = Ok o ->
  holds_all (scalar_constraints (f_type f)) v = Some bs ->
  In c (scalar_constraints (f_type f)) -> constraint_holds c v = Some false ->
  py_option e o obj [AVal v] = GPanic.
Proof.
  intros e f o obj v bs c D H I V. eapply py_derived_option_raises_proof; eauto.
  eapply holds_all_violation; eauto.
Qed.
Print Assumptions invalid_reported_python_partial.

(* the full statement for nested builders: "whenever a nested builder failed, Build() returns an error" *)
Definition invalid_reported : Prop :=
  forall e p n ctor calls st r,
    builder_eval e p n ctor calls = GOk (st, r) -> bs_errors st <> [] -> exists ps, r = BRErr ps.

(* what the generated code does instead, for every derived option: the error goes to builder.errors, the
   object is left as it was, and Build() answers exactly what it would have answered without the call *)
Theorem nested_failure_not_reported : forall e b f o st av,
  struct_field_to_option f = Ok o ->
  arg_value e [(f_name f, av)] (mkArg (f_name f) (f_type f)) = GOk None ->
  exists st', go_option e o st [av] = GOk st' /\ go_build e b st' = go_build e b st.
Proof. exact go_nested_failure_not_reported_proof. Qed.
Print Assumptions nested_failure_not_reported.

(* the witness: Root { opt?: Inner }, Inner { id: int64 >= 3 };  NewRootBuilder().Opt(NewInnerBuilder().Id(1)).Build() *)
Definition c09_ctx : schemas :=
  [mkSchema "p" {| m_kind := "" ; m_variant := "" ; m_identifier := "" |} "" ty_zero
     [("Inner", mkObject "Inner" [] (TStruct A0 [] [
          mkField "id" [] (TScalar A0 KInt64 DNil [{| c_op := ">=" ; c_args := [DInt "int64" 3] |}]) true]) "p" "Inner");
      ("Root", mkObject "Root" [] (TStruct A0 [] [
          mkField "kind" [] (TScalar A0 KString (DStr "k1") []) true;
          mkField "opt" [] (TRef {| nullable := true ; dflt := DNil ; hints := [] |} "p" "Inner") false;
          mkField "tags" [] (TArray A0 (TScalar A0 KInt64 DNil [{| c_op := ">=" ; c_args := [DInt "int64" 3] |}])) false]) "p" "Root")]].
Definition c09_env : benv :=
  mkBEnv c09_ctx (match from_ast c09_ctx with Ok bs => bs | _ => [] end)
         [("p", "Inner", GStruct [("id", GInt 0)]);
          ("p", "Root", GStruct [("kind", GStr "k1"); ("opt", GNil); ("tags", GNil)])].

Theorem invalid_reported_refuted : ~ invalid_reported.
Proof.
  intros H.
  destruct (H c09_env "p" "Root" [] [("opt", [BBuild "p" "Inner" [] [("id", [BJson (JNum 1 0)])]])]
              (mkBState (GStruct [("kind", GStr "k1"); ("opt", GNil); ("tags", GNil)]) ["opt"])
              (BROk (GStruct [("kind", GStr "k1"); ("opt", GNil); ("tags", GNil)]))) as [ps E].
  - vm_compute. reflexivity.
  - discriminate.
  - discriminate.
Qed.
Print Assumptions invalid_reported_refuted.

(* Python checks only the constraints FieldAssignment attaches to a scalar argument: a constraint on the
   ELEMENTS of a collection is not checked by the option (in Go, Build() reports it) *)
Definition invalid_reported_python : Prop :=
  forall e f o obj v, struct_field_to_option f = Ok o ->
    violations (be_ctx e) (f_name f) (f_type f) v <> [] -> py_option e o obj [AVal v] = GPanic.

Theorem invalid_reported_python_refuted : ~ invalid_reported_python.
Proof.
  intros H.
  set (f := mkField "tags" [] (TArray A0 (TScalar A0 KInt64 DNil [{| c_op := ">=" ; c_args := [DInt "int64" 3] |}])) false).
  assert (X := H c09_env f
                 (mkOption "tags" [] [mkArg "tags" (f_type f)]
                    [mkAssignment [mkPathItem "tags" None (f_type f) None false]
                                  (AValue (Some (mkArg "tags" (f_type f))) DNil None) "direct" [] []] None)
                 (GStruct [("kind", GStr "k1"); ("opt", GNil); ("tags", GNil)]) (GSlice [GInt 1]) eq_refl).
  vm_compute in X. assert (Y : GOk (GStruct [("kind", GStr "k1"); ("opt", GNil); ("tags", GSlice [GInt 1])]) = @GPanic gval).
  { apply X. discriminate. }
  discriminate.
Qed.
Print Assumptions invalid_reported_python_refuted.

(* ------------------------------------------------------------------ valid input never fails *)

(* Go: an argument that violates none of the field's constraints adds no error to what Build() reports (and
   none to builder.errors): every path reported after the call was reported before it *)
Theorem valid_never_fails : forall e b ob a dh fs f o st fvs at_ k cs v,
  locate_object (be_ctx e) (builder_for_pkg b) (builder_for_name b) = Some ob ->
  o_type ob = TStruct a dh fs -> nullable a = false ->
  In f fs -> NoDup (map f_name fs) -> f_name f <> "" ->
  f_type f = TScalar at_ k DNil cs -> is_any (f_type f) = false ->
  struct_field_to_option f = Ok o ->
  bs_obj st = GStruct fvs -> map fst fvs = map f_name fs ->
  (forall c, In c cs -> constraint_holds c v <> Some false) ->
  exists st', go_option e o st [AVal v] = GOk st' /\ bs_errors st' = bs_errors st /\
    forall p, In p (validate_object (be_ctx e) (builder_for_pkg b) (builder_for_name b) (bs_obj st')) ->
              In p (validate_object (be_ctx e) (builder_for_pkg b) (builder_for_name b) (bs_obj st)).
Proof. exact go_valid_adds_no_error_proof. Qed.
Print Assumptions valid_never_fails.

(* Python: covered by option_sets_exactly_target_python (the call returns, it does not raise) *)

(* ------------------------------------------------------------------ non-vacuity *)
Example c09_nonvacuous :
  (* the derived builders of the example have 2 + 1 options and one constant; a valid call sets its target, a
     violating one makes Build() fail at "id" *)
  map (fun b => (List.length (b_options b), List.length (ct_assignments (b_ctor b)))) (be_builders c09_env) = [(1, 0); (2, 1)]%nat /\
  builder_eval c09_env "p" "Root" [] [("opt", [BBuild "p" "Inner" [] [("id", [BJson (JNum 7 0)])]])]
    = GOk (mkBState (GStruct [("kind", GStr "k1"); ("opt", GPtr (GStruct [("id", GInt 7)])); ("tags", GNil)]) [],
           BROk (GStruct [("kind", GStr "k1"); ("opt", GPtr (GStruct [("id", GInt 7)])); ("tags", GNil)])) /\
  builder_eval c09_env "p" "Inner" [] [("id", [BJson (JNum 1 0)])]
    = GOk (mkBState (GStruct [("id", GInt 1)]) [], BRErr ["id"]).
Proof. vm_compute. repeat split. Qed.


(* ---- options that take a nested builder (the positive half of C09-go-nested-builder-error-dropped) ---- *)

(* what a nested builder expression evaluates to: the object its Build() returns, or AErr when Build() fails *)
Theorem nested_program_value : forall f' e t p n ctor calls b cargs st0 st,
  locate_builder (be_builders e) p n = Some b ->
  List.length ctor = List.length (ct_args (b_ctor b)) ->
  omapM (fun ta => go_arg f' e (a_type (fst ta)) (snd ta)) (combine (ct_args (b_ctor b)) ctor) = GOk cargs ->
  go_new_builder e b cargs = GOk st0 ->
  go_run f' e b st0 calls = GOk st ->
  go_arg (S f') e t (BBuild p n ctor calls) =
    GOk (match go_build e b (last_state (st0 :: st)) with BROk v => AVal v | BRErr _ => AErr end).
Proof. exact go_arg_of_nested_program_proof. Qed.
Print Assumptions nested_program_value.

(* the nested Build() succeeded with w: the option sets exactly its field to w (behind a pointer when the field
   is nullable), builder.errors is unchanged *)
Theorem nested_builder_success : forall e f o st fs old a p nm w,
  struct_field_to_option f = Ok o -> f_name f <> "" ->
  f_type f = TRef a p nm -> type_has_builder e (f_type f) = true ->
  bs_obj st = GStruct fs -> gmap_find fs (f_name f) = Some old ->
  exists fs', go_option e o st [AVal w] = GOk (mkBState (GStruct fs') (bs_errors st)) /\
              gmap_find fs' (f_name f) = Some (maybe_ptr (f_type f) w) /\
              (forall g, g <> f_name f -> gmap_find fs' g = gmap_find fs g) /\
              map fst fs' = map fst fs.
Proof. exact go_nested_builder_success_proof. Qed.
Print Assumptions nested_builder_success.

(* the nested Build() failed: the object is left as it was, the field's path is recorded in builder.errors,
   and Build() answers what it would have answered without the call *)
Theorem nested_builder_failure : forall e b f o st a p nm,
  struct_field_to_option f = Ok o ->
  f_type f = TRef a p nm -> type_has_builder e (f_type f) = true ->
  go_option e o st [AErr] = GOk (mkBState (bs_obj st) (bs_errors st ++ [f_name f])) /\
  go_build e b (mkBState (bs_obj st) (bs_errors st ++ [f_name f])) = go_build e b st.
Proof. exact go_nested_builder_failure_proof. Qed.
Print Assumptions nested_builder_failure.

(* ---- veneered options: a path of length 2 behind a nil check (struct_fields_as_options / _as_arguments,
   add_option, add_assignment) ---- *)

(* Go: the prefix field holds `mid` = what was there, or the guard's empty value (New<T>() / &T{}) when it was
   nil; inside it exactly the target field changes and holds the argument; every other top-level field is
   untouched; builder.errors is unchanged *)
Theorem option_sets_exactly_target_depth2 : forall e env st fs it1 it2 arg cs nct v x1 mid inner0 old,
  plain_item it1 -> plain_item it2 ->
  bs_obj st = GStruct fs -> gmap_find fs (pi_id it1) = Some x1 ->
  arg_value e env arg = GOk (Some v) ->
  (if is_nil x1 then go_empty_value e (non_null nct) = GOk mid else mid = x1) ->
  (mid = GPtr (GStruct inner0) \/ mid = GStruct inner0) ->
  gmap_find inner0 (pi_id it2) = Some old ->
  exists fs' inner',
    go_assignment e env st (mkAssignment [it1; it2] (AValue (Some arg) DNil None) "direct" cs [mkNilCheck [it1] nct])
      = GOk (mkBState (GStruct fs') (bs_errors st), true) /\
    gmap_find fs' (pi_id it1) = Some (match mid with GPtr _ => GPtr (GStruct inner') | _ => GStruct inner' end) /\
    gmap_find inner' (pi_id it2) = Some (maybe_ptr (pi_type it2) v) /\
    (forall g, g <> pi_id it2 -> gmap_find inner' g = gmap_find inner0 g) /\
    (forall g, g <> pi_id it1 -> gmap_find fs' g = gmap_find fs g).
Proof. exact go_depth2_assignment_proof. Qed.
Print Assumptions option_sets_exactly_target_depth2.

Theorem option_sets_exactly_target_depth2_python : forall e env fs it1 it2 arg nct v x1 inner0 old,
  plain_item it1 -> plain_item it2 ->
  gmap_find fs (pi_id it1) = Some x1 ->
  py_arg_value env arg = GOk v ->
  (if is_nil x1 then py_empty_value e nct = GOk (GStruct inner0) else GStruct inner0 = x1) ->
  gmap_find inner0 (pi_id it2) = Some old ->
  exists fs' inner',
    py_assignment e env (GStruct fs) (mkAssignment [it1; it2] (AValue (Some arg) DNil None) "direct" [] [mkNilCheck [it1] nct])
      = GOk (GStruct fs') /\
    gmap_find fs' (pi_id it1) = Some (GStruct inner') /\
    gmap_find inner' (pi_id it2) = Some v /\
    (forall g, g <> pi_id it2 -> gmap_find inner' g = gmap_find inner0 g) /\
    (forall g, g <> pi_id it1 -> gmap_find fs' g = gmap_find fs g).
Proof. exact py_depth2_assignment_proof. Qed.
Print Assumptions option_sets_exactly_target_depth2_python.


(* ---- Python: nested builders ---- *)

(* Python build() cannot fail: the option sets exactly its field to the object the nested builder built *)
Theorem nested_builder_success_python : forall e f o fs old a p nm w,
  struct_field_to_option f = Ok o -> f_name f <> "" -> f_type f = TRef a p nm ->
  gmap_find fs (f_name f) = Some old ->
  exists fs', py_option e o (GStruct fs) [AVal w] = GOk (GStruct fs') /\
              gmap_find fs' (f_name f) = Some w /\
              (forall g, g <> f_name f -> gmap_find fs' g = gmap_find fs g) /\
              map fst fs' = map fst fs.
Proof. exact py_nested_builder_success_proof. Qed.
Print Assumptions nested_builder_success_python.

(* a nested builder "fails" in Python when one of ITS option calls raises: the whole argument expression raises ... *)
Theorem nested_builder_raises_python : forall k e p n ctor on args rest b cargs o0 o avs,
  locate_builder (be_builders e) p n = Some b ->
  List.length ctor = List.length (ct_args (b_ctor b)) ->
  omapM (py_arg k e) ctor = GOk cargs -> py_new_builder e b cargs = GOk o0 ->
  option_by_name b on = Some o -> omapM (py_arg k e) args = GOk avs ->
  py_option e o o0 avs = GPanic ->
  py_arg (S k) e (BBuild p n ctor ((on, args) :: rest)) = GPanic.
Proof. exact py_nested_builder_raises_proof. Qed.
Print Assumptions nested_builder_raises_python.

(* ... and is reported by the option call it is an argument of: that call (number k) raises, the trace stops
   before it and the object under construction is not touched *)
Theorem failing_nested_builder_reported_python : forall fuel e b obj on args rest k o,
  option_by_name b on = Some o ->
  omapM (py_arg fuel e) args = GPanic ->
  py_run fuel e b obj ((on, args) :: rest) k = GOk ([], Some k).
Proof. exact py_call_with_raising_argument_proof. Qed.
Print Assumptions failing_nested_builder_reported_python.

(* ---- Python: call sequences (counterpart of option_sequences) ---- *)
Theorem option_sequences_python : forall e b calls obj objn,
  derived_builder b -> is_struct_val obj = true ->
  py_calls e b obj calls = GOk objn ->
  forall f o, In o (b_options b) -> struct_field_to_option f = Ok o -> f_name f <> "" ->
    match last_call (f_name f) calls with
    | None => obj_field objn (f_name f) = obj_field obj (f_name f)
    | Some [AVal v] => obj_field objn (f_name f) = Some v
    | Some _ => True
    end.
Proof. exact py_sequence_last_write_proof. Qed.
Print Assumptions option_sequences_python.

(* ---- Go: invalid_reported for veneered options: a violated constraint of an APPENDED element
   (array_to_append) is reported by Build() at `field[index]` ... ---- *)
Theorem invalid_reported_append : forall e env b ob a dh fs f at_ ea k cs c arg v st fvs l cs0 old,
  locate_object (be_ctx e) (builder_for_pkg b) (builder_for_name b) = Some ob ->
  o_type ob = TStruct a dh fs -> nullable a = false ->
  In f fs -> NoDup (map f_name fs) -> f_name f <> "" ->
  f_type f = TArray at_ (TScalar ea k DNil cs) ->
  is_any (TScalar ea k DNil cs) = false -> nullable ea = false ->
  bs_obj st = GStruct fvs -> map fst fvs = map f_name fs ->
  gmap_find fvs (f_name f) = Some old -> (old = GNil /\ l = [] \/ old = GSlice l) ->
  arg_value e env arg = GOk (Some v) ->
  In c cs -> constraint_holds c v = Some false ->
  exists st',
    go_assignment e env st (mkAssignment [mkPathItem (f_name f) None (f_type f) None false]
                                         (AValue (Some arg) DNil None) "append" cs0 []) = GOk (st', true) /\
    exists ps, go_build e b st' = BRErr ps /\ In (f_name f ++ "[" ++ itoa (List.length l) ++ "]") ps.
Proof. exact go_append_violation_reported_proof. Qed.
Print Assumptions invalid_reported_append.

(* ... and of an element stored under a key (map_to_index) at `field[key]` *)
Theorem invalid_reported_index : forall e env b ob a dh fs f at_ kt ea k cs c karg key arg v st fvs kvs cs0 old,
  locate_object (be_ctx e) (builder_for_pkg b) (builder_for_name b) = Some ob ->
  o_type ob = TStruct a dh fs -> nullable a = false ->
  In f fs -> NoDup (map f_name fs) -> f_name f <> "" ->
  f_type f = TMap at_ kt (TScalar ea k DNil cs) ->
  is_any (TScalar ea k DNil cs) = false -> nullable ea = false ->
  bs_obj st = GStruct fvs -> map fst fvs = map f_name fs ->
  gmap_find fvs (f_name f) = Some old -> (old = GNil /\ kvs = [] \/ old = GMap kvs) ->
  env_find env (a_name karg) = Some (AVal (GStr key)) ->
  arg_value e env arg = GOk (Some v) ->
  In c cs -> constraint_holds c v = Some false ->
  exists st',
    go_assignment e env st
      (mkAssignment [mkPathItem (f_name f) None (f_type f) None false;
                     mkPathItem "" (Some (mkPathIndex (Some karg) DNil)) (TScalar ea k DNil cs) None false]
                    (AValue (Some arg) DNil None) "index" cs0
                    [mkNilCheck [mkPathItem (f_name f) None (f_type f) None false] (f_type f)]) = GOk (st', true) /\
    exists ps, go_build e b st' = BRErr ps /\ In (f_name f ++ "[" ++ key ++ "]") ps.
Proof. exact go_index_violation_reported_proof. Qed.
Print Assumptions invalid_reported_index.
