(* C01 — documents the schema accepts load into the generated Go types and round-trip.
   Statements only, over the post-chain IR context (what the Go jenny receives).  ir_valid /
   roundtrip_safe / roundtrip_holds: Model/GoSemSpec01.v.  roundtrip_holds ctx p n d says: the standard
   and the strict decoder both succeed, the re-encoded value is still ir_valid, and it is JSON-equal to
   d except for omitted null members.  The JSON Schema front-end is modelled too (Model/FrontEnd.v
   parse_jsonschema, compared with the real parser's pre-chain IR on every run): the last section relates acceptance
   by the SOURCE schema to acceptance by the IR the parser produces.  What the Go chain does to acceptance between
   the pre-chain and the post-chain IR is covered by the correspondence of checks/c01.py only. *)
From Coq Require Import List String ZArith Bool.
From Cog Require Import Model.GoSem Model.GoSemSpec08 Model.GoSemSpec01 Model.GoSemSpec01F Proofs.GoSemC01Proofs
     Model.Src Model.FrontEnd Model.FrontEndSpec Proofs.FrontEndWitness Proofs.FrontEndFields Proofs.FrontEndAccept Proofs.FrontEndProofs
     Model.FrontEndSpecOA Model.FrontEndSpecCue Model.FrontEndSpecCue2 Model.FrontEndChainSpec Model.FrontEndCue
     Proofs.FrontEndOA Proofs.FrontEndOAWitness Proofs.FrontEndCueProofs Proofs.FrontEndChain Gen.Chains_gen Model.Process.
From Cog Require Import Model.FrontEndChainSpec2 Model.FrontEndChainSpec3 Model.FrontEndChainSpecX
     Proofs.FrontEndChain2Sup Proofs.FrontEndChain2Safe Proofs.FrontEndChain3 Proofs.FrontEndChainX.
From Cog Require Import Model.FrontEndChainSpec4 Model.FrontEndChainSpecX2
     Proofs.FrontEndChain4Sup Proofs.FrontEndChain4Safe Proofs.FrontEndChainX2Sup Proofs.FrontEndChainX2Safe Proofs.FrontEndChainX2Cue.
Import ListNotations.
Local Open Scope string_scope.

Definition go_roundtrip_nf_statement : Prop :=
  forall ctx p n d, ctx_supported ctx = true -> struct_object ctx p n = true -> json_wf d = true ->
    ir_valid_object ctx p n d = true -> roundtrip_holds ctx p n d = true.

(* refuted: an optional array given as [] is dropped by omitempty *)
Theorem go_roundtrip_nf_refuted : ~ go_roundtrip_nf_statement.
Proof. exact GoSemC01Proofs.go_roundtrip_nf_refuted. Qed.
Print Assumptions go_roundtrip_nf_refuted.

(* further witnesses, one per exclusion of roundtrip_safe *)
Theorem go_roundtrip_nf_refuted_datetime : exists ctx p n d, ctx_supported ctx = true /\ struct_object ctx p n = true /\
  json_wf d = true /\ ir_valid_object ctx p n d = true /\ roundtrip_holds ctx p n d = false.
Proof. exact GoSemC01Proofs.go_roundtrip_nf_refuted_datetime. Qed.
Print Assumptions go_roundtrip_nf_refuted_datetime.
Theorem go_roundtrip_nf_refuted_integer_literal : exists ctx p n d, ctx_supported ctx = true /\ struct_object ctx p n = true /\
  json_wf d = true /\ ir_valid_object ctx p n d = true /\ roundtrip_holds ctx p n d = false.
Proof. exact GoSemC01Proofs.go_roundtrip_nf_refuted_integer_literal. Qed.
Print Assumptions go_roundtrip_nf_refuted_integer_literal.
Theorem go_roundtrip_nf_refuted_nested_maps : exists ctx p n d, ctx_supported ctx = true /\ struct_object ctx p n = true /\
  json_wf d = true /\ ir_valid_object ctx p n d = true /\ roundtrip_holds ctx p n d = false.
Proof. exact GoSemC01Proofs.go_roundtrip_nf_refuted_nested_maps. Qed.
Print Assumptions go_roundtrip_nf_refuted_nested_maps.

(* outside the listed defects every valid document decodes with both decoders and round-trips.
   roundtrip_safeF (Model/GoSemSpec01F.v) is the exclusion predicate: roundtrip_safe (Model/GoSemSpec01.v: optional
   empty collections, non-canonical date-times, integers written with a fraction, floats beyond their width's
   digits, absent required members, the three strict-decoder defects) strengthened, while proving, by
     (a) a null array element / map value only where the strict decoder accepts one,
     (b,c) struct fields reached through a reference, with distinct names, and every optional field nil-able
           (cog's Go passes make optional fields nullable; ctx_supported does not say so),
     (d) the discriminator member of a union of structs is not null,
     (e) a collection branch of a union of scalars that matches the JSON shape accepts the elements.
   The first attempt (with roundtrip_safe alone) is refuted: Proofs/GoSemC01Cex.v lists nine counterexamples. *)
Theorem go_roundtrip_nf_partial : forall ctx p n d, ctx_supported ctx = true -> struct_object ctx p n = true ->
  json_wf d = true -> ir_valid_object ctx p n d = true -> roundtrip_safeF ctx p n d = true ->
  roundtrip_holds ctx p n d = true.
Proof. exact GoSemC01Proofs.go_roundtrip_nf_partial_weak. Qed.
Print Assumptions go_roundtrip_nf_partial.

(* the exclusion predicate of the theorem implies the one the known-finding causes of checks/c01.py are named after *)
Theorem roundtrip_safeF_implies_safe : forall ctx p n d,
  roundtrip_safeF ctx p n d = true -> roundtrip_safe ctx p n d = true.
Proof. exact GoSemC01Proofs.roundtrip_safeF_implies_safe. Qed.
Print Assumptions roundtrip_safeF_implies_safe.

Example c01_nonvacuous : exists ctx p n d, ctx_supported ctx = true /\ struct_object ctx p n = true /\ json_wf d = true /\
  ir_valid_object ctx p n d = true /\ roundtrip_safeF ctx p n d = true /\ json_depth d >= 2.
Proof. exact GoSemC01Proofs.c01_nonvacuous_weak. Qed.

(* ---------------- the JSON Schema front-end (Model/FrontEnd.v; Proofs/FrontEnd*.v) ----------------
   acceptance_agrees s tname d: the source schema (Src semantics, validated against python jsonschema) accepts d
   at definition tname  <->  the IR parse_jsonschema produces accepts it (Model/FrontEndSpec.v ir_accepts). *)
Theorem parse_preserves_acceptance_refuted_full :
  ~ (forall s tname d, src_wf s = true -> json_wf d = true -> json_ints_int64 d = true ->
       str_in tname (map fst (src_defs s)) = true -> acceptance_agrees s tname d = true).
Proof. exact parse_preserves_acceptance_refuted. Qed.
Print Assumptions parse_preserves_acceptance_refuted_full.
(* ... and holds for every schema of the grammar without a constrained `[T, "null"]` type array (the witness of
   the refutation = finding C08-jsonschema-nullable-scalar-type-array-drops-constraints), with decimal bounds of
   at most 4 digits mantissa / 3 decimals (the print-parse round trip of numbers is discharged by enumeration)
   and acyclic aliases, and every well-formed document *)
Theorem parse_preserves_acceptance_partial :
  forall s tname d, src_wf s = true -> schema_no_constrained_typearray s = true ->
    schema_bounds_small s = true -> schema_aliases_resolve s = true ->
    json_wf d = true -> json_ints_int64 d = true ->
    str_in tname (map fst (src_defs s)) = true -> acceptance_agrees s tname d = true.
Proof. exact parse_preserves_acceptance_partial_weak. Qed.
Print Assumptions parse_preserves_acceptance_partial.
Theorem frontend_hypotheses_satisfiable : exists s tname d, src_wf s = true /\ schema_no_constrained_typearray s = true /\ json_wf d = true /\
  json_ints_int64 d = true /\ str_in tname (map fst (src_defs s)) = true /\ src_valid_doc "jsonschema" s tname d = true /\
  schema_fields_kept s = true.
Proof. exact frontend_nonvacuous. Qed.
Print Assumptions frontend_hypotheses_satisfiable.

(* ---- round 2: no hypothesis on bounds or aliases left; OpenAPI and CUE; across the Go chain ---- *)
Theorem parse_jsonschema_preserves_acceptance :
  forall s tname d, src_wf s = true -> schema_no_constrained_typearray s = true ->
    json_wf d = true -> json_ints_int64 d = true ->
    str_in tname (map fst (src_defs s)) = true -> acceptance_agrees s tname d = true.
Proof. exact parse_preserves_acceptance_partial_strong. Qed.
Print Assumptions parse_jsonschema_preserves_acceptance.
(* OpenAPI (after fix 7fed413): no exclusion beyond well-formedness of the schema in the grammar *)
Theorem parse_openapi_preserves_acceptance :
  forall s tname d, src_wf_oa s = true -> json_wf d = true -> json_ints_int64 d = true ->
    str_in tname (map fst (src_defs s)) = true -> oa_acceptance_agrees s tname d = true.
Proof. exact parse_openapi_preserves_acceptance_partial_strong. Qed.
Print Assumptions parse_openapi_preserves_acceptance.
Theorem parse_cue_preserves_acceptance :
  forall s tname d, src_wf_cue s = true -> json_wf d = true -> str_in tname (map fst (src_defs s)) = true ->
    cue_acceptance_agrees s tname d = true.
Proof. exact parse_cue_preserves_acceptance_partial_strong. Qed.
Print Assumptions parse_cue_preserves_acceptance.
(* across the REGENERATED Go chain, on the fragment where the parsed IR is already in Go normal form (plain structs of
   scalars, arrays, maps, references): the chain is NotRequiredFieldAsNullableType and nothing else, acceptance is
   preserved, and source-valid documents round-trip: the END-TO-END statement of C01 on that fragment *)
Theorem chain_go_on_plain_schemas : forall s, chain_plain s = true ->
  process chain_go (parse_ctx s) = Ok (nrfn_only (parse_ctx s)).
Proof. exact chain_go_plain_explicit. Qed.
Print Assumptions chain_go_on_plain_schemas.
Theorem chain_go_preserves_acceptance : forall s tname d out,
  chain_plain s = true -> process chain_go (parse_ctx s) = Ok out ->
  ir_accepts_doc (parse_ctx s) (src_pkg s) tname d = true -> ir_valid_object out (src_pkg s) tname d = true.
Proof. exact chain_go_preserves_acceptance_fwd. Qed.
Print Assumptions chain_go_preserves_acceptance.
Theorem chain_go_acceptance_exact_without_nulls : forall s tname d out,
  chain_plain_unconstrained s = true -> process chain_go (parse_ctx s) = Ok out -> json_null_free d = true ->
  ir_accepts_doc (parse_ctx s) (src_pkg s) tname d = ir_valid_object out (src_pkg s) tname d.
Proof. exact chain_go_preserves_acceptance_iff. Qed.
Print Assumptions chain_go_acceptance_exact_without_nulls.
Theorem src_valid_roundtrip_end_to_end : forall s tname d out,
  chain_plain s = true -> json_wf d = true -> json_ints_int64 d = true ->
  process chain_go (parse_ctx s) = Ok out -> ctx_supported out = true ->
  str_in tname (map fst (src_defs s)) = true ->
  src_valid_doc "jsonschema" s tname d = true ->
  roundtrip_safeF out (src_pkg s) tname d = true ->
  roundtrip_holds out (src_pkg s) tname d = true.
Proof. exact src_valid_roundtrip_plain_strong. Qed.
Print Assumptions src_valid_roundtrip_end_to_end.
(* the chain WIDENS acceptance on null optional members (NotRequiredFieldAsNullableType), and narrows it on a
   required `any` given null (finding C08-strict-decoder-rejects-null-the-schema-allows) *)
Theorem chain_go_changes_acceptance_of_nulls :
  (chain_plain_unconstrained sOpt = true /\ json_wf dOptNull = true /\
   process chain_go (parse_ctx sOpt) = Ok (nrfn_only (parse_ctx sOpt)) /\
   src_valid_doc "jsonschema" sOpt "Root" dOptNull = false /\
   ir_accepts_doc (parse_ctx sOpt) (src_pkg sOpt) "Root" dOptNull = false /\
   ir_valid_object (nrfn_only (parse_ctx sOpt)) (src_pkg sOpt) "Root" dOptNull = true) /\
  (src_wf sAny = true /\ exists out, process chain_go (parse_ctx sAny) = Ok out /\
   src_valid_doc "jsonschema" sAny "Root" dAnyNull = true /\
   ir_accepts_doc (parse_ctx sAny) (src_pkg sAny) "Root" dAnyNull = true /\
   ir_valid_object out (src_pkg sAny) "Root" dAnyNull = false).
Proof. split; [exact chain_go_acceptance_null_witness|exact chain_go_any_null_witness]. Qed.
Print Assumptions chain_go_changes_acceptance_of_nulls.
Theorem end_to_end_hypotheses_satisfiable :
  chain_plain sPlain = true /\ schema_bounds_small sPlain = true /\ json_wf dPlain = true /\ json_ints_int64 dPlain = true /\
  process chain_go (parse_ctx sPlain) = Ok outPlain /\ ctx_supported outPlain = true /\
  str_in "Root" (map fst (src_defs sPlain)) = true /\ src_valid_doc "jsonschema" sPlain "Root" dPlain = true /\
  roundtrip_safeF outPlain (src_pkg sPlain) "Root" dPlain = true /\
  ir_accepts_doc (parse_ctx sPlain) (src_pkg sPlain) "Root" dPlain = true /\
  ir_valid_object outPlain (src_pkg sPlain) "Root" dPlain = true /\
  roundtrip_holds outPlain (src_pkg sPlain) "Root" dPlain = true.
Proof. exact chain_plain_nonvacuous. Qed.
Print Assumptions end_to_end_hypotheses_satisfiable.

(* ---- round 3: the end-to-end statement PURELY IN SOURCE TERMS (no hypothesis about the chain's output):
   src_safe is a decidable walk of the document along the source type excluding exactly the listed round-trip
   defects (optional empty collections, non-canonical date-times, integers not written as integer literals, floats
   beyond the digit limit, directly nested arrays/maps of non-scalars); each exclusion has a witness in
   Proofs/FrontEndChain2Safe.v, lemmas src_safe_needed_... ---- *)
Theorem src_valid_roundtrip_in_source_terms : forall s tname d,
  chain_plain s = true -> json_wf d = true -> json_ints_int64 d = true ->
  str_in tname (map fst (src_defs s)) = true -> src_safe s tname d = true ->
  src_valid_doc "jsonschema" s tname d = true ->
  exists out, process chain_go (parse_ctx s) = Ok out /\ roundtrip_holds out (src_pkg s) tname d = true.
Proof. exact src_valid_roundtrip_source. Qed.
Print Assumptions src_valid_roundtrip_in_source_terms.
Theorem src_valid_roundtrip_source_nonvacuous :
  chain_plain sPlain = true /\ json_wf dPlain = true /\ json_ints_int64 dPlain = true /\
  str_in "Root" (map fst (src_defs sPlain)) = true /\ src_safe sPlain "Root" dPlain = true /\
  src_valid_doc "jsonschema" sPlain "Root" dPlain = true.
Proof. exact src_safe_nonvacuous. Qed.
Print Assumptions src_valid_roundtrip_source_nonvacuous.
(* wider fragment: nullable members written `T | null` (DisjunctionWithNullToOptional acts) and string constants;
   the chain's output is computed explicitly, and source-valid documents round-trip *)
Theorem chain_go_on_nullable_schemas : forall s, chain_plain3 s = true ->
  process chain_go (parse_ctx s) = Ok (chain3_out (parse_ctx s)).
Proof. exact chain_go_plain3_explicit. Qed.
Print Assumptions chain_go_on_nullable_schemas.
Theorem src_valid_roundtrip_nullable_members : forall s tname d out,
  chain_plain3 s = true -> json_wf d = true -> json_ints_int64 d = true ->
  process chain_go (parse_ctx s) = Ok out -> ctx_supported out = true ->
  str_in tname (map fst (src_defs s)) = true ->
  src_valid_doc "jsonschema" s tname d = true ->
  roundtrip_safeF out (src_pkg s) tname d = true ->
  roundtrip_holds out (src_pkg s) tname d = true.
Proof. exact src_valid_roundtrip_plain3. Qed.
Print Assumptions src_valid_roundtrip_nullable_members.
(* the same end-to-end statement from OpenAPI and CUE sources *)
Theorem src_valid_roundtrip_from_openapi : forall s tname d out,
  chain_plain_oa s = true -> json_wf d = true -> json_ints_int64 d = true ->
  process chain_go (parse_ctx_oa s) = Ok out -> ctx_supported out = true ->
  str_in tname (map fst (src_defs s)) = true ->
  src_valid_doc "openapi" s tname d = true ->
  roundtrip_safeF out (src_pkg s) tname d = true ->
  roundtrip_holds out (src_pkg s) tname d = true.
Proof. exact src_valid_roundtrip_plain_oa. Qed.
Print Assumptions src_valid_roundtrip_from_openapi.
Theorem src_valid_roundtrip_from_cue : forall s tname d out,
  chain_plain_cue s = true -> json_wf d = true ->
  process chain_go (parse_ctx_cue s) = Ok out -> ctx_supported out = true ->
  str_in tname (map fst (src_defs s)) = true ->
  src_valid_doc "cue" s tname d = true ->
  roundtrip_safeF out (src_pkg s) tname d = true ->
  roundtrip_holds out (src_pkg s) tname d = true.
Proof. exact src_valid_roundtrip_plain_cue. Qed.
Print Assumptions src_valid_roundtrip_from_cue.

(* ---- last round: the source-terms form (no hypothesis about the chain's output) over the wider JSON Schema fragment
   and from OpenAPI and CUE sources; src_safe3 / src_safe_oa / src_safe_cue are decidable walks of the document along
   the SOURCE type; cue_no_bytes excludes `[...uint8]` members (they become []byte: finding C01-uint8-array-printed-as-base64) ---- *)
Theorem src_valid_roundtrip_in_source_terms_nullable : forall s tname d,
  chain_plain3 s = true -> json_wf d = true -> json_ints_int64 d = true ->
  str_in tname (map fst (src_defs s)) = true -> src_safe3 s tname d = true ->
  src_valid_doc "jsonschema" s tname d = true ->
  exists out, process chain_go (parse_ctx s) = Ok out /\ roundtrip_holds out (src_pkg s) tname d = true.
Proof. exact src_valid_roundtrip_source3. Qed.
Print Assumptions src_valid_roundtrip_in_source_terms_nullable.
Theorem src_valid_roundtrip_in_source_terms_openapi : forall s tname d,
  chain_plain_oa s = true -> json_wf d = true -> json_ints_int64 d = true ->
  str_in tname (map fst (src_defs s)) = true -> src_safe_oa s tname d = true ->
  src_valid_doc "openapi" s tname d = true ->
  exists out, process chain_go (parse_ctx_oa s) = Ok out /\ roundtrip_holds out (src_pkg s) tname d = true.
Proof. exact src_valid_roundtrip_source_oa. Qed.
Print Assumptions src_valid_roundtrip_in_source_terms_openapi.
Theorem src_valid_roundtrip_in_source_terms_cue : forall s tname d,
  chain_plain_cue s = true -> cue_no_bytes s = true -> json_wf d = true ->
  str_in tname (map fst (src_defs s)) = true -> src_safe_cue s tname d = true ->
  src_valid_doc "cue" s tname d = true ->
  exists out, process chain_go (parse_ctx_cue s) = Ok out /\ roundtrip_holds out (src_pkg s) tname d = true.
Proof. exact src_valid_roundtrip_source_cue. Qed.
Print Assumptions src_valid_roundtrip_in_source_terms_cue.
