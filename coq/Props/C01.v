(* C01 — documents the schema accepts load into the generated Go types and round-trip.
   Statements only, over the post-chain IR context (what the Go jenny receives).  ir_valid /
   roundtrip_safe / roundtrip_holds: Model/GoSemSpec01.v.  roundtrip_holds ctx p n d says: the standard
   and the strict decoder both succeed, the re-encoded value is still ir_valid, and it is JSON-equal to
   d except for omitted null members.  The composition with the three front-ends (acceptance by the
   SOURCE schema) is covered by the correspondence of checks/c01.py, not by these theorems. *)
From Coq Require Import List String ZArith Bool.
From Cog Require Import Model.GoSem Model.GoSemSpec08 Model.GoSemSpec01 Model.GoSemSpec01F Proofs.GoSemC01Proofs.
Import ListNotations.
Local Open Scope string_scope.

Definition go_roundtrip_nf_statement : Prop :=
  forall ctx p n d, ctx_supported ctx = true -> struct_object ctx p n = true -> json_wf d = true ->
    ir_valid_object ctx p n d = true -> roundtrip_holds ctx p n d = true.

(* refuted: an optional array given as [] is dropped by omitempty *)
Theorem go_roundtrip_nf_refuted : ~ go_roundtrip_nf_statement.
Proof. exact GoSemC01Proofs.go_roundtrip_nf_refuted. Qed.
Print Assumptions go_roundtrip_nf_refuted.

(* further witnesses, one per exclusion of roundtrip_safe *)
Theorem go_roundtrip_nf_refuted_datetime : exists ctx p n d, ctx_supported ctx = true /\ struct_object ctx p n = true /\
  json_wf d = true /\ ir_valid_object ctx p n d = true /\ roundtrip_holds ctx p n d = false.
Proof. exact GoSemC01Proofs.go_roundtrip_nf_refuted_datetime. Qed.
Print Assumptions go_roundtrip_nf_refuted_datetime.
Theorem go_roundtrip_nf_refuted_integer_literal : exists ctx p n d, ctx_supported ctx = true /\ struct_object ctx p n = true /\
  json_wf d = true /\ ir_valid_object ctx p n d = true /\ roundtrip_holds ctx p n d = false.
Proof. exact GoSemC01Proofs.go_roundtrip_nf_refuted_integer_literal. Qed.
Print Assumptions go_roundtrip_nf_refuted_integer_literal.
Theorem go_roundtrip_nf_refuted_nested_maps : exists ctx p n d, ctx_supported ctx = true /\ struct_object ctx p n = true /\
  json_wf d = true /\ ir_valid_object ctx p n d = true /\ roundtrip_holds ctx p n d = false.
Proof. exact GoSemC01Proofs.go_roundtrip_nf_refuted_nested_maps. Qed.
Print Assumptions go_roundtrip_nf_refuted_nested_maps.

(* outside the listed defects every valid document decodes with both decoders and round-trips.
   roundtrip_safeF (Model/GoSemSpec01F.v) is the exclusion predicate: roundtrip_safe (Model/GoSemSpec01.v: optional
   empty collections, non-canonical date-times, integers written with a fraction, floats beyond their width's
   digits, absent required members, the three strict-decoder defects) strengthened, while proving, by
     (a) a null array element / map value only where the strict decoder accepts one,
     (b,c) struct fields reached through a reference, with distinct names, and every optional field nil-able
           (cog's Go passes make optional fields nullable; ctx_supported does not say so),
     (d) the discriminator member of a union of structs is not null,
     (e) a collection branch of a union of scalars that matches the JSON shape accepts the elements.
   The first attempt (with roundtrip_safe alone) is refuted: Proofs/GoSemC01Cex.v lists nine counterexamples. *)
Theorem go_roundtrip_nf_partial : forall ctx p n d, ctx_supported ctx = true -> struct_object ctx p n = true ->
  json_wf d = true -> ir_valid_object ctx p n d = true -> roundtrip_safeF ctx p n d = true ->
  roundtrip_holds ctx p n d = true.
Proof. exact GoSemC01Proofs.go_roundtrip_nf_partial_weak. Qed.
Print Assumptions go_roundtrip_nf_partial.

(* the exclusion predicate of the theorem implies the one the known-finding causes of checks/c01.py are named after *)
Theorem roundtrip_safeF_implies_safe : forall ctx p n d,
  roundtrip_safeF ctx p n d = true -> roundtrip_safe ctx p n d = true.
Proof. exact GoSemC01Proofs.roundtrip_safeF_implies_safe. Qed.
Print Assumptions roundtrip_safeF_implies_safe.

Example c01_nonvacuous : exists ctx p n d, ctx_supported ctx = true /\ struct_object ctx p n = true /\ json_wf d = true /\
  ir_valid_object ctx p n d = true /\ roundtrip_safeF ctx p n d = true /\ json_depth d >= 2.
Proof. exact GoSemC01Proofs.c01_nonvacuous_weak. Qed.
