(* C02 -- a successful run only emits well-formed code; unsupported constructs are errors.
   PARTIAL BY NATURE: Go's type checker, CPython and javac are not modelled (they are RUN by checks/c02.py on
   every generated tree).  The theorems speak about the declarations the Go types jenny emits
   (Model/GoDecl.v: named types, constants, constructor functions, method sets per option vector, scalar default
   literals, placeholder texts) -- the part of "type-checks" that is cog's own responsibility.
   Statements only; proofs in Proofs/GoDeclProofs.v. *)
From Coq Require Import List String ZArith Bool.
From Cog Require Import Model.IR Model.Names Model.Json Model.GoSemBase Model.NF Model.GoDecl Proofs.GoDeclProofs
  Gen.Placeholders_gen.
Import ListNotations.
Local Open Scope string_scope.

(* ---------- the headline, in full ---------- *)
(* for every context in Go normal form and all 2^7 option vectors, the declarations are closed, duplicate-free,
   field-clash-free, method-closed and placeholder-free *)
Definition go_decls_well_formed_statement : Prop :=
  forall ctx, nf_violations "go" ctx = [] -> forall fl, In fl all_flags -> decls_wf fl ctx = true.

(* refuted: names that coincide after camel-casing are declared twice (objects bar_baz / BarBaz, fields some_name /
   someName); no front-end and no pass rejects them *)
Theorem go_decls_well_formed_refuted : ~ go_decls_well_formed_statement.
Proof.
  intros H. assert (E := H w_collide_ctx eq_refl flags_off (in_all_flags flags_off)).
  rewrite collide_refutes in E. discriminate.
Qed.
Print Assumptions go_decls_well_formed_refuted.

(* proved: the 2^7 option vectors collapse to two -- whatever is well-formed with `any` spelled either way is
   well-formed under every vector; in particular every method a generated body calls on another type (Equals,
   Validate, UnmarshalJSONStrict of referenced structs, through arrays, maps and alias chains) is printed under the
   very same vector *)
Theorem go_decls_well_formed_partial : forall ctx,
    decls_wf (base_flags false) ctx = true -> decls_wf (base_flags true) ctx = true ->
    forall fl, In fl all_flags -> decls_wf fl ctx = true.
Proof. intros ctx H0 H1 fl _. apply decls_wf_all_flags; assumption. Qed.
Print Assumptions go_decls_well_formed_partial.

Theorem all_option_vectors_enumerated : (forall fl, In fl all_flags) /\ List.length all_flags = 128%nat.
Proof. split; [exact in_all_flags | exact all_flags_length]. Qed.
Print Assumptions all_option_vectors_enumerated.

Theorem method_calls_closed_under_every_vector : forall fl ctx s, r_missing_methods (report fl ctx s) = [].
Proof. exact method_calls_closed. Qed.
Print Assumptions method_calls_closed_under_every_vector.

(* proved: contexts made of the kinds the formatter has a case for carry no placeholder type, under every vector *)
Theorem printable_contexts_have_no_placeholder : forall fl ctx s,
    ctx_printable ctx = true -> In s ctx -> r_placeholders (report fl ctx s) = [].
Proof. exact printable_no_placeholder. Qed.
Print Assumptions printable_contexts_have_no_placeholder.

(* scalar default literals: a default of the dynamic Go type of its field is printed as a literal of that type;
   refuted for the json.Number values the JSON Schema front-end leaves in defaults (printed as quoted strings) *)
Theorem default_literals_typed_partial : forall k d, dyn_fits_kind k d = true -> lit_fits_kind k (format_scalar_lit d) = true.
Proof. exact default_literal_typed. Qed.
Print Assumptions default_literals_typed_partial.

Theorem default_literals_typed_refuted :
  lit_fits_kind KFloat64 (format_scalar_lit (DFloat "json.Number" "1.5")) = false /\
  lit_fits_kind KInt64 (format_scalar_lit (DFloat "json.Number" "3")) = false.
Proof. exact json_number_default_mistyped. Qed.
Print Assumptions default_literals_typed_refuted.

(* ---------- unsupported constructs must be errors ---------- *)
Definition unsupported_is_error_statement : Prop :=
  forall fl ctx s, In s ctx -> r_placeholders (report fl ctx s) <> [] -> exists e, go_run fl ctx = Err e.

(* refuted: a union left inside a union branch is printed as the TYPE NAME `unknown`, which goimports accepts *)
Theorem unsupported_is_error_refuted : ~ unsupported_is_error_statement.
Proof.
  intros H. destruct nested_union_silent as [[s [Hs Hp]] [out Hok]].
  destruct (H flags_off w_nested_ctx s Hs) as [e He].
  - rewrite Hp. discriminate.
  - rewrite Hok in He. discriminate.
Qed.
Print Assumptions unsupported_is_error_refuted.

(* proved for what is printed as text that is not Go: object kinds without a case in formatTypeDeclaration
   (union, constant reference, composable slot, kind without payload) and embedded types that are no type names *)
Theorem unsupported_is_error : forall fl ctx,
    (decls_parse fl ctx = false -> exists e, go_run fl ctx = Err e) /\
    (forall s k o, In s ctx -> In (k, o) (s_objects s) ->
       (is_disj (o_type o) || match o_type o with TConstRef _ _ _ _ | TSlot _ _ | TBad _ _ => true | _ => false end)%bool = true ->
       exists e, go_run fl ctx = Err e).
Proof. intros fl ctx; split; [apply unparsable_is_error | intros; eapply object_kind_without_case_is_error; eauto]. Qed.
Print Assumptions unsupported_is_error.

(* ---------- obligations over the regenerated table (Gen/Placeholders_gen.v) ---------- *)
(* every placeholder site of the Go jenny is one the model knows (modelled, or covered by the byte scan only) *)
Lemma go_sites_known_obligation :
  forallb (fun s => (negb (seqb (site_lang s) "go") || go_site_known (site_func s) (site_text s))%bool) placeholder_sites = true.
Proof. vm_compute. reflexivity. Qed.
Print Assumptions go_sites_known_obligation.

(* the translator recognised every marker it met *)
Lemma no_unrecognised_site :
  forallb (fun s => negb (seqb (site_kind s) "unrecognised")) placeholder_sites = true.
Proof. vm_compute. reflexivity. Qed.
Print Assumptions no_unrecognised_site.

(* the placeholder the model prints for a kind without a case is a text of the table *)
Lemma model_placeholder_listed :
  existsb (fun s => (seqb (site_lang s) "go" && seqb (site_text s) "unknown")%bool) placeholder_sites = true.
Proof. vm_compute. reflexivity. Qed.
Print Assumptions model_placeholder_listed.

(* ---------- non-vacuity ---------- *)
Definition ex_ctx : schemas :=
  [mkSchema "p" G0 "" (TBad attrs0 "")
     [("Kind", mkObject "Kind" [] (TEnum attrs0 [mkEnumVal (TScalar attrs0 KString DNil []) "KindA" (DStr "a")]) "p" "Kind");
      ("Inner", mkObject "Inner" [] (TStruct attrs0 [] [sfield "n" (TScalar attrs0 KInt64 DNil []) true]) "p" "Inner");
      ("Alias", mkObject "Alias" [] (TRef attrs0 "p" "Inner") "p" "Alias");
      ("Root", mkObject "Root" [] (TStruct attrs0 [] [sfield "in" (TRef attrs0 "p" "Alias") true;
                                                      sfield "many" (TArray attrs0 (TRef attrs0 "p" "Inner")) true;
                                                      sfield "kind" (TRef attrs0 "p" "Kind") true;
                                                      sfield "v" (TScalar attrs0 KAny DNil []) false]) "p" "Root")]].

Example well_formed_under_all_128_vectors :
  ctx_printable ex_ctx = true /\ forallb (fun fl => decls_wf fl ex_ctx) all_flags = true /\
  (* the closure is not vacuous: with every option on, Root's bodies call three methods of Inner *)
  List.length (flat_map (fun ko => calls_of (mkFlags true true true true false false true) ex_ctx (snd ko))
                        (s_objects (nth 0 ex_ctx (mkSchema "" G0 "" (TBad attrs0 "") [])))) = 6%nat.
Proof. repeat split; vm_compute; reflexivity. Qed.
