(* C02 -- placeholder while the check is being developed; replaced below. *)
From Cog Require Import Model.IR Gen.Placeholders_gen.
Theorem c02_placeholder : True.
Proof. exact I. Qed.
Print Assumptions c02_placeholder.
