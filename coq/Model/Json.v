(* JSON values with exact decimal numbers, and the equalities the generated-code properties use.
   Definitions only (lemmas: Proofs/JsonProofs.v).

   A number literal is kept AS WRITTEN: JNum m e denotes m * 10^e  ("1.0" is JNum 10 (-1), "1" is
   JNum 1 0, "1e2" is JNum 1 2): Go's decoder looks at the literal when the target is an integer.
   Equality of numbers is by value (normal form: no trailing zero in the mantissa, zero = (0,0)).
   Objects are member lists in document order (duplicates possible); json_eq treats them as finite
   maps (last duplicate wins, order irrelevant) by comparing canonical forms. *)
From Coq Require Import List String ZArith Bool Ascii.
Import ListNotations.
Local Open Scope list_scope.

Inductive json :=
| JNull
| JBool (b : bool)
| JNum (m e : Z)
| JStr (s : string)
| JArr (l : list json)
| JObj (ms : list (string * json)).

(* ---------- numbers ---------- *)
Fixpoint strip_zeros (fuel : nat) (m e : Z) : Z * Z :=
  match fuel with
  | O => (m, e)
  | S f => if (Z.eqb (Z.modulo m 10) 0 && negb (Z.eqb m 0))%bool
           then strip_zeros f (Z.div m 10) (e + 1)%Z else (m, e)
  end.

Definition num_norm (m e : Z) : Z * Z :=
  if Z.eqb m 0 then (0%Z, 0%Z) else strip_zeros (S (Z.to_nat (Z.log2_up (Z.abs m)))) m e.

Definition num_eqb (m1 e1 m2 e2 : Z) : bool :=
  let '(a, b) := num_norm m1 e1 in let '(c, d) := num_norm m2 e2 in (Z.eqb a c && Z.eqb b d)%bool.

(* the literal denotes an integer written without fraction or exponent (what strconv.ParseInt takes) *)
Definition num_is_int_literal (m e : Z) : bool := Z.eqb e 0.

(* ---------- strings ---------- *)
Definition str_leb (a b : string) : bool :=
  match String.compare a b with Gt => false | _ => true end.

(* ---------- canonical form: objects sorted by key, last duplicate wins ---------- *)
Fixpoint obj_insert (k : string) (v : json) (l : list (string * json)) : list (string * json) :=
  match l with
  | [] => [(k, v)]
  | (k', v') :: r =>
      match String.compare k k' with
      | Eq => (k, v) :: r
      | Lt => (k, v) :: (k', v') :: r
      | Gt => (k', v') :: obj_insert k v r
      end
  end.

Fixpoint canon (j : json) : json :=
  match j with
  | JNull => JNull
  | JBool b => JBool b
  | JNum m e => let '(a, b) := num_norm m e in JNum a b
  | JStr s => JStr s
  | JArr l => JArr (map canon l)
  | JObj ms => JObj (fold_left (fun acc kv => obj_insert (fst kv) (canon (snd kv)) acc) ms [])
  end.

(* structural equality *)
Fixpoint json_eqb (a b : json) : bool :=
  match a, b with
  | JNull, JNull => true
  | JBool x, JBool y => Bool.eqb x y
  | JNum m e, JNum m' e' => (Z.eqb m m' && Z.eqb e e')%bool
  | JStr x, JStr y => String.eqb x y
  | JArr x, JArr y =>
      (fix go (x y : list json) : bool :=
         match x, y with
         | [], [] => true
         | a :: r, b :: s => (json_eqb a b && go r s)%bool
         | _, _ => false
         end) x y
  | JObj x, JObj y =>
      (fix go (x y : list (string * json)) : bool :=
         match x, y with
         | [], [] => true
         | (k, a) :: r, (k', b) :: s => (String.eqb k k' && json_eqb a b && go r s)%bool
         | _, _ => false
         end) x y
  | _, _ => false
  end.

(* JSON equality: objects as finite maps, numbers by value *)
Definition json_eq (a b : json) : bool := json_eqb (canon a) (canon b).

(* ---------- equality up to "absent / null / empty collection" ----------
   erase: drop members whose value is null, an empty array or an empty object (after erasing inside),
   so that an absent collection, a null one and an empty one are identified. *)
Definition is_emptyish (j : json) : bool :=
  match j with JNull => true | JArr [] => true | JObj [] => true | _ => false end.

Definition null_if_empty (j : json) : json := if is_emptyish j then JNull else j.

Fixpoint erase_empty (j : json) : json :=
  match j with
  | JArr l => JArr (map (fun x => null_if_empty (erase_empty x)) l)
  | JObj ms =>
      JObj (fold_right (fun kv acc =>
              let v := erase_empty (snd kv) in if is_emptyish v then acc else (fst kv, v) :: acc) [] ms)
  | _ => j
  end.

(* compared AFTER erasing: an absent member, a null one and an empty collection are identified
   (as array elements and at top level they all read as null) *)
Definition json_eq_mod_empty (a b : json) : bool :=
  json_eq (null_if_empty (erase_empty a)) (null_if_empty (erase_empty b)).

(* ---------- equality up to omitted null members (C01) ----------
   le_null d e : e is d with some members whose value is null removed (at any depth). Asymmetric. *)
Fixpoint find_member (k : string) (ms : list (string * json)) : option json :=
  match ms with
  | [] => None
  | (k', v) :: r => if String.eqb k' k then Some v else find_member k r
  end.

Fixpoint le_null (d e : json) : bool :=
  match d, e with
  | JArr x, JArr y =>
      (fix go (x y : list json) : bool :=
         match x, y with
         | [], [] => true
         | a :: r, b :: s => (le_null a b && go r s)%bool
         | _, _ => false
         end) x y
  | JObj x, JObj y =>
      (* every member of d is matched in e, or is null and absent from e *)
      ((fix go (x : list (string * json)) : bool :=
          match x with
          | [] => true
          | (k, a) :: r =>
              (match find_member k y with
               | Some b => le_null a b
               | None => match a with JNull => true | _ => false end
               end && go r)%bool
          end) x
       && forallb (fun kv => match find_member (fst kv) x with Some _ => true | None => false end) y)%bool
  | _, _ => json_eqb d e
  end.

Definition json_eq_mod_null (d e : json) : bool := le_null (canon d) (canon e).

(* ---------- well-formedness: no duplicate member names ---------- *)
Fixpoint str_in (k : string) (l : list string) : bool :=
  match l with [] => false | x :: r => (String.eqb x k || str_in k r)%bool end.
Fixpoint str_nodup (l : list string) : bool :=
  match l with [] => true | x :: r => (negb (str_in x r) && str_nodup r)%bool end.

Fixpoint json_wf (j : json) : bool :=
  match j with
  | JArr l => forallb json_wf l
  | JObj ms => (str_nodup (map fst ms) && forallb (fun kv => json_wf (snd kv)) ms)%bool
  | _ => true
  end.

(* size, used by coverage rules *)
Fixpoint json_depth (j : json) : nat :=
  match j with
  | JArr l => S (fold_right (fun x acc => Nat.max (json_depth x) acc) 0 l)
  | JObj ms => S (fold_right (fun kv acc => Nat.max (json_depth (snd kv)) acc) 0 ms)
  | _ => 0
  end.
