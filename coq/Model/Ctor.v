(* What the Go CONSTRUCTORS cog prints mean (C10), as a function of the post-chain IR the Go jenny receives.
   Definitions only.  Mirrors internal/jennies/golang/rawtypes.go (generateConstructor, defaultsForStruct,
   maybeValueAsPointer) and tools.go (formatScalar, anyToDisjunctionBranchName).

   defaultsForStruct prints a Go composite literal.  Whether that literal TYPE-CHECKS is part of the
   meaning (a package whose constructor does not compile has no constructor at all), so the outcome of
   the model is  COk value | CNoCompile | CUnm (outside the modelled fragment).  The literal printed by
   formatScalar (`%#v` of the Go value held by Type.Default, `[]string{...}` for every list) is
   abstracted to `golit`: what kind of Go constant/expression it is and which value it denotes;
   `assign` is the fragment of Go's assignability rules these literals meet.

   The default's journey BEFORE the jenny (front-end -> dyn) is `fe_default`: what each front-end puts
   into Type.Default for a JSON value declared as default of a field of a given kind (validated against
   the pre-chain IR the real front-ends produce). *)
From Coq Require Import List String ZArith Bool Ascii.
From Cog Require Import Model.IR Model.Json Model.GoSemBase Model.GoSemDecode.
Import ListNotations.
Local Open Scope list_scope.
Local Open Scope string_scope.

(* ---------- decimal texts (strconv 'g' / JSON number literals) ---------- *)
Fixpoint digits_val (l : list ascii) (acc : Z) : Z :=
  match l with
  | [] => acc
  | c :: r => match digit_val c with Some d => digits_val r (acc * 10 + Z.of_nat d)%Z | None => acc end
  end.

Definition take_sign (l : list ascii) : bool * list ascii :=
  match l with
  | c :: r => if Ascii.eqb c "-" then (true, r) else if Ascii.eqb c "+" then (false, r) else (false, l)
  | [] => (false, [])
  end.

Definition signed (neg : bool) (z : Z) : Z := if neg then (- z)%Z else z.

(* "-1.5" "5" "1e+06" "1.2345675e+06" "0.00025" "1e-05"  ->  (m, e) with value m * 10^e *)
Definition parse_decimal (s : string) : option (Z * Z) :=
  let '(neg, l1) := take_sign (str_list s) in
  let '(ip, l2) := take_digits l1 in
  let '(fp, l3) := match l2 with
                   | c :: r => if Ascii.eqb c "." then take_digits r else ([], l2)
                   | [] => ([], [])
                   end in
  match (ip ++ fp)%list with
  | [] => None
  | ds =>
      let m := signed neg (digits_val ds 0) in
      let e0 := (- Z.of_nat (List.length fp))%Z in
      match l3 with
      | [] => Some (m, e0)
      | c :: r =>
          if (Ascii.eqb c "e" || Ascii.eqb c "E")%bool then
            let '(eneg, r1) := take_sign r in
            let '(ed, r2) := take_digits r1 in
            match ed, r2 with
            | _ :: _, [] => Some (m, (e0 + signed eneg (digits_val ed 0))%Z)
            | _, _ => None
            end
          else None
      end
  end.

(* m * 10^e is an integer; its value *)
Definition dec_integral (m e : Z) : bool := if Z.leb 0 e then true else let '(_, b) := num_norm m e in Z.leb 0 b.
Definition dec_int_value (m e : Z) : Z :=
  if Z.leb 0 e then (m * 10 ^ e)%Z else let '(a, b) := num_norm m e in (a * 10 ^ b)%Z.

(* ---------- the JSON value a Go `any` default denotes ---------- *)
Definition opt_map {A B} (f : A -> B) (o : option A) : option B := match o with Some a => Some (f a) | None => None end.

Fixpoint dyn_json (d : dyn) : option json :=
  match d with
  | DNil => Some JNull
  | DBool b => Some (JBool b)
  | DInt _ z => Some (JNum z 0)
  | DFloat _ r => match parse_decimal r with Some (m, e) => Some (JNum m e) | None => None end
  | DStr s => Some (JStr s)
  | DList l =>
      opt_map JArr
        ((fix go (l : list dyn) : option (list json) :=
            match l with
            | [] => Some []
            | x :: r => match dyn_json x, go r with Some j, Some js => Some (j :: js) | _, _ => None end
            end) l)
  | DMap kvs =>
      opt_map JObj
        ((fix go (l : list (string * dyn)) : option (list (string * json)) :=
            match l with
            | [] => Some []
            | (k, x) :: r => match dyn_json x, go r with Some j, Some js => Some ((k, j) :: js) | _, _ => None end
            end) kvs)
  | DOther _ _ => None
  end.

(* ---------- formatScalar: the literal printed for a Go value ---------- *)
Inductive golit :=
| LNil                                (* nil *)
| LBool (b : bool)                    (* true / false *)
| LNum (m e : Z)                      (* untyped numeric constant (decimal or hexadecimal integer, or float) *)
| LStr (s : string)                   (* untyped string constant: strings, AND json.Number (a string type: %#v quotes it) *)
| LStrSlice (items : list golit)      (* []string{...}: every list, whatever its elements *)
| LMapAny                             (* map[string]interface {}{...} *)
| LOther.

Fixpoint format_scalar (d : dyn) : golit :=
  match d with
  | DNil => LNil
  | DBool b => LBool b
  | DInt _ z => LNum z 0
  | DFloat t r =>
      if seqb t "json.Number" then LStr r
      else match parse_decimal r with Some (m, e) => LNum m e | None => LOther end
  | DStr s => LStr s
  | DList l => LStrSlice (map format_scalar l)
  | DMap _ => LMapAny
  | DOther _ _ => LOther
  end.

(* ---------- outcomes ---------- *)
Inductive cres (A : Type) :=
| COk (a : A)
| CNoCompile (why : string)       (* the generated package does not type-check *)
| CUnm (why : string).            (* outside the modelled fragment *)
Arguments COk {A}. Arguments CNoCompile {A}. Arguments CUnm {A}.

Definition cbind {A B} (r : cres A) (f : A -> cres B) : cres B :=
  match r with COk a => f a | CNoCompile w => CNoCompile w | CUnm w => CUnm w end.

(* first failure of a list of results; CUnm dominates (the model cannot say) *)
Fixpoint call {A} (l : list (cres A)) : cres (list A) :=
  match l with
  | [] => COk []
  | x :: r =>
      match x, call r with
      | _, CUnm w => CUnm w
      | CUnm w, _ => CUnm w
      | CNoCompile w, _ => CNoCompile w
      | _, CNoCompile w => CNoCompile w
      | COk a, COk l' => COk (a :: l')
      end
  end.

Definition is_str_lit (l : golit) : bool := match l with LStr _ => true | _ => false end.
Definition lit_str (l : golit) : string := match l with LStr s => s | _ => "" end.

Definition float_digits_ok (k : skind) (m e : Z) : bool :=
  let '(a, _) := num_norm m e in
  Z.ltb (Z.abs a) (match k with KFloat32 => 1000000 | _ => 1000000000000000 end)%Z.

(* the Go type printed for an element type is exactly `string` *)
Definition is_plain_string (t : ty) : bool :=
  match t with TScalar _ KString _ _ => (negb (t_nullable t) && negb (is_datetime t))%bool | _ => false end.

(* assigning the literal l to a variable whose (non-pointer) Go type is the one printed for pt; pt is not a
   reference.  Enumerations are named types over string / integers: untyped constants convert. *)
Definition assign_scalar (pt : ty) (k : skind) (l : golit) : cres gval :=
  match k with
  | KBool => match l with LBool b => COk (GBool b) | LOther => CUnm "literal" | _ => CNoCompile "not a bool constant" end
  | KString =>
      if is_datetime pt then match l with LOther => CUnm "literal" | _ => CNoCompile "constant assigned to time.Time" end
      else match l with LStr s => COk (GStr s) | LOther => CUnm "literal" | _ => CNoCompile "not a string constant" end
  | KFloat32 | KFloat64 =>
      match l with
      | LNum m e => if float_digits_ok k m e then let '(a, b) := num_norm m e in COk (GFloat a b)
                    else CUnm "float beyond the significant digits its width prints back"
      | LOther => CUnm "literal"
      | _ => CNoCompile "not a numeric constant"
      end
  | KAny =>
      match l with
      | LNil => COk GNil
      | LBool b => COk (GAny (JBool b))
      | LNum m e => let '(a, b) := num_norm m e in COk (GAny (JNum a b))
      | LStr s => COk (GAny (JStr s))
      | LStrSlice items => if forallb is_str_lit items then COk (GAny (JArr (map (fun i => JStr (lit_str i)) items)))
                           else CNoCompile "non-string element in []string literal"
      | _ => CUnm "literal assigned to any"
      end
  | KNull | KBytes | KOther _ => CUnm "scalar kind"
  | _ =>
      match l, int_range k with
      | LNum m e, Some (lo, hi) =>
          if (dec_integral m e && Z.leb lo (dec_int_value m e) && Z.leb (dec_int_value m e) hi)%bool
          then COk (GInt (dec_int_value m e))
          else CNoCompile "constant truncated or overflows"
      | LOther, _ => CUnm "literal"
      | _, _ => CNoCompile "not an integer constant"
      end
  end.

Definition assign (pt : ty) (l : golit) : cres gval :=
  match pt with
  | TScalar _ k _ _ => assign_scalar pt k l
  | TEnum _ vs => match enum_base vs with TScalar _ k _ _ as b => assign_scalar b k l | _ => CUnm "enum base" end
  | TArray _ et =>
      match l with
      | LStrSlice items =>
          if negb (is_plain_string et) then CNoCompile "[]string literal assigned to another slice type"
          else if forallb is_str_lit items then COk (GSlice (map (fun i => GStr (lit_str i)) items))
          else CNoCompile "non-string element in []string literal"
      | LNil => COk GNil
      | LOther => CUnm "literal"
      | _ => CNoCompile "not a slice"
      end
  | TMap _ _ vt =>
      match l with
      | LMapAny => if is_any vt then CUnm "map[string]any literal" else CNoCompile "map[string]interface{} literal assigned to another map type"
      | LNil => COk GNil
      | LOther => CUnm "literal"
      | _ => CNoCompile "not a map"
      end
  | TStruct _ _ _ => match l with LOther => CUnm "literal" | _ => CNoCompile "constant assigned to a struct" end
  | _ => CUnm "type kind"
  end.

(* maybeValueAsPointer *)
Definition as_pointer (nullable : bool) (pt : ty) (v : gval) : gval :=
  if negb nullable then v else match pt with TArray _ _ | TMap _ _ _ => v | _ => GPtr v end.

(* anyToDisjunctionBranchName: reflect.Kind of the value, upper camel case *)
Definition branch_kind_name (d : dyn) : string :=
  match d with
  | DBool _ => "Bool"
  | DInt t _ => if seqb t "int64" then "Int64" else if seqb t "int" then "Int" else if seqb t "int32" then "Int32"
                else if seqb t "int16" then "Int16" else if seqb t "int8" then "Int8" else if seqb t "uint8" then "Uint8"
                else if seqb t "uint16" then "Uint16" else if seqb t "uint32" then "Uint32" else "Uint64"
  | DFloat t _ => if seqb t "json.Number" then "String" else if seqb t "float32" then "Float32" else "Float64"
  | DStr _ => "String"
  | DList _ => "Slice"
  | DMap _ => "Map"
  | DNil => "Invalid"
  | DOther _ _ => "?"
  end.
Definition branch_name (d : dyn) : string :=
  match d with
  | DList (x :: _) => "ArrayOf" ++ branch_kind_name x
  | _ => branch_kind_name d
  end.

Definition is_disj_struct (t : ty) : bool :=
  match union_scalars t, union_refs t with None, None => false | _, _ => true end.

Definition field_by_name (fs : list field) (n : string) : option field := find (fun f => seqb (f_name f) n) fs.

(* generateConstructor: an object has a constructor iff it is a struct, or a reference to an object that is a struct *)
Definition ctor_fields (ctx : schemas) (p n : string) : option (list field) :=
  match locate_object ctx p n with
  | None => None
  | Some o =>
      match o_type o with
      | TStruct _ _ fs => Some fs
      | TRef _ p' n' =>
          match locate_object ctx p' n' with
          | Some o' => match o_type o' with TStruct _ _ fs => Some fs | _ => None end
          | None => None
          end
      | _ => None
      end
  end.

Definition dyn_of_enum_member (vs : list enumval) (v : dyn) : cres gval :=
  match enum_base vs with
  | TScalar _ k _ _ as b => assign_scalar b k (format_scalar v)
  | _ => CUnm "enum base"
  end.

Definition unsupported_text : string := "unsupported default value case: this is likely a bug in cog".

(* field.Type.Default != nil || extraDefaults[field.Name] != nil || ... *)
Definition needs_explicit_default (rt : ty) (f : field) (extra : list (string * dyn)) : bool :=
  let ft := f_type f in
  (negb (dyn_is_nil (dflt (ty_attrs ft)))
   || match alist_find extra (f_name f) with Some d => negb (dyn_is_nil d) | None => false end
   || (f_required f && is_ref ft && is_struct rt)
   || (f_required f && is_array ft)
   || (f_required f && is_map ft)
   || is_concrete_scalar ft
   || is_constref ft)%bool.

(* one field of defaultsForStruct, parameterised by the recursive call (nested struct literals / NewX()) *)
Definition go_field_value (ctx : schemas) (dfs : list field -> list (string * dyn) -> cres gval)
           (extra : list (string * dyn)) (f : field) : cres gval :=
  let ft := f_type f in
  let d := dflt (ty_attrs ft) in
  let nl := t_nullable ft in
  match resolve ctx ft with
  | None => CUnm "reference cycle"
  | Some rt =>
      if negb (needs_explicit_default rt f extra) then COk (zero ctx ft)
      else
        match alist_find extra (f_name f) with
        | Some x =>
            if (is_ref ft && is_disj_struct rt)%bool then
              match rt with
              | TStruct _ _ bfs =>
                  let br := match field_by_name bfs (branch_name x) with
                            | Some b => Some b
                            | None => field_by_name bfs "Any"
                            end in
                  match br with
                  | None => CNoCompile "no disjunction branch for the default"
                  | Some b =>
                      match resolve ctx (f_type b) with
                      | None => CUnm "reference cycle"
                      | Some bt =>
                          cbind (assign (non_null bt) (format_scalar x)) (fun v =>
                            let s := GStruct (map (fun g => (f_name g,
                                       if seqb (f_name g) (f_name b) then as_pointer true bt v else GNil)) bfs) in
                            COk (if nl then GPtr s else s))
                      end
                  end
              | _ => CUnm "disjunction struct"
              end
            else if (nl && is_enum rt)%bool then
              (* maybeValueAsPointer prints formatType(<resolved enum type>) = "unknown" as the pointer's type *)
              CNoCompile "pointer helper over the placeholder type `unknown`"
            else cbind (assign (non_null rt) (format_scalar x)) (fun v => COk (as_pointer nl rt v))
        | None =>
            if is_concrete_scalar ft then
              match ft with
              | TScalar _ _ v _ => cbind (assign (non_null rt) (format_scalar v)) (fun v => COk (as_pointer nl rt v))
              | _ => CUnm "concrete scalar"
              end
            else if ((is_scalar rt || is_map rt || is_array rt) && negb (dyn_is_nil d))%bool then
              cbind (assign (non_null rt) (format_scalar d)) (fun v => COk (as_pointer nl rt v))
            else if (is_ref ft && is_struct rt && negb (dyn_is_nil d))%bool then
              match rt with
              | TStruct _ _ sfs =>
                  cbind (dfs sfs (match d with DMap kvs => kvs | _ => [] end))
                        (fun v => COk (if nl then GPtr v else v))
              | _ => CUnm "struct"
              end
            else if (is_ref ft && is_struct rt)%bool then
              match ft with
              | TRef _ p n =>
                  match ctor_fields ctx p n with
                  | None => CNoCompile "undefined constructor"
                  | Some sfs => cbind (dfs sfs []) (fun v => COk (if nl then GPtr v else v))
                  end
              | _ => CUnm "ref"
              end
            else if (is_ref ft && is_enum rt)%bool then
              match rt with
              | TEnum _ vs =>
                  let m := match find (fun ev => dyn_eqb (ev_value ev) d) vs with
                           | Some ev => Some ev
                           | None => match vs with ev :: _ => Some ev | [] => None end
                           end in
                  match m with
                  | None => CUnm "empty enum"
                  | Some ev => cbind (dyn_of_enum_member vs (ev_value ev)) (fun v => COk (as_pointer nl ft v))
                  end
              | _ => CUnm "enum"
              end
            else if is_constref ft then
              match ft with
              | TConstRef _ p n cv =>
                  match resolve ctx (TRef attrs0 p n) with
                  | Some (TEnum _ vs) =>
                      match find (fun ev => dyn_eqb (ev_value ev) cv) vs with
                      | Some ev => dyn_of_enum_member vs (ev_value ev)
                      | None => CNoCompile "no enum member for the constant reference"
                      end
                  | _ => CUnm "constant reference to a non-enum (the loop over the fields stops)"
                  end
              | _ => CUnm "constant ref"
              end
            else if is_array ft then COk (GSlice [])
            else if is_map ft then COk (GMap [])
            else cbind (assign (non_null rt) (LStr unsupported_text)) (fun v => COk v)
        end
  end.

Definition mk_gstruct (fs : list field) (vs : list gval) : gval := GStruct (combine (map (@f_name ty) fs) vs).

(* defaultsForStruct.  fuel bounds the nesting of constructor calls (NewX() inside NewY() ...): a
   required reference cycle makes the real constructor recurse forever; the model answers CUnm. *)
Fixpoint defaults_for_struct (ctx : schemas) (fuel : nat) (fs : list field) (extra : list (string * dyn))
  {struct fuel} : cres gval :=
  match fuel with
  | O => CUnm "constructor nesting exceeds the fuel (required reference cycle?)"
  | S fuel' =>
      match call (map (go_field_value ctx (defaults_for_struct ctx fuel') extra) fs) with
      | COk vs => COk (mk_gstruct fs vs)
      | CNoCompile w => CNoCompile w
      | CUnm w => CUnm w
      end
  end.

Definition ctor_fuel (ctx : schemas) : nat := S (S (count_objects ctx)).

(* New<Object>() of the object n of package p *)
Definition go_ctor_value (ctx : schemas) (p n : string) : cres gval :=
  match ctor_fields ctx p n with
  | None => CUnm "object has no constructor"
  | Some fs => defaults_for_struct ctx (ctor_fuel ctx) fs []
  end.

(* json.Marshal(New<Object>()) *)
Definition go_ctor (ctx : schemas) (p n : string) : cres json :=
  cbind (go_ctor_value ctx p n) (fun v => COk (encode ctx (TRef attrs0 p n) v)).

(* every constructor of the package type-checks *)
Definition struct_object_names (ctx : schemas) (p : string) : list string :=
  match locate ctx p with
  | None => []
  | Some s => flat_map (fun ko => match ctor_fields ctx p (fst ko) with Some _ => [fst ko] | None => [] end) (s_objects s)
  end.

Definition pkg_ctor_status (ctx : schemas) (p : string) : cres unit :=
  match call (map (go_ctor_value ctx p) (struct_object_names ctx p)) with
  | COk _ => COk tt
  | CNoCompile w => CNoCompile w
  | CUnm w => CUnm w
  end.

(* ---------- front-ends: what lands in Type.Default ---------- *)
(* jsonschema: santhosh-tekuri decodes with UseNumber -> json.Number; walkNumber unwraps it (fix 83e7cb1),
               walkList unwraps the elements of a list default; walkEnum, walkObject, walkOneOf/AnyOf,
               walkRef do not look at `default`
   openapi   : kin-openapi decodes into float64 / string / bool / []any / map[string]any; walkObject and
               walkDisjunctions do not look at `default`
   cue       : cueConcreteToScalar: int64 / float64 / string / bool / []any / map[string]any *)
(* decimal text of m * 10^e as a schema file spells it (canonical: no exponent) *)
Definition digit_char (d : Z) : ascii := ascii_of_nat (48 + Z.to_nat d).
Fixpoint pos_digits (fuel : nat) (z : Z) (acc : list ascii) : list ascii :=
  match fuel with
  | O => acc
  | S f => if Z.ltb z 10 then digit_char z :: acc else pos_digits f (Z.div z 10) (digit_char (Z.modulo z 10) :: acc)
  end.
Definition nat_text (z : Z) : list ascii := pos_digits (S (Z.to_nat (Z.log2_up (Z.abs z + 1)))) (Z.abs z) [].
Fixpoint zeros (n : nat) : list ascii := match n with O => [] | S k => "0"%char :: zeros k end.
Definition dec_text (m e : Z) : string :=
  let ds := nat_text m in
  let sign := if Z.ltb m 0 then ["-"%char] else [] in
  if Z.leb 0 e then list_str (sign ++ ds ++ zeros (Z.to_nat e))%list
  else
    let k := Z.to_nat (- e) in
    let ds' := (zeros (S k - List.length ds) ++ ds)%list in
    let n := (List.length ds' - k)%nat in
    list_str (sign ++ firstn n ds' ++ "."%char :: skipn n ds')%list.

(* values nested inside a list / map default (JSON Schema: walkList unwraps the json.Number elements too) *)
Fixpoint fe_elem (fmt : string) (numtext : Z -> Z -> string) (j : json) : dyn :=
  match j with
  | JNull => DNil
  | JBool b => DBool b
  | JStr s => DStr s
  | JNum m e =>
      if seqb fmt "openapi" then DFloat "float64" (numtext m e)
      else if Z.eqb e 0 then DInt "int64" m else DFloat "float64" (numtext m e)
  | JArr l => match l with
              | [] => if seqb fmt "cue" then DNil else DList []
              | _ => DList (map (fe_elem fmt numtext) l)
              end
  | JObj ms =>
      DMap (fold_left (fun acc kv => alist_set acc (fst kv) (fe_elem fmt numtext (snd kv))) ms [])
  end.

(* the default of a field.  JSON Schema: walkNumber unwraps the json.Number of a numeric default
   (unwrapJSONNumber: int64 when the literal is an integer, else float64), walkList those of a list default. *)
Definition fe_value (fmt : string) (numtext : Z -> Z -> string) (j : json) : dyn :=
  match j with
  | JNum m e =>
      if seqb fmt "jsonschema" then (if Z.eqb e 0 then DInt "int64" m else DFloat "float64" (numtext m e))
      else fe_elem fmt numtext j
  | _ => fe_elem fmt numtext j
  end.

(* the kinds of declaration the generators produce (gen/ctorgen.py dkind) *)
Definition fe_keeps (fmt kind : string) : bool :=
  if seqb fmt "cue" then true
  else if seqb fmt "openapi" then negb (seqb kind "struct" || seqb kind "union")%bool
  else negb (seqb kind "struct" || seqb kind "union" || seqb kind "enum")%bool.

Definition fe_default (fmt kind : string) (numtext : Z -> Z -> string) (j : json) : dyn :=
  if fe_keeps fmt kind then fe_value fmt numtext j else DNil.

(* the dyn a front-end produced is the predicted one: same dynamic Go types, numbers equal by value *)
Fixpoint dyn_sim (a b : dyn) : bool :=
  match a, b with
  | DNil, DNil => true
  | DBool x, DBool y => Bool.eqb x y
  | DInt t x, DInt u y => (seqb t u && Z.eqb x y)%bool
  | DFloat t x, DFloat u y =>
      (seqb t u && match parse_decimal x, parse_decimal y with
                   | Some (m, e), Some (m', e') => num_eqb m e m' e'
                   | _, _ => false end)%bool
  | DStr x, DStr y => seqb x y
  | DList x, DList y =>
      (fix go (x y : list dyn) : bool :=
         match x, y with
         | [], [] => true
         | a :: r, b :: s => (dyn_sim a b && go r s)%bool
         | _, _ => false
         end) x y
  | DMap x, DMap y =>
      (fix go (x y : list (string * dyn)) : bool :=
         match x, y with
         | [], [] => true
         | (k, a) :: r, (k', b) :: s => (seqb k k' && dyn_sim a b && go r s)%bool
         | _, _ => false
         end) x y
  | _, _ => false
  end.
