(* Side conditions of the partial theorems of Props/C08.v that were found while proving them
   (each is the negation of a corner in which the full statement fails; see Proofs/GoSemC08Wit.v for
   the counterexamples).  Definitions only. *)
From Coq Require Import List String ZArith Bool Ascii.
From Cog Require Import Model.IR Model.Json Model.GoSemBase Model.GoSemDecode Model.GoSemStrict.
Import ListNotations.
Local Open Scope list_scope.
Local Open Scope string_scope.

(* Side conditions the statements of Props/C08.v turned out to need       *)
(* no struct field is named by the empty string *)
Fixpoint ty_named (t : ty) : bool :=
  match t with
  | TStruct _ _ fs => forallb (fun f => (negb (String.eqb (f_name f) "") && ty_named (f_type f))%bool) fs
  | TArray _ v => ty_named v
  | TMap _ _ v => ty_named v
  | _ => true
  end.
Definition ctx_named (ctx : schemas) : bool :=
  forallb (fun s => forallb (fun ko => ty_named (o_type (snd ko))) (s_objects s)) ctx.

(* every constant reference names an enum object DIRECTLY (not through an alias object) *)
Fixpoint ty_cdirect (ctx : schemas) (t : ty) : bool :=
  match t with
  | TStruct _ _ fs => forallb (fun f => ty_cdirect ctx (f_type f)) fs
  | TArray _ v => ty_cdirect ctx v
  | TMap _ _ v => ty_cdirect ctx v
  | TConstRef _ p n _ => match locate_object ctx p n with Some o => is_enum (o_type o) | None => false end
  | _ => true
  end.
Definition ctx_cdirect (ctx : schemas) : bool :=
  forallb (fun s => forallb (fun ko => ty_cdirect ctx (o_type (snd ko))) (s_objects s)) ctx.

(* Side condition the soundness statement turned out to need              *)
(* the array / map branches of a disjunction-of-scalars struct hold scalars (languages.Context.IsArrayOfKinds) *)
Definition union_flat (ctx : schemas) (t : ty) : bool :=
  match t with
  | TStruct _ _ fs =>
      match union_scalars t with
      | Some _ =>
          forallb (fun f => match f_type f with
                            | TArray _ _ => array_of_scalars ctx 8 (f_type f)
                            | TMap _ _ _ => map_of_scalars ctx 8 (f_type f)
                            | _ => true
                            end) fs
      | None => true
      end
  | _ => true
  end.
Definition ctx_unions_flat (ctx : schemas) : bool :=
  forallb (fun s => forallb (fun ko => union_flat ctx (o_type (snd ko))) (s_objects s)) ctx.

