(* Specifications for C11 (definitions only).

   le_null_u d e      : e is d with some members whose value is null removed (at any depth); objects are
                        compared as finite maps WITHOUT sorting (lookups by key), numbers by value.  On
                        documents without duplicate member names this is Json.json_eq_mod_null (the check
                        evaluates both on every real case and reports a disagreement as a mismatch).
   py_valid pctx t d  : the document has the shape the post-chain IR type t asks for, as far as from_json
                        looks at it: objects where classes are built, declared members only, required
                        members present, constants equal to the constant, arrays / objects where from_json
                        iterates, a discriminator that selects a class (documents have no duplicate member
                        names: json_wf, a separate hypothesis; classes have distinct field names).
                        (Implied by acceptance by the source schema for the construct grammar; what a
                        leaf holds is irrelevant because from_json keeps leaves untouched.)
   py_rt_safe pctx t d: the document avoids the shapes for which the generated Python is KNOWN not to
                        round-trip; each conjunct names one defect and is what the known-finding matchers
                        of checks/c11.py use:
        - an explicit null where from_json recurses: a reference to a struct, an array / map of non-scalars,
          a discriminated union                                            (TypeError)
        - an absent optional member whose field is a constant, carries a default, or is not nullable in the IR
                                                                            (materialised by __init__)
        - an explicit null for an array / map / enum / reference member whose field carries a default or is
          not nullable in the IR (a scalar member keeps its None)
                                                                            (replaced by the default)
        - a map of maps of non-scalars (both comprehensions bind `key`: KeyError / wrong entry)
        - a discriminated union without mapping entries (typing.Union[]: the module does not import)
   wire_safe          : additionally the Go side's known round-trip exclusions (Model/GoSemSpec01.v
                        roundtrip_safe: optional empty collections, date-times, integers written with a
                        fraction, float32 digits ...). *)
From Coq Require Import List String ZArith Bool Ascii.
From Cog Require Import Model.GoSem Model.GoSemSpec08 Model.GoSemSpec01 Model.GoSemSpec01F Model.Ctor Model.PySem Model.PySemChecks.
Import ListNotations.
Local Open Scope list_scope.
Local Open Scope string_scope.

Definition is_jnull (j : json) : bool := match j with JNull => true | _ => false end.

Fixpoint le_null_u (d e : json) {struct d} : bool :=
  match d, e with
  | JArr x, JArr y =>
      (fix go (x y : list json) : bool :=
         match x, y with
         | [], [] => true
         | a :: r, b :: s => (le_null_u a b && go r s)%bool
         | _, _ => false
         end) x y
  | JObj x, JObj y =>
      ((fix go (x : list (string * json)) : bool :=
          match x with
          | [] => true
          | (k, a) :: r =>
              (match find_member k y with
               | Some b => le_null_u a b
               | None => is_jnull a
               end && go r)%bool
          end) x
       && forallb (fun kv => str_in (fst kv) (map fst x)) y)%bool
  | JNum m e1, JNum m' e' => num_eqb m e1 m' e'
  | _, _ => json_eqb d e
  end.

(* ---------- which types from_json recurses into ---------- *)
Definition disj_discriminated (dj : disj) : bool := disj_uses_mapping dj.
Definition py_view (pctx : schemas) (t : ty) : ty := view pctx t.

(* from_json does more with a value of this type than keeping it: it builds a class, iterates, selects a
   class by discriminator -- or is outside what works at all (nested maps, typing.Union[], unresolvable) *)
Definition recursing (pctx : schemas) (t : ty) : bool :=
  (nested_maps pctx t ||
   match py_view pctx t with
   | TStruct _ _ _ => true
   | TArray _ et => negb (is_scalar_kind et)
   | TMap _ _ vt => negb (is_scalar_kind vt)
   | TDisj _ dj => (disj_discriminated dj || disj_empty_union dj)%bool
   | TBad _ _ => true
   | _ => false
   end)%bool.

Definition has_dflt (t : ty) : bool := negb (dyn_is_nil (dflt (ty_attrs t))).

(* the JSON a constant field always holds *)
Definition lit_json (d : dyn) : option json := match py_lit_json d with POk j => Some j | _ => None end.
Definition const_json (pctx : schemas) (t : ty) : option json :=
  match t with
  | TScalar _ _ v _ => lit_json v
  | TConstRef _ cp cn v =>
      match locate_object pctx cp cn with
      | Some o => match o_type o with
                  | TEnum _ vs => match find (fun ev => dyn_eqb (ev_value ev) v) vs with
                                  | Some ev => lit_json (ev_value ev)
                                  | None => None end
                  | _ => None end
      | None => None
      end
  | _ => None
  end.

Definition select_class (dj : disj) (ms : list (string * json)) : option string :=
  match last_member (d_disc dj) ms with
  | Some (JStr s) => if seqb s catch_all then None else alist_find (d_mapping dj) s
  | _ => None
  end.

(* ---------- validity (shape) ---------- *)
Definition member_valid (pctx : schemas) (valid : ty -> json -> bool) (sfs : list field) (kv : string * json) : bool :=
  match field_by_name sfs (fst kv) with
  | None => false
  | Some fld =>
      if is_const_field (f_type fld)
      then match const_json pctx (f_type fld) with
           | Some c => (le_null_u (snd kv) c && negb (is_jnull (snd kv)))%bool
           | None => false
           end
      else match snd kv with JNull => true | _ => valid (f_type fld) (snd kv) end
  end.

Definition class_valid (pctx : schemas) (valid : string -> ty -> json -> bool) (p : string) (sfs : list field) (j : json) : bool :=
  match j with
  | JObj ms =>
      (str_nodup (map (@f_name ty) sfs) &&
       forallb (member_valid pctx (valid p) sfs) ms &&
       forallb (fun fld => (negb (f_required fld) || str_in (f_name fld) (map fst ms))%bool) sfs)%bool
  | _ => false
  end.

Fixpoint py_valid (pctx : schemas) (cur_pkg : string) (t : ty) (j : json) {struct j} : bool :=
  if nested_maps pctx t then true else
  match t, py_view pctx t with
  | TRef _ p n, TStruct _ _ sfs =>
      match struct_fields pctx p n with Some _ => class_valid pctx (py_valid pctx) p sfs j | None => false end
  | _, TBad _ _ => false
  | _, TArray _ et =>
      if is_scalar_kind et then true else
      match j with JArr l => forallb (fun x => py_valid pctx cur_pkg et x) l | _ => false end
  | _, TMap _ _ vt =>
      if is_scalar_kind vt then true else
      match j with
      | JObj ms => forallb (fun kv => py_valid pctx cur_pkg vt (snd kv)) ms
      | _ => false
      end
  | _, TDisj _ dj =>
      if negb (disj_discriminated dj) then true else
      match j with
      | JObj ms =>
          match select_class dj ms with
          | Some n =>
              let p := pkg_of_branch dj cur_pkg n in
              match struct_fields pctx p n with Some sfs => class_valid pctx (py_valid pctx) p sfs j | None => false end
          | None => false
          end
      | _ => false
      end
  | _, _ => true
  end.

(* ---------- the exclusions ---------- *)
Definition null_member_safe (pctx : schemas) (t : ty) : bool :=
  (negb (recursing pctx t) && (negb (is_complex_kind t) || (t_nullable t && negb (has_dflt t))))%bool.
Definition absent_member_safe (fld : field) : bool :=
  (negb (f_required fld) && t_nullable (f_type fld) && negb (is_const_field (f_type fld)) && negb (has_dflt (f_type fld)))%bool.

Definition member_safe (pctx : schemas) (safe : ty -> json -> bool) (sfs : list field) (kv : string * json) : bool :=
  match field_by_name sfs (fst kv) with
  | None => true
  | Some fld =>
      if is_const_field (f_type fld) then true else
      match snd kv with
      | JNull => null_member_safe pctx (f_type fld)
      | _ => safe (f_type fld) (snd kv)
      end
  end.

Definition class_safe (pctx : schemas) (safe : string -> ty -> json -> bool) (p : string) (sfs : list field) (j : json) : bool :=
  match j with
  | JObj ms =>
      (forallb (member_safe pctx (safe p) sfs) ms &&
       forallb (fun fld => (str_in (f_name fld) (map fst ms) || absent_member_safe fld)%bool) sfs)%bool
  | _ => true
  end.

Definition elem_safe (pctx : schemas) (safe : ty -> json -> bool) (et : ty) (x : json) : bool :=
  (negb (is_jnull x && recursing pctx et) && safe et x)%bool.

Fixpoint py_rt_safe (pctx : schemas) (cur_pkg : string) (t : ty) (j : json) {struct j} : bool :=
  if nested_maps pctx t then false else
  match t, py_view pctx t with
  | TRef _ p n, TStruct _ _ sfs => class_safe pctx (py_rt_safe pctx) p sfs j
  | _, TArray _ et =>
      if is_scalar_kind et then true else
      match j with JArr l => forallb (fun x => elem_safe pctx (py_rt_safe pctx cur_pkg) et x) l | _ => true end
  | _, TMap _ _ vt =>
      if is_scalar_kind vt then true else
      match j with
      | JObj ms => forallb (fun kv => elem_safe pctx (py_rt_safe pctx cur_pkg) vt (snd kv)) ms
      | _ => true
      end
  | _, TDisj _ dj =>
      if disj_empty_union dj then false else
      if negb (disj_discriminated dj) then true else
      match j with
      | JObj ms =>
          match select_class dj ms with
          | Some n =>
              let p := pkg_of_branch dj cur_pkg n in
              match struct_fields pctx p n with Some sfs => class_safe pctx (py_rt_safe pctx) p sfs j | None => true end
          | None => true
          end
      | _ => true
      end
  | _, _ => true
  end.

Definition is_class (pctx : schemas) (p n : string) : bool :=
  match struct_fields pctx p n with Some _ => true | None => false end.
Definition py_valid_object (pctx : schemas) (p n : string) (d : json) : bool :=
  (is_class pctx p n && negb (is_jnull d) && py_valid pctx p (TRef attrs0 p n) d)%bool.
Definition py_rt_safe_object (pctx : schemas) (p n : string) (d : json) : bool :=
  py_rt_safe pctx p (TRef attrs0 p n) d.

(* the conclusion of py_roundtrip on the MODEL's output *)
Definition py_roundtrip_holds (pctx : schemas) (p n : string) (d : json) : bool :=
  match py_roundtrip pctx p n d with
  | POk e => le_null_u d e
  | _ => false
  end.

(* ---------- Go and Python on the same wire ---------- *)
Definition wire_safe (ctx pctx : schemas) (p gn pn : string) (d : json) : bool :=
  (py_valid_object pctx p pn d && py_rt_safe_object pctx p pn d &&
   ir_valid_object ctx p gn d && roundtrip_safe ctx p gn d)%bool.

(* the fragment on which the agreement of the two SDKs is PROVED (Proofs/PyGoWire.v): Go's corrected exclusion
   predicate roundtrip_safeF (Model/GoSemSpec01F.v) instead of roundtrip_safe, and no member given as explicit
   null anywhere in the document (both round-trip theorems only say "up to omitted null members"; which null
   members each SDK omits is validated by the correspondence, pf_wire_in_safe, not proved) *)
Fixpoint no_null_members (j : json) : bool :=
  match j with
  | JArr l => forallb no_null_members l
  | JObj ms => forallb (fun kv => (negb (is_jnull (snd kv)) && no_null_members (snd kv))%bool) ms
  | _ => true
  end.

Definition wire_safeF (ctx pctx : schemas) (p gn pn : string) (d : json) : bool :=
  (py_valid_object pctx p pn d && py_rt_safe_object pctx p pn d &&
   ir_valid_object ctx p gn d && roundtrip_safeF ctx p gn d && no_null_members d)%bool.

Definition same_wire_holds (ctx pctx : schemas) (p gn pn : string) (d : json) : bool :=
  match std_roundtrip ctx p gn d, py_roundtrip pctx p pn d with
  | GOk a, POk b => json_eq a b
  | _, _ => false
  end.

(* ---------- evaluated by the correspondence on real data ---------- *)
Definition doc_rt_safe (c : pcase) (d : json) : bool :=
  let '(_, pctx, p, _, pn, _, _, _) := c in (py_valid_object pctx p pn d && py_rt_safe_object pctx p pn d)%bool.
Definition some_doc_rt_safe (c : pcase) : bool :=
  let '(_, _, _, _, _, docs, _, _) := c in existsb (doc_rt_safe c) docs.
(* a document inside the fragment py_roundtrip_partial covers on which the REAL Python fails to round-trip *)
Definition pf_rt_in_safe (c : pcase) : bool :=
  let '(_, _, _, _, _, docs, _, pobs) := c in
  existsb (fun dj => (doc_rt_safe c (fst dj) && negb (rt_holds (fst dj) (snd dj)))%bool) (combine docs pobs).

Definition doc_wire_safe (c : pcase) (d : json) : bool :=
  let '(ctx, pctx, p, gn, pn, _, _, _) := c in
  if go_case_unmodelled c then false else wire_safe ctx pctx p gn pn d.
Definition some_doc_wire_safe (c : pcase) : bool :=
  let '(_, _, _, _, _, docs, _, _) := c in existsb (doc_wire_safe c) docs.
Definition pf_wire_in_safe (c : pcase) : bool :=
  let '(_, _, _, _, _, docs, gobs, pobs) := c in
  existsb (fun x => let '(d, g, o) := x in
                    (doc_wire_safe c d &&
                     (wire_differs g o || negb (seqb (ob_std g) "ok") || negb (seqb (po_tag o) "ok")))%bool)
          (zip3 docs gobs pobs).

(* le_null_u and Json.json_eq_mod_null disagree on a real (document, output) pair *)
Definition spec_eq_differs (c : pcase) : bool :=
  let '(_, _, _, _, _, docs, _, pobs) := c in
  existsb (fun dj => match po_enc (snd dj) with
                     | Some e => negb (Bool.eqb (le_null_u (fst dj) e) (json_eq_mod_null (fst dj) e))
                     | None => false end) (combine docs pobs).

(* documents in the fragment of py_go_same_wire_safe *)
Definition doc_wire_proved (c : pcase) (d : json) : bool :=
  let '(ctx, pctx, p, gn, pn, _, _, _) := c in
  if go_case_unmodelled c then false else (json_wf d && wire_safeF ctx pctx p gn pn d)%bool.
Definition some_doc_wire_proved (c : pcase) : bool :=
  let '(_, _, _, _, _, docs, _, _) := c in existsb (doc_wire_proved c) docs.
Definition pf_wire_in_proved (c : pcase) : bool :=
  let '(_, _, _, _, _, docs, gobs, pobs) := c in
  existsb (fun x => let '(d, g, o) := x in
                    (doc_wire_proved c d &&
                     (wire_differs g o || negb (seqb (ob_std g) "ok") || negb (seqb (po_tag o) "ok")))%bool)
          (zip3 docs gobs pobs).
