(* C06: case checker — normal-form violations of what the real chain produced. *)
From Cog Require Export Model.Spec15 Model.NF Model.SpecChain.
Local Open Scope list_scope.

Definition nfcase := (string * pcase)%type.   (* language, (input, passes really applied, outcome, input after) *)

Definition case_nf_violations (c : nfcase) : list string :=
  let '(lang, (_, _, outcome, _)) := c in
  match outcome with Ok out => nf_violations lang out | _ => [] end.
Definition case_nf_bad (c : nfcase) : bool := match case_nf_violations c with [] => false | _ => true end.
Definition case_chain_mismatch (c : nfcase) : bool := case_mismatch (snd c).
(* the functional model cannot follow Go pointer sharing between types that a pass copies shallowly and a later
   pass mutates in place; Model/SpecChain.v decides (over-approximately) where that can matter *)
Definition case_chain_alias (c : nfcase) : bool := case_alias (snd c).
Definition case_chain_unmodelled (c : nfcase) : bool := case_unmodelled (snd c).
Definition case_chain_failed (c : nfcase) : bool :=
  let '(_, (_, _, outcome, _)) := c in match outcome with Ok _ => false | _ => true end.
