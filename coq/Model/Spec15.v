(* The documented behaviour of the schema transformations, as a reference to compare the
   implementation with (C15), and the case checker of the `passes` correspondence stream. *)
From Cog Require Export Model.Process Model.IREq.
Local Open Scope list_scope.

(* rename_object: the object selected by `from` is renamed and every reference to it follows.
   The selector is the documented one (package exact, name case-insensitive) for BOTH. *)
Definition spec_rename_ref_leaf (pkg obj to : string) (t : ty) : ty :=
  match t with
  | TRef a p n => if objref_matches_ref (pkg, obj) p n then TRef a p to else t
  | TConstRef a p n v => if objref_matches_ref (pkg, obj) p n then TConstRef a p to v else t
  | _ => t
  end.
Definition spec_rename_object (pkg obj to : string) (ss : schemas) : schemas :=
  map (fun s => rename_entry pkg obj to
         (visit_schema_t (tmap (spec_rename_ref_leaf pkg obj to))
            (fun o => let o1 := if objref_matches (pkg, obj) o then rename_o o to else o in
                      set_otype o1 (tmap (spec_rename_ref_leaf pkg obj to) (o_type o1))) s)) ss.

(* replace_reference: only the target of the reference changes *)
Definition spec_replace_ref_leaf (fpkg fobj tpkg tobj : string) (t : ty) : ty :=
  match t with
  | TRef a p n => if objref_matches_ref (fpkg, fobj) p n then TRef a tpkg tobj else t
  | _ => t
  end.
Definition spec_replace_reference fpkg fobj tpkg tobj (ss : schemas) : schemas :=
  let f := tmap (spec_replace_ref_leaf fpkg fobj tpkg tobj) in
  map (visit_schema_t f (fun o => set_otype o (f (o_type o)))) ss.

Definition spec_run_pass (p : pass) (ss : schemas) : res schemas :=
  match p with
  | PRenameObject pkg obj to => Ok (spec_rename_object pkg obj to ss)
  | PReplaceReference a b c d => Ok (spec_replace_reference a b c d ss)
  | _ => run_pass p ss
  end.

Fixpoint spec_process (ps : list pass) (ss : schemas) : res schemas :=
  match ps with
  | [] => Ok ss
  | p :: r => do ss' <- spec_run_pass p ss ; spec_process r ss'
  end.

(* ---- correspondence cases ---- *)
Definition pcase := (schemas * list pass * res schemas * schemas)%type.

Definition indices {A} (bad : A -> bool) (cs : list A) : list nat :=
  (fix go (i : nat) (cs : list A) : list nat :=
     match cs with
     | [] => []
     | c :: r => if bad c then i :: go (S i) r else go (S i) r
     end) 0 cs.

Definition all_modelled (ps : list pass) : bool := forallb modelled ps.

(* model and implementation disagree *)
Definition case_mismatch (c : pcase) : bool :=
  let '(input, ps, outcome, _) := c in
  all_modelled ps && negb (res_eqb schemas_eqb (process ps input) outcome).
(* the implementation does not do what the documented behaviour says *)
Definition case_propfail (c : pcase) : bool :=
  let '(input, ps, outcome, _) := c in
  all_modelled ps && negb (res_eqb schemas_eqb (spec_process ps input) outcome).
(* Passes.Process changed the schemas it was handed *)
Definition case_input_mutated (c : pcase) : bool :=
  let '(input, _, _, after) := c in negb (schemas_eqb input after).
Definition case_unmodelled (c : pcase) : bool :=
  let '(_, ps, _, _) := c in negb (all_modelled ps).
