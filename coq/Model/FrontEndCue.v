(* Executable model of cog's CUE front-end (internal/simplecue/generator.go) on the construct grammar, for the CUE text
   gen/srcgen.py renders (render_cue): definitions `#Name: T`, fields in declaration order (not sorted), `T | null`
   as a disjunction with the null scalar, `strings.MinRunes/MaxRunes`, `time.Time`, `[...T]`, `{[string]: T}`,
   implicit string enums, integer enums with the memberNames attribute, constants, unions, unions of definitions.
   Objects appear in FIRST-TOUCH order: GenerateAST walks the top-level definitions in file order and declares a
   referenced definition the moment a reference to it is met (declareReference -> declareObject).
   Integers with bounds: cog reads the kind back from the text CUE prints for the SIMPLIFIED value, so
     intN  with one bound        -> intN, the bound kept            (`int8 & >=5`      prints as  int8 & >=5)
     intN  with both bounds      -> int64, or uint64 when the lower bound is >=a / >a with a >= 0 (`uint & ...`)
     uintN with a lower bound    -> uintN                           (`uint8 & >=5`     prints as  uint8 & >=5)
     uintN with an upper bound   -> uint64                          (`uint8 & <=50`    prints as  uint & <=50)
     `>=0` is dropped wherever the printed text says `uint`/`uintN` (it is implied).
   NOT modelled (FUnmodelled, counted by the correspondence): integer bounds that pin a single value or are empty (CUE
   turns them into a constant), bounded float32, float bounds that pin a single value, nullable constants / any /
   unions of definitions / integer enums.  Definitions only. *)
From Coq Require Import List String ZArith Bool Ascii.
From Cog Require Import Model.IR Model.Json Model.GoSemBase Model.GoSemValidate Model.Src Model.FrontEnd.
Import ListNotations.
Local Open Scope list_scope.
Local Open Scope string_scope.

Definition cue_int_kind (w : string) : skind :=
  if seqb w "int8" then KInt8 else if seqb w "int16" then KInt16 else if seqb w "int32" then KInt32
  else if seqb w "int64" then KInt64 else if seqb w "uint8" then KUint8 else if seqb w "uint16" then KUint16
  else if seqb w "uint32" then KUint32 else KUint64.

Definition cue_lengths (mn mx : option Z) : list constraint :=
  opt_list mn (fun n => cstr "minLength" (DInt "int64" n)) ++ opt_list mx (fun n => cstr "maxLength" (DInt "int64" n)).

Definition cue_enum (vals : list json) : ty :=
  match vals with
  | JStr _ :: _ =>
      TEnum attrs0 (map (fun j => match j with JStr s => mkEnumVal t_string s (DStr s) | _ => mkEnumVal t_string "" DNil end) vals)
  | _ =>
      let names := map (fun j => match j with JNum m e => "N" ++ z_string (m * 10 ^ e) | _ => "" end) vals in
      TEnum {| nullable := false ; dflt := DNil ;
               hints := [("kind", DStr "enum"); ("memberNames", DStr (String.concat "|" names))] |}
            (map (fun j => match j with
                           | JNum m e => mkEnumVal t_int64 ("N" ++ z_string (m * 10 ^ e)) (DInt "int64" (m * 10 ^ e))
                           | _ => mkEnumVal t_int64 "" DNil end) vals)
  end.

(* bounded integers (see the header) *)
Definition is_unsigned (w : string) : bool := match w with String "u" _ => true | _ => false end.
Definition is_some {A} (o : option A) : bool := match o with Some _ => true | None => false end.
Definition cue_int (w : string) (ge gt le lt : option Z) : ty :=
  let has_lower := (is_some ge || is_some gt)%bool in
  let has_upper := (is_some le || is_some lt)%bool in
  let lower_nonneg := match ge, gt with Some a, _ => Z.leb 0 a | None, Some a => Z.leb 0 a | None, None => false end in
  let says_uint := if is_unsigned w then true else (has_lower && has_upper && lower_nonneg)%bool in
  let kind := if is_unsigned w then (if has_upper then KUint64 else cue_int_kind w)
              else if (has_lower && has_upper)%bool then (if lower_nonneg then KUint64 else KInt64)
              else cue_int_kind w in
  let c op := fun z : Z => cstr op (DInt "int64" z) in
  let lower := match ge with
               | Some a => if (says_uint && Z.eqb a 0)%bool then [] else [c ">=" a]
               | None => opt_list gt (c ">")
               end in
  TScalar attrs0 kind DNil (lower ++ opt_list le (c "<=") ++ opt_list lt (c "<")).
(* the bounds leave at least two integers *)
Definition cue_int_range_ok (ge gt le lt : option Z) : bool :=
  let lo := match ge, gt with Some a, _ => Some a | None, Some a => Some (a + 1)%Z | None, None => None end in
  let hi := match le, lt with Some b, _ => Some b | None, Some b => Some (b - 1)%Z | None, None => None end in
  (negb (is_some ge && is_some gt) && negb (is_some le && is_some lt) &&
   match lo, hi with Some a, Some b => Z.ltb a b | _, _ => true end)%bool.

Fixpoint cue_ty (pkg : string) (t : src_ty) {struct t} : ty :=
  match t with
  | SBool => t_bool
  | SInt w ge gt le lt => cue_int w ge gt le lt
  | SFloat w ge gt le lt =>
      TScalar attrs0 (if seqb w "float32" then KFloat32 else KFloat64) DNil (js_bounds ge gt le lt)
  | SString mn mx => TScalar attrs0 KString DNil (cue_lengths mn mx)
  | SDateTime => TScalar a_datetime KString DNil []
  | SAny => t_any
  | SConst v => js_const v
  | SEnum vals => cue_enum vals
  | SArray et => TArray attrs0 (cue_ty pkg et)
  | SMap vt => TMap attrs0 t_string (cue_ty pkg vt)
  | SRef n => TRef attrs0 pkg n
  | SStruct fs =>
      match fs with
      | [] => t_any
      | _ =>
          TStruct attrs0 []
            (map (fun f =>
                    let base := cue_ty pkg (sf_type f) in
                    let ft := if sf_null f then
                                match sf_type f, base with
                                | SUnion _, TDisj a d => TDisj a (mkDisj (d_branches d ++ [t_null]) (d_disc d) (d_mapping d))
                                | _, _ => mk_disj [base; t_null]
                                end
                              else base in
                    mkField (sf_name f) [] ft (sf_req f)) fs)
      end
  | SUnion bs => mk_disj (map (cue_ty pkg) bs)
  | SDUnion _ names => mk_disj (map (fun n => TRef attrs0 pkg n) names)
  end.

Definition no_bounds {A} (a b c d : option A) : bool :=
  match a, b, c, d with None, None, None, None => true | _, _, _, _ => false end.

Fixpoint cue_supported (t : src_ty) : bool :=
  match t with
  | SInt _ ge gt le lt => cue_int_range_ok ge gt le lt
  | SFloat w ge gt le lt =>
      ((no_bounds ge gt le lt || negb (seqb w "float32")) &&
       negb (match ge, le with Some a, Some b => num_eqb (fst a) (snd a) (fst b) (snd b) | _, _ => false end))%bool
  | SConst v => json_scalar_const v
  | SEnum vals => enum_ok vals
  | SArray et => cue_supported et
  | SMap vt => cue_supported vt
  | SStruct fs =>
      (str_nodup (map sf_name fs) &&
       forallb (fun f => (cue_supported (sf_type f) &&
                          negb (sf_null f && match sf_type f with SConst _ | SAny | SDUnion _ _ => true
                                                             | SEnum (JNum _ _ :: _) => true | _ => false end))%bool) fs)%bool
  | SUnion bs => (negb (match bs with [] => true | _ => false end) && forallb cue_supported bs)%bool
  | SDUnion _ names => negb (match names with [] => true | _ => false end)
  | _ => true
  end.

(* first-touch order of the definitions *)
Fixpoint cue_visit (defs : list (string * src_ty)) (fuel : nat) (todo seen : list string) : list string :=
  match fuel with
  | O => seen
  | S f =>
      match todo with
      | [] => seen
      | n :: r =>
          if str_in n seen then cue_visit defs f r seen
          else match src_lookup defs n with
               | Some t => cue_visit defs f (refs_of t ++ r) (seen ++ [n])
               | None => cue_visit defs f r seen
               end
      end
  end.
Definition cue_order (s : src_schema) : list string :=
  cue_visit (src_defs s) (S (List.length (src_defs s) + List.length (flat_map (fun d => refs_of (snd d)) (src_defs s)) +
                             List.length (src_defs s)))
            (map fst (src_defs s)) [].

Definition cue_schema_supported (s : src_schema) : bool :=
  (defs_closed (src_defs s) && forallb (fun d => cue_supported (snd d)) (src_defs s))%bool.

Definition parse_cue (s : src_schema) : fres schemas :=
  if negb (cue_schema_supported s) then FUnmodelled "schema outside the modelled CUE shapes" else
  let pkg := src_pkg s in
  let objs := flat_map (fun n => match src_lookup (src_defs s) n with
                                 | Some t => [(n, mkObject n [] (cue_ty pkg t) pkg n)]
                                 | None => [] end) (cue_order s) in
  FOk [mkSchema pkg meta0 "" (TBad attrs0 "") objs].

Definition fe_cue_unmodelled (c : src_schema * option schemas) : bool := fe_unmodelled (parse_cue (fst c)).
Definition fe_cue_mismatch (c : src_schema * option schemas) : bool :=
  (negb (fe_cue_unmodelled c) && negb (fe_agrees (parse_cue (fst c)) (snd c)))%bool.
