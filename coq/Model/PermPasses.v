(* C03: FieldsSetDefault.processObject (compiler/fields_set_default.go) as it is NOW: the keys of
   DefaultValues are collected (tools.Keys: map order = `seq`), sorted by (package, object, field),
   and applied in that order to every field; Model/Passes.v `fields_set_default_obj` (C15) is the
   loop over a given sequence. Definitions only. *)
From Cog Require Export Model.Passes Model.Perm.

Definition fsd_entry := (string * string * string * dyn)%type.
Definition fsd_sorted (seq : list fsd_entry) : list fsd_entry := isort (fun a b => leb3 (fst a) (fst b)) seq.
Definition FieldsSetDefault_processObject (seq : list fsd_entry) (o : object) : object :=
  fields_set_default_obj (fsd_sorted seq) o.
