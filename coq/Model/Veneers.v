(* Builder veneers: executable models of
     internal/yaml/veneers.go, builder.go, option.go      (loading: yaml-level rules -> rules)
     internal/veneers/builder/rules.go, selectors.go      (builder rules)
     internal/veneers/option/actions.go, rules.go, selectors.go (option rules)
     internal/veneers/types.go                            (veneers.Option / Assignment ... AsIR)
     internal/veneers/rewrite/rewrite.go                  (Rewriter.ApplyTo)
     internal/ast/builder.go                              (MakePath, DeepCopy, LocateBy...)
   Definitions only; every Gallina function is named after the Go function it mirrors.

   Aliasing.  The Go code copies options and assignments shallowly (mergeBuilderInto, compose,
   promote_options_to_constructor, add_option, add_assignment) and three option actions later
   WRITE through what the copies share: RenameArgumentsAction writes option.Args[i].Name (the
   backing array of Args) and Assignments[j].Value.Argument.Name (the pointee of a *Argument);
   ArrayToAppendAction and MapToIndexAction write Name and Type of the pointee of
   Assignments[0].Value.Argument.  These two kinds of cells therefore carry a LABEL in the model
   (`la_arg`, `lo_argsl`): a shallow copy keeps the label, DeepCopy and fresh construction allocate
   new ones, and a write is an `effect` that reaches every holder of the label in every builder.
   Go panics (index out of range, nil dereference) are `Panic`, errors are `Err`.

   Not modelled: VeneerTrail (debug text) and the Debug rules built on it; writes into the spare
   capacity of a slice shared between two holders (`append` on Constructor.Assignments,
   Constructor.Args, Properties, Comments, Assignments when the Go runtime left cap > len). *)
From Cog Require Export Model.BuildersEq Model.Names.
Local Open Scope string_scope.
Local Open Scope list_scope.

(* ---------------------------------------------------------------- small helpers *)
Fixpoint mapi_from {A B} (f : nat -> A -> B) (n : nat) (l : list A) : list B :=
  match l with [] => [] | x :: r => f n x :: mapi_from f (S n) r end.
Definition mapi {A B} (f : nat -> A -> B) := mapi_from f 0.

Fixpoint set_nth {A} (i : nat) (x : A) (l : list A) : list A :=
  match l, i with
  | [], _ => []
  | _ :: r, O => x :: r
  | y :: r, S j => y :: set_nth j x r
  end.

Definition item_in_list (s : string) (l : list string) : bool := existsb (fun x => seqb x s) l.          (* tools.ItemInList *)
Definition string_in_list_equal_fold (s : string) (l : list string) : bool := existsb (fun x => equal_fold x s) l. (* tools.StringInListEqualFold *)

(* strings.Cut(s, ".") *)
Fixpoint cut_dot (s : string) : option (string * string) :=
  match s with
  | EmptyString => None
  | String c r => if Ascii.eqb c "."%char then Some (EmptyString, r)
                  else match cut_dot r with Some (a, b) => Some (String c a, b) | None => None end
  end.
(* strings.Split(s, ".") *)
Fixpoint split_dots_acc (s cur : string) : list string :=
  match s with
  | EmptyString => [srev cur]
  | String c r => if Ascii.eqb c "."%char then srev cur :: split_dots_acc r EmptyString else split_dots_acc r (String c cur)
  end.
Definition split_dots (s : string) : list string := split_dots_acc s EmptyString.

(* tools.Singularize: `(?i)s$` -> `` ; the second rule (`ies$`) can never fire after the first *)
Definition singularize (s : string) : string :=
  match srev s with
  | String c r => if (Ascii.eqb c "s"%char || Ascii.eqb c "S"%char)%bool then srev r else s
  | EmptyString => s
  end.

(* ast.TypeName (internal/ast/tools.go) *)
Fixpoint type_name (t : ty) : string :=
  match t with
  | TRef _ _ n => upper_camel_case n
  | TScalar _ k _ _ => upper_camel_case (skind_name k)
  | TArray _ v => String.append "ArrayOf" (type_name v)
  | _ => upper_camel_case (kind_name t)
  end.

(* Schemas.ResolveToType on schema sets without alias cycles (apply_to rejects the others up
   front: the real FromAST already overflows the stack on them) *)
Definition resolve_total (ss : schemas) (t : ty) : ty :=
  match resolve_to_type (res_fuel ss) ss t with Ok r => r | _ => t end.
Definition aliases_acyclic (ss : schemas) : bool :=
  forallb (fun s => forallb (fun ko => match resolve_to_type (res_fuel ss) ss (o_type (snd ko)) with Ok _ => true | _ => false end)
                            (s_objects s)) ss.

(* Type.IsStructGeneratedFromDisjunction: Hints[disjunction_of_scalars] != nil || Hints[disjunction_of_refs] != nil *)
Definition hint_present (a : attrs) (dh : list (string * disj)) (k : string) : bool :=
  existsb (fun kd => seqb (fst kd) k) dh ||
  existsb (fun kv => seqb (fst kv) k && negb (dyn_is_nil (snd kv))) (hints a).
Definition is_struct_generated_from_disjunction (t : ty) : bool :=
  match t with
  | TStruct a dh _ => hint_present a dh "disjunction_of_scalars" || hint_present a dh "disjunction_of_refs"
  | _ => false
  end.

Definition is_bool_scalar (t : ty) : bool := match t with TScalar _ KBool _ _ => true | _ => false end.
Definition struct_fields (t : ty) : list field := match t with TStruct _ _ fs => fs | _ => [] end.
Definition field_by_name (fs : list field) (n : string) : option field := find (fun f => seqb (f_name f) n) fs.

(* ---------------------------------------------------------------- labelled builder IR *)
Definition label := list nat.
Definition label_eqb : label -> label -> bool := leqb Nat.eqb.

Record lassignment := mkLAsg
  { la_path : path ;
    la_arg : option (label * argument) ;            (* Value.Argument: the cell it points to, and its content *)
    la_const : dyn ; la_env : option (ty * list (path * avalue)) ;
    la_method : string ; la_constraints : list aconstraint ; la_nilchecks : list nilcheck }.
Record loption := mkLOpt
  { lo_name : string ; lo_comments : list string ;
    lo_argsl : label ;                               (* the backing array of Args *)
    lo_args : list argument ; lo_assignments : list lassignment ; lo_default : option (list dyn) }.
Record lconstructor := mkLCtor { lc_args : list argument ; lc_assignments : list lassignment }.
Record lbuilder := mkLB
  { lb_for : object ; lb_pkg : string ; lb_name : string ; lb_props : list field ;
    lb_ctor : lconstructor ; lb_options : list loption ; lb_factories : list factory }.

Definition erase_asg (a : lassignment) : assignment :=
  mkAssignment (la_path a) (AValue (option_map snd (la_arg a)) (la_const a) (la_env a)) (la_method a)
               (la_constraints a) (la_nilchecks a).
Definition erase_option (o : loption) : boption :=
  mkOption (lo_name o) (lo_comments o) (lo_args o) (map erase_asg (lo_assignments o)) (lo_default o).
Definition erase_ctor (c : lconstructor) : constructor := mkConstructor (lc_args c) (map erase_asg (lc_assignments c)).
Definition erase_builder (b : lbuilder) : builder :=
  mkBuilder (lb_for b) (lb_pkg b) (lb_name b) (lb_props b) (erase_ctor (lb_ctor b)) (map erase_option (lb_options b)) (lb_factories b).
Definition erase_builders := map erase_builder.

(* fresh cells for a value that shares nothing (what FromAST returns, and what DeepCopy returns) *)
Definition label_asg (l : label) (a : assignment) : lassignment :=
  match as_value a with
  | AValue arg c env => mkLAsg (as_path a) (option_map (fun x => (l, x)) arg) c env (as_method a) (as_constraints a) (as_nilchecks a)
  end.
Definition label_asgs (base : label) (l : list assignment) : list lassignment := mapi (fun j a => label_asg (base ++ [S j]) a) l.
Definition label_option (base : label) (o : boption) : loption :=
  mkLOpt (op_name o) (op_comments o) (base ++ [0]) (op_args o) (label_asgs base (op_assignments o)) (op_default o).
Definition label_builder (base : label) (b : builder) : lbuilder :=
  mkLB (b_for b) (b_pkg b) (b_name b) (b_props b)
       (mkLCtor (ct_args (b_ctor b)) (label_asgs (base ++ [0]) (ct_assignments (b_ctor b))))
       (mapi (fun k o => label_option (base ++ [S k]) o) (b_options b)) (b_factories b).
Definition label_builders (t : nat) (bs : list builder) : list lbuilder := mapi (fun i b => label_builder [t; i] b) bs.

(* Option.DeepCopy / Builder.DeepCopy: same value, no cell shared with the source *)
Definition option_deep_copy (base : label) (o : loption) : loption := label_option base (erase_option o).
Definition builder_deep_copy (base : label) (b : lbuilder) : lbuilder := label_builder base (erase_builder b).

Definition set_options (b : lbuilder) (os : list loption) : lbuilder :=
  mkLB (lb_for b) (lb_pkg b) (lb_name b) (lb_props b) (lb_ctor b) os (lb_factories b).
Definition set_name (b : lbuilder) (n : string) : lbuilder :=
  mkLB (lb_for b) (lb_pkg b) n (lb_props b) (lb_ctor b) (lb_options b) (lb_factories b).
Definition set_ctor (b : lbuilder) (c : lconstructor) : lbuilder :=
  mkLB (lb_for b) (lb_pkg b) (lb_name b) (lb_props b) c (lb_options b) (lb_factories b).
Definition set_props (b : lbuilder) (ps : list field) : lbuilder :=
  mkLB (lb_for b) (lb_pkg b) (lb_name b) ps (lb_ctor b) (lb_options b) (lb_factories b).
Definition set_factories (b : lbuilder) (fs : list factory) : lbuilder :=
  mkLB (lb_for b) (lb_pkg b) (lb_name b) (lb_props b) (lb_ctor b) (lb_options b) fs.
Definition set_oname (o : loption) (n : string) : loption :=
  mkLOpt n (lo_comments o) (lo_argsl o) (lo_args o) (lo_assignments o) (lo_default o).
Definition set_ocomments (o : loption) (cs : list string) : loption :=
  mkLOpt (lo_name o) cs (lo_argsl o) (lo_args o) (lo_assignments o) (lo_default o).
Definition set_oassignments (o : loption) (l : list lassignment) : loption :=
  mkLOpt (lo_name o) (lo_comments o) (lo_argsl o) (lo_args o) l (lo_default o).
Definition set_la_path (a : lassignment) (p : path) : lassignment :=
  mkLAsg p (la_arg a) (la_const a) (la_env a) (la_method a) (la_constraints a) (la_nilchecks a).
Definition set_la_arg (a : lassignment) (x : option (label * argument)) : lassignment :=
  mkLAsg (la_path a) x (la_const a) (la_env a) (la_method a) (la_constraints a) (la_nilchecks a).
Definition set_la_method (a : lassignment) (m : string) : lassignment :=
  mkLAsg (la_path a) (la_arg a) (la_const a) (la_env a) m (la_constraints a) (la_nilchecks a).

(* ---------------------------------------------------------------- writes through shared cells *)
Inductive effect :=
| ESetCell (l : label) (a : argument)            (* *Argument pointee: Name and Type *)
| ESetCellName (l : label) (n : string)           (* *Argument pointee: Name *)
| ESetArgName (l : label) (i : nat) (n : string). (* Args backing array: [i].Name *)

Definition set_arg_name (a : argument) (n : string) : argument := mkArg n (a_type a).
Fixpoint set_nth_name (i : nat) (n : string) (l : list argument) : list argument :=
  match l, i with
  | [], _ => []
  | a :: r, O => set_arg_name a n :: r
  | a :: r, S j => a :: set_nth_name j n r
  end.

Definition apply_effect_asg (e : effect) (a : lassignment) : lassignment :=
  match la_arg a with
  | Some (l, arg) =>
      match e with
      | ESetCell l' v => if label_eqb l l' then set_la_arg a (Some (l, v)) else a
      | ESetCellName l' n => if label_eqb l l' then set_la_arg a (Some (l, set_arg_name arg n)) else a
      | ESetArgName _ _ _ => a
      end
  | None => a
  end.
Definition apply_effect_opt (e : effect) (o : loption) : loption :=
  let args := match e with
              | ESetArgName l i n => if label_eqb (lo_argsl o) l then set_nth_name i n (lo_args o) else lo_args o
              | _ => lo_args o
              end in
  mkLOpt (lo_name o) (lo_comments o) (lo_argsl o) args (map (apply_effect_asg e) (lo_assignments o)) (lo_default o).
Definition apply_effect_builder (e : effect) (b : lbuilder) : lbuilder :=
  mkLB (lb_for b) (lb_pkg b) (lb_name b) (lb_props b)
       (mkLCtor (lc_args (lb_ctor b)) (map (apply_effect_asg e) (lc_assignments (lb_ctor b))))
       (map (apply_effect_opt e) (lb_options b)) (lb_factories b).
Definition apply_effects_opt (es : list effect) (o : loption) : loption := fold_left (fun o e => apply_effect_opt e o) es o.
Definition apply_effects_builder (es : list effect) (b : lbuilder) : lbuilder := fold_left (fun b e => apply_effect_builder e b) es b.

(* does the write reach this holder? *)
Definition effect_hits_asg (e : effect) (a : lassignment) : bool :=
  match la_arg a, e with
  | Some (l, _), ESetCell l' _ => label_eqb l l'
  | Some (l, _), ESetCellName l' _ => label_eqb l l'
  | _, _ => false
  end.
Definition effect_hits_opt (e : effect) (o : loption) : bool :=
  match e with ESetArgName l _ _ => label_eqb (lo_argsl o) l | _ => false end || existsb (effect_hits_asg e) (lo_assignments o).
Definition effect_hits_builder (e : effect) (b : lbuilder) : bool :=
  existsb (effect_hits_asg e) (lc_assignments (lb_ctor b)) || existsb (effect_hits_opt e) (lb_options b).

(* ---------------------------------------------------------------- rules *)
Inductive bselector :=
| BSByObject (pkg name : string) | BSByName (pkg name : string) | BSByVariant (v : string) | BSGenFromDisj.
Inductive oselector :=
| OSByName (pkg obj : string) (names : list string) | OSByBuilder (pkg bname : string) (names : list string).

(* internal/veneers/types.go *)
Inductive vvalue := VValue (arg : option argument) (const : dyn) (env : option (list (string * vvalue))).
Record vassignment := mkVAssignment { va_path : string ; va_method : string ; va_value : vvalue }.
Record voption := mkVOption
  { vo_name : string ; vo_comments : list string ; vo_args : list argument ; vo_assignments : list vassignment }.

(* internal/yaml/builder.go, option.go: the rule files as decoded *)
Record ybsel := mkYBSel
  { yb_by_object : option string ; yb_by_name : option string ; yb_by_variant : option string ; yb_gfd : option bool }.
Record ycompose := mkYCompose
  { yc_sel : ybsel ; yc_source : string ; yc_disc_field : string ; yc_exclude : list string ;
    yc_map : list (string * string) ; yc_name : string ; yc_preserve : bool }.
Inductive ybmember :=
| YBOmit (s : ybsel)
| YBRename (s : ybsel) (as_ : string)
| YBMergeInto (dest src under : string) (excl : list string) (ren : list (string * string))
| YBCompose (c : ycompose)
| YBProperties (s : ybsel) (set : list field)
| YBDuplicate (s : ybsel) (as_ : string) (excl : list string)
| YBInitialize (s : ybsel) (set : list (string * dyn))
| YBPromote (s : ybsel) (opts : list string)
| YBAddOption (s : ybsel) (o : voption)
| YBAddFactory (s : ybsel) (f : factory).
Definition ybrule := list ybmember.   (* the non-nil members of a BuilderRule, in declaration order *)

Record ybynames := mkYByNames { yn_object : string ; yn_builder : string ; yn_options : list string }.
Record yosel := mkYOSel { yo_by_name : option string ; yo_by_builder : option string ; yo_by_names : option ybynames }.
Inductive yomember :=
| YOOmit (s : yosel)
| YORename (s : yosel) (as_ : string)
| YORenameArguments (s : yosel) (as_ : list string)
| YOUnfoldBoolean (s : yosel) (true_as false_as : string)
| YOStructFieldsAsArguments (s : yosel) (fields : option (list string))
| YOStructFieldsAsOptions (s : yosel) (fields : option (list string))
| YOArrayToAppend (s : yosel)
| YOMapToIndex (s : yosel)
| YODisjunctionAsOptions (s : yosel) (idx : Z)
| YODuplicate (s : yosel) (as_ : string)
| YOAddAssignment (s : yosel) (a : vassignment)
| YOAddComments (s : yosel) (cs : list string).
Definition yorule := list yomember.

Record vfile := mkVFile { vf_language : string ; vf_package : string ; vf_builders : list ybrule ; vf_options : list yorule }.

(* what the loader turns them into *)
Inductive brule :=
| BROmit (s : bselector)
| BRRename (s : bselector) (n : string)
| BRMergeInto (s : bselector) (src under : string) (excl : list string) (ren : list (string * string))
| BRCompose (s : bselector) (c : ycompose)
| BRProperties (s : bselector) (ps : list field)
| BRDuplicate (s : bselector) (n : string) (excl : list string)
| BRInitialize (s : bselector) (set : list (string * dyn))
| BRPromote (s : bselector) (names : list string)
| BRAddOption (s : bselector) (o : voption)
| BRAddFactory (s : bselector) (f : factory).
Inductive oaction :=
| AOmit | ARename (n : string) | ARenameArguments (names : list string) | AUnfoldBoolean (t f : string)
| AStructFieldsAsArguments (fields : option (list string)) | AStructFieldsAsOptions (fields : option (list string))
| AArrayToAppend | AMapToIndex | ADisjunctionAsOptions (idx : Z) | ADuplicate (n : string)
| AAddAssignment (a : vassignment) | AAddComments (cs : list string).
Record orule := mkORule { or_sel : oselector ; or_action : oaction }.

(* BuilderSelector.AsSelector / OptionSelector.AsSelector *)
Definition bsel_as_selector (pkg : string) (s : ybsel) : res bselector :=
  match yb_by_object s, yb_by_name s, yb_by_variant s, yb_gfd s with
  | Some n, _, _, _ => Ok (BSByObject pkg n)
  | None, Some n, _, _ => Ok (BSByName pkg n)
  | None, None, Some v, _ => Ok (BSByVariant v)
  | None, None, None, Some _ => Ok BSGenFromDisj
  | None, None, None, None => Err "empty selector"
  end.
Definition osel_as_selector (pkg : string) (s : yosel) : res oselector :=
  match yo_by_name s, yo_by_builder s, yo_by_names s with
  | Some n, _, _ => match cut_dot n with Some (obj, opt) => Ok (OSByName pkg obj [opt]) | None => Err "no object name" end
  | None, Some n, _ => match cut_dot n with Some (bn, opt) => Ok (OSByBuilder pkg bn [opt]) | None => Err "no builder name" end
  | None, None, Some y =>
      if seqb (yn_object y) "" && seqb (yn_builder y) "" then Err "object or builder is required"
      else if negb (seqb (yn_builder y) "") then Ok (OSByBuilder pkg (yn_builder y) (yn_options y))
      else Ok (OSByName pkg (yn_object y) (yn_options y))
  | None, None, None => Err "empty or unknown selector"
  end.

(* BuilderRule.AsRewriteRule / OptionRule.AsRewriteRule: the first non-nil member decides *)
Definition brule_as_rewrite_rule (pkg : string) (r : ybrule) : res brule :=
  match r with
  | [] => Err "empty rule"
  | YBOmit s :: _ => do x <- bsel_as_selector pkg s ; Ok (BROmit x)
  | YBRename s n :: _ => do x <- bsel_as_selector pkg s ; Ok (BRRename x n)
  | YBMergeInto d src u e rn :: _ => Ok (BRMergeInto (BSByName pkg d) src u e rn)
  | YBCompose c :: _ => do x <- bsel_as_selector pkg (yc_sel c) ; Ok (BRCompose x c)
  | YBProperties s ps :: _ => do x <- bsel_as_selector pkg s ; Ok (BRProperties x ps)
  | YBDuplicate s n e :: _ => do x <- bsel_as_selector pkg s ; Ok (BRDuplicate x n e)
  | YBInitialize s st :: _ => do x <- bsel_as_selector pkg s ; Ok (BRInitialize x st)
  | YBPromote s ns :: _ => do x <- bsel_as_selector pkg s ; Ok (BRPromote x ns)
  | YBAddOption s o :: _ => do x <- bsel_as_selector pkg s ; Ok (BRAddOption x o)
  | YBAddFactory s f :: _ => do x <- bsel_as_selector pkg s ; Ok (BRAddFactory x f)
  end.
Definition orule_as_rewrite_rule (pkg : string) (r : yorule) : res orule :=
  match r with
  | [] => Err "empty rule"
  | YOOmit s :: _ => do x <- osel_as_selector pkg s ; Ok (mkORule x AOmit)
  | YORename s n :: _ => do x <- osel_as_selector pkg s ; Ok (mkORule x (ARename n))
  | YORenameArguments s ns :: _ => do x <- osel_as_selector pkg s ; Ok (mkORule x (ARenameArguments ns))
  | YOUnfoldBoolean s t f :: _ => do x <- osel_as_selector pkg s ; Ok (mkORule x (AUnfoldBoolean t f))
  | YOStructFieldsAsArguments s fs :: _ => do x <- osel_as_selector pkg s ; Ok (mkORule x (AStructFieldsAsArguments fs))
  | YOStructFieldsAsOptions s fs :: _ => do x <- osel_as_selector pkg s ; Ok (mkORule x (AStructFieldsAsOptions fs))
  | YOArrayToAppend s :: _ => do x <- osel_as_selector pkg s ; Ok (mkORule x AArrayToAppend)
  | YOMapToIndex s :: _ => do x <- osel_as_selector pkg s ; Ok (mkORule x AMapToIndex)
  | YODisjunctionAsOptions s i :: _ => do x <- osel_as_selector pkg s ; Ok (mkORule x (ADisjunctionAsOptions i))
  | YODuplicate s n :: _ => do x <- osel_as_selector pkg s ; Ok (mkORule x (ADuplicate n))
  | YOAddAssignment s a :: _ => do x <- osel_as_selector pkg s ; Ok (mkORule x (AAddAssignment a))
  | YOAddComments s cs :: _ => do x <- osel_as_selector pkg s ; Ok (mkORule x (AAddComments cs))
  end.

(* VeneersLoader.load, one file: rewrite.LanguageRules *)
Record language_rules := mkLR { lr_language : string ; lr_builder_rules : list brule ; lr_option_rules : list orule }.
Definition load_file (f : vfile) : res language_rules :=
  if seqb (vf_package f) "" then Err "missing package statement"
  else do brs <- mapM (brule_as_rewrite_rule (vf_package f)) (vf_builders f) ;
       do ors <- mapM (orule_as_rewrite_rule (vf_package f)) (vf_options f) ;
       Ok (mkLR (vf_language f) brs ors).
(* VeneersLoader.RewriterFrom + rewrite.NewRewrite: rules grouped by language, in file order *)
Definition rewriter_from (files : list vfile) : res (list language_rules) := mapM load_file files.
Definition builder_rules_for (l : string) (lrs : list language_rules) : list brule :=
  flat_map (fun lr => if seqb (lr_language lr) l then lr_builder_rules lr else []) lrs.
Definition option_rules_for (l : string) (lrs : list language_rules) : list orule :=
  flat_map (fun lr => if seqb (lr_language lr) l then lr_option_rules lr else []) lrs.

(* ---------------------------------------------------------------- selectors *)
Definition sel_builder (ss : schemas) (s : bselector) (b : lbuilder) : bool :=
  match s with
  | BSByObject pkg n => equal_fold (o_selfpkg (lb_for b)) pkg && equal_fold (o_selfname (lb_for b)) n
  | BSByName pkg n => equal_fold (o_selfpkg (lb_for b)) pkg && equal_fold (lb_name b) n
  | BSByVariant v =>
      match locate ss (o_selfpkg (lb_for b)) with
      | None => false
      | Some s => seqb (m_kind (s_meta s)) "composable" && seqb (m_variant (s_meta s)) v && negb (seqb (m_identifier (s_meta s)) "")
      end
  | BSGenFromDisj => is_struct_generated_from_disjunction (resolve_total ss (o_type (lb_for b)))
  end.
Definition sel_option (s : oselector) (b : lbuilder) (o : loption) : bool :=
  match s with
  | OSByName pkg obj names => seqb (o_selfpkg (lb_for b)) pkg && equal_fold (o_name (lb_for b)) obj && string_in_list_equal_fold (lo_name o) names
  | OSByBuilder pkg bn names => seqb (lb_pkg b) pkg && equal_fold (lb_name b) bn && string_in_list_equal_fold (lo_name o) names
  end.

(* ---------------------------------------------------------------- ast/builder.go helpers *)
Definition locate_by_object (bs : list lbuilder) (pkg name : string) : option lbuilder :=
  find (fun b => seqb (o_selfpkg (lb_for b)) pkg && seqb (o_selfname (lb_for b)) name) bs.
Definition locate_by_name (bs : list lbuilder) (pkg name : string) : option lbuilder :=
  find (fun b => seqb (o_selfpkg (lb_for b)) pkg && seqb (lb_name b) name) bs.
Definition option_by_name (b : lbuilder) (n : string) : option loption := find (fun o => equal_fold (lo_name o) n) (lb_options b).

Definition path_from_struct_field (f : field) : path := [mkPathItem (f_name f) None (f_type f) None false].

(* Builder.MakePath *)
Fixpoint make_path_go (bs : list lbuilder) (cur : ty) (parts : list string) (acc : path) : res path :=
  match parts with
  | [] => Ok acc
  | part :: rest =>
      do cur1 <- match cur with
                 | TRef _ p n => match locate_by_object bs p n with
                                 | Some rb => Ok (o_type (lb_for rb))
                                 | None => Err "reference could not be resolved"
                                 end
                 | _ => Ok cur
                 end ;
      match cur1 with
      | TStruct _ _ fs =>
          match field_by_name fs part with
          | Some f => make_path_go bs (f_type f) rest (acc ++ [mkPathItem part None (f_type f) None false])
          | None => Err "field not found"
          end
      | _ => Err "not a struct or a ref"
      end
  end.
Definition make_path (bs : list lbuilder) (b : lbuilder) (s : string) : res path :=
  if seqb s "" then Err "can not make path from empty input"
  else make_path_go bs (o_type (lb_for b)) (split_dots s) [].

Definition last_item (p : path) : option pathitem := last (map Some p) None.
Definition set_last_typehint (p : path) (h : ty) : path :=
  match rev p with
  | [] => []
  | it :: r => rev r ++ [mkPathItem (pi_id it) (pi_index it) (pi_type it) (Some h) (pi_root it)]
  end.

(* ast.ConstantAssignment / ArgumentAssignment / WithTypeConstraints / FieldAssignment *)
Definition constant_lasg (p : path) (v : dyn) : lassignment := mkLAsg p None v None "direct" [] [].
Definition with_type_constraints (arg : argument) (cs : list constraint) : res (list aconstraint) :=
  mapM (fun c => match c_args c with
                 | [] => Panic "index out of range [0] with length 0"
                 | x :: _ => Ok (mkAConstraint arg (c_op c) x)
                 end) cs.

(* ---------------------------------------------------------------- veneers/types.go: AsIR *)
Definition envelope_type_of (t : ty) : ty :=
  let t1 := match t with TArray _ v => v | _ => t end in
  match t1 with TMap _ _ v => v | _ => t1 end.

(* AssignmentValue.AsIR; the top-level Argument is the rule's own *Argument (label given by the caller) *)
Fixpoint vvalue_as_ir (ss : schemas) (p : path) (v : vvalue) : res avalue :=
  match v with
  | VValue (Some a) _ _ => Ok (AValue (Some a) DNil None)
  | VValue None c env =>
      if negb (dyn_is_nil c) then Ok (AValue None c None)
      else match env with
           | None => Err "empty assignment value"
           | Some vals =>
               match last_item p with
               | None => Panic "index out of range [-1]"
               | Some it =>
                   let et := envelope_type_of (pi_type it) in
                   do vs <- (fix go (l : list (string * vvalue)) : res (list (path * avalue)) :=
                               match l with
                               | [] => Ok []
                               | (fname, fv) :: r =>
                                   match resolve_total ss et with
                                   | TStruct _ _ fs =>
                                       match field_by_name fs fname with
                                       | None => Err "envelope field not found"
                                       | Some f =>
                                           do x <- vvalue_as_ir ss (path_from_struct_field f) fv ;
                                           do xs <- go r ;
                                           Ok ((path_from_struct_field f, x) :: xs)
                                       end
                                   | _ => Panic "invalid memory address or nil pointer dereference"
                                   end
                               end) vals ;
                   Ok (AValue None DNil (Some (et, vs)))
               end
           end
  end.

(* Assignment.AsIR *)
Definition vassignment_as_ir (ss : schemas) (bs : list lbuilder) (root : lbuilder) (cell : label) (a : vassignment) : res lassignment :=
  do p <- make_path bs root (va_path a) ;
  do v <- vvalue_as_ir ss p (va_value a) ;
  match v with
  | AValue arg c env => Ok (mkLAsg p (option_map (fun x => (cell, x)) arg) c env (va_method a) [] [])
  end.

(* Option.AsIR: Args is the rule's own slice, every assignment's argument the rule's own pointer *)
Definition voption_as_ir (ss : schemas) (bs : list lbuilder) (root : lbuilder) (base : label) (o : voption) : res loption :=
  do asgs <- mapM (fun ja => vassignment_as_ir ss bs root (base ++ [S (fst ja)]) (snd ja))
                  (mapi (fun j a => (j, a)) (vo_assignments o)) ;
  Ok (mkLOpt (vo_name o) (vo_comments o) (base ++ [0]) (vo_args o) asgs None).

(* ---------------------------------------------------------------- builder rules (builder/rules.go) *)
Definition prefix_path (under : path) (a : lassignment) : lassignment := set_la_path a (under ++ la_path a).

(* mergeBuilderInto: options and constant assignments are copied shallowly (labels kept) *)
Definition merge_builder_into (from into : lbuilder) (under : path) (exclude : list string) (renames : list (string * string)) : lbuilder :=
  let consts := filter (fun a => negb (dyn_is_nil (la_const a))) (lc_assignments (lb_ctor from)) in
  let opts := flat_map (fun o =>
                if item_in_list (lo_name o) exclude then []
                else [mkLOpt (match alist_find renames (lo_name o) with Some n => n | None => lo_name o end)
                             (lo_comments o) (lo_argsl o) (lo_args o) (map (prefix_path under) (lo_assignments o)) (lo_default o)])
              (lb_options from) in
  mkLB (lb_for into) (lb_pkg into) (lb_name into) (lb_props into)
       (mkLCtor (lc_args (lb_ctor into)) (lc_assignments (lb_ctor into) ++ map (prefix_path under) consts))
       (lb_options into ++ opts) (lb_factories into ++ lb_factories from).

(* mapToSelected: in place, in order; a later builder sees what was done to an earlier one *)
Fixpoint map_to_selected_go (sel : lbuilder -> bool) (f : list lbuilder -> lbuilder -> res lbuilder)
                            (todo i : nat) (bs : list lbuilder) : res (list lbuilder) :=
  match todo with
  | O => Ok bs
  | S t =>
      match nth_error bs i with
      | None => Ok bs
      | Some b => if sel b then do nb <- f bs b ; map_to_selected_go sel f t (S i) (set_nth i nb bs)
                  else map_to_selected_go sel f t (S i) bs
      end
  end.
Definition map_to_selected sel f (bs : list lbuilder) : res (list lbuilder) := map_to_selected_go sel f (List.length bs) 0 bs.

Definition omit_rule (ss : schemas) (s : bselector) (bs : list lbuilder) : list lbuilder :=
  filter (fun b => negb (sel_builder ss s b)) bs.

Definition rename_rule (ss : schemas) (s : bselector) (n : string) (bs : list lbuilder) : list lbuilder :=
  map (fun b => if sel_builder ss s b then set_name b n else b) bs.

Definition merge_into_rule (ss : schemas) (s : bselector) (src under : string) (excl : list string) (ren : list (string * string))
                           (bs : list lbuilder) : res (list lbuilder) :=
  map_to_selected (sel_builder ss s)
    (fun cur dest =>
       match locate_by_name cur (o_selfpkg (lb_for dest)) src with
       | None => Ok dest
       | Some source => do root <- make_path cur dest under ; Ok (merge_builder_into source dest root excl ren)
       end) bs.

Definition properties_rule (ss : schemas) (s : bselector) (ps : list field) (bs : list lbuilder) : list lbuilder :=
  map (fun b => if sel_builder ss s b then set_props b (lb_props b ++ ps) else b) bs.

(* Duplicate: deep copies (fresh cells) appended after all the builders *)
Definition duplicate_rule (ss : schemas) (t : nat) (s : bselector) (n : string) (excl : list string) (bs : list lbuilder) : list lbuilder :=
  bs ++ flat_map (fun ib =>
          if sel_builder ss s (snd ib) then
            let d := set_name (builder_deep_copy [t; fst ib] (snd ib)) n in
            [match excl with
             | [] => d
             | _ => set_options d (filter (fun o => negb (string_in_list_equal_fold (lo_name o) excl)) (lb_options d))
             end]
          else []) (mapi (fun i b => (i, b)) bs).

Definition initialize_builder (bs : list lbuilder) (set : list (string * dyn)) (b : lbuilder) : res lbuilder :=
  do asgs <- mapM (fun pv => do p <- make_path bs b (fst pv) ; Ok (constant_lasg p (snd pv))) set ;
  Ok (set_ctor b (mkLCtor (lc_args (lb_ctor b)) (lc_assignments (lb_ctor b) ++ asgs))).
Definition initialize_rule (ss : schemas) (s : bselector) (set : list (string * dyn)) (bs : list lbuilder) : res (list lbuilder) :=
  mapM (fun b => if sel_builder ss s b then initialize_builder bs set b else Ok b) bs.

(* PromoteOptionsToConstructor: the constructor receives a copy of Args[0] (not nullable) and the
   option's first assignment itself (same *Argument as the option keeps) *)
Fixpoint promote_options (b : lbuilder) (names : list string) (c : lconstructor) : res lconstructor :=
  match names with
  | [] => Ok c
  | n :: rest =>
      match option_by_name b n with
      | None => promote_options b rest c
      | Some o =>
          match lo_args o, lo_assignments o with
          | [], _ => Panic "index out of range [0] with length 0"
          | _ :: _, [] => Panic "index out of range [0] with length 0"
          | a :: _, asg :: _ =>
              promote_options b rest (mkLCtor (lc_args c ++ [mkArg (a_name a) (set_nullable (a_type a) false)]) (lc_assignments c ++ [asg]))
          end
      end
  end.
Definition promote_rule (ss : schemas) (s : bselector) (names : list string) (bs : list lbuilder) : res (list lbuilder) :=
  mapM (fun b => if sel_builder ss s b then
                   match lb_factories b with
                   | _ :: _ => Err "constructor arguments can not be added to builders that have factories"
                   | [] => do c <- promote_options b names (lb_ctor b) ; Ok (set_ctor b c)
                   end
                 else Ok b) bs.

Definition add_option_rule (ss : schemas) (t : nat) (s : bselector) (o : voption) (bs : list lbuilder) : res (list lbuilder) :=
  mapM (fun b => if sel_builder ss s b then do no <- voption_as_ir ss bs b [t] o ; Ok (set_options b (lb_options b ++ [no])) else Ok b) bs.

Definition add_factory_rule (ss : schemas) (s : bselector) (f : factory) (bs : list lbuilder) : res (list lbuilder) :=
  mapM (fun b => if sel_builder ss s b then
                   match lc_args (lb_ctor b) with
                   | _ :: _ => Err "builder factories can not be defined on builders that accept parameters in their constructor"
                   | [] => Ok (set_factories b (lb_factories b ++ [f]))
                   end
                 else Ok b) bs.

(* composeBuilderForType *)
Definition entrypoint_options (base : label) (root : path) (ept : ty) (resolved : ty) : option (list loption) :=
  if is_struct_generated_from_disjunction resolved then
    Some (mapi (fun n f =>
            let arg := mkArg (f_name f) (f_type f) in
            mkLOpt (f_name f) [] (base ++ [n; 0]) [arg]
                   [mkLAsg (set_last_typehint root ept ++ path_from_struct_field f) (Some (base ++ [n; 1], arg)) DNil None "direct" [] []] None)
          (struct_fields resolved))
  else match resolved with
       | TDisj _ d =>
           Some (mapi (fun n br =>
                   let arg := mkArg (type_name br) br in
                   mkLOpt (type_name br) [] (base ++ [n; 0]) [arg]
                          [mkLAsg (set_last_typehint root ept) (Some (base ++ [n; 1], arg)) DNil None "direct" [] []] None)
                 (d_branches d))
       | _ => None
       end.

Fixpoint compose_merge (all : list lbuilder) (c : ycompose) (nb : lbuilder) (composables : list lbuilder) (kept : list lbuilder)
  : res (lbuilder * list lbuilder) :=
  match composables with
  | [] => Ok (nb, kept)
  | cb :: rest =>
      match alist_find (yc_map c) (o_name (lb_for cb)) with
      | None => compose_merge all c nb rest (kept ++ [cb])
      | Some under =>
          do root <- make_path all nb under ;
          let root' := set_last_typehint root (TRef A0 (o_selfpkg (lb_for cb)) (o_selfname (lb_for cb))) in
          compose_merge all c (merge_builder_into cb nb root' [] []) rest (if yc_preserve c then kept ++ [cb] else kept)
      end
  end.

Definition compose_builder_for_type (ss : schemas) (all : list lbuilder) (base : label) (c : ycompose) (disc : string)
                                    (source : lbuilder) (composables : list lbuilder) : res (list lbuilder) :=
  match composables with
  | [] => Panic "index out of range [0] with length 0"
  | c0 :: _ =>
      match o_type (lb_for source) with
      | TStruct _ _ fs =>
          match field_by_name fs (yc_disc_field c) with
          | None => Err "could not find plugin discriminator field"
          | Some tf =>
              let nb0 := mkLB (lb_for source) (lb_pkg c0)
                              (if seqb (yc_name c) "" then o_name (lb_for source) else yc_name c)
                              (lb_props source)
                              (mkLCtor (lc_args (lb_ctor source))
                                       (lc_assignments (lb_ctor source) ++ [constant_lasg (path_from_struct_field tf) (DStr disc)]))
                              (filter (fun o => negb (seqb (lo_name o) (yc_disc_field c)) &&
                                                negb (string_in_list_equal_fold (lo_name o) (yc_exclude c)))
                                      (lb_options source))
                              [] in
              do mk <- compose_merge all c nb0 composables [] ;
              let '(nb1, kept) := mk in
              match alist_find (yc_map c) "__schema_entrypoint" with
              | None => Ok (kept ++ [nb1])
              | Some ep =>
                  if seqb ep "" then Ok (kept ++ [nb1]) else
                  match locate ss (lb_pkg c0) with
                  | None => Panic "invalid memory address or nil pointer dereference"
                  | Some sch =>
                      if seqb (s_entry sch) "" then Err "schema does not have an entrypoint" else
                      do root <- make_path all nb1 ep ;
                      let resolved := resolve_total ss (s_entrytype sch) in
                      match entrypoint_options base root (s_entrytype sch) resolved with
                      | Some opts => Ok (kept ++ [set_options nb1 (lb_options nb1 ++ opts)])
                      | None =>
                          if is_struct resolved then
                            match locate_by_object composables (s_pkg sch) (s_entry sch) with
                            | None => Err "builder for schema entrypoint not found"
                            | Some eb =>
                                let root' := set_last_typehint root (TRef A0 (o_selfpkg (lb_for eb)) (o_selfname (lb_for eb))) in
                                Ok (kept ++ [merge_builder_into eb nb1 root' [] []])
                            end
                          else Err "entrypoint: not implemented"
                      end
                  end
              end
          end
      | _ => Panic "invalid memory address or nil pointer dereference"
      end
  end.

(* grouping by schema identifier; Go ranges over a map here: the order of the groups in the
   result is not determined by the code (the model takes first-occurrence order) *)
Fixpoint group_add (k : string) (b : lbuilder) (g : list (string * list lbuilder)) : list (string * list lbuilder) :=
  match g with
  | [] => [(k, [b])]
  | (k', l) :: r => if seqb k' k then (k', l ++ [b]) :: r else (k', l) :: group_add k b r
  end.

Definition compose_rule (ss : schemas) (t : nat) (s : bselector) (c : ycompose) (bs : list lbuilder) : res (list lbuilder) :=
  match cut_dot (yc_source c) with
  | None => Err "SourceBuilderName is incorrect: no package found"
  | Some (spkg, sname) =>
      match locate_by_object bs spkg sname with
      | None => Ok bs
      | Some source =>
          let unselected := filter (fun b => negb (sel_builder ss s b)) bs in
          let groups := fold_left (fun g b =>
                          if sel_builder ss s b then
                            match locate ss (o_selfpkg (lb_for b)) with
                            | None => g
                            | Some sch => group_add (m_identifier (s_meta sch)) b g
                            end
                          else g) bs [] in
          do composed <- mapM (fun ig => compose_builder_for_type ss bs [t; fst ig] c (fst (snd ig)) source (snd (snd ig)))
                              (mapi (fun i g => (i, g)) groups) ;
          Ok (unselected ++ List.concat composed)
      end
  end.

Definition apply_builder_rule (ss : schemas) (t : nat) (r : brule) (bs : list lbuilder) : res (list lbuilder) :=
  match r with
  | BROmit s => Ok (omit_rule ss s bs)
  | BRRename s n => Ok (rename_rule ss s n bs)
  | BRMergeInto s src under excl ren => merge_into_rule ss s src under excl ren bs
  | BRCompose s c => compose_rule ss t s c bs
  | BRProperties s ps => Ok (properties_rule ss s ps bs)
  | BRDuplicate s n excl => Ok (duplicate_rule ss t s n excl bs)
  | BRInitialize s set => initialize_rule ss s set bs
  | BRPromote s names => promote_rule ss s names bs
  | BRAddOption s o => add_option_rule ss t s o bs
  | BRAddFactory s f => add_factory_rule ss s f bs
  end.

(* ---------------------------------------------------------------- option actions (option/actions.go) *)
Definition action_result := (list loption * list effect)%type.

Definition rename_action (n : string) (o : loption) : action_result := ([set_oname o n], []).

(* RenameArgumentsAction: both loops in Go order; every write is by cell *)
Fixpoint rename_arguments_go (argsl : label) (i : nat) (todo : list (argument * string))
                             (args : list argument) (asgs : list lassignment) (effs : list effect)
  : list argument * list lassignment * list effect :=
  match todo with
  | [] => (args, asgs, effs)
  | (a, n) :: rest =>
      let prev := a_name a in
      let args1 := set_nth_name i n args in
      let '(asgs1, effs1) :=
        fold_left (fun (acc : list lassignment * list effect) (j : nat) =>
                     let '(cur, es) := acc in
                     match nth_error cur j with
                     | Some asg =>
                         match la_arg asg with
                         | Some (l, x) => if seqb (a_name x) prev
                                          then (map (apply_effect_asg (ESetCellName l n)) cur, es ++ [ESetCellName l n])
                                          else (cur, es)
                         | None => (cur, es)
                         end
                     | None => (cur, es)
                     end)
                  (seq 0 (List.length asgs)) (asgs, effs ++ [ESetArgName argsl i n]) in
      rename_arguments_go argsl (S i) rest args1 asgs1 effs1
  end.
Definition rename_arguments_action (names : list string) (o : loption) : action_result :=
  if negb (Nat.eqb (List.length names) (List.length (lo_args o))) then ([o], [])
  else let '(args, asgs, effs) := rename_arguments_go (lo_argsl o) 0 (combine (lo_args o) names) (lo_args o) (lo_assignments o) [] in
       ([mkLOpt (lo_name o) (lo_comments o) (lo_argsl o) args asgs (lo_default o)], effs).

(* ArrayToAppendAction *)
Definition array_to_append_action (base : label) (o : loption) : res action_result :=
  match lo_args o with
  | [a] =>
      match a_type a with
      | TArray _ v =>
          match lo_assignments o with
          | [] => Panic "index out of range [0] with length 0"
          | first :: rest =>
              let na := mkArg (singularize (a_name a)) v in
              let effs := match la_arg first with Some (l, _) => [ESetCell l na] | None => [] end in
              let first' := set_la_method (match la_arg first with Some (l, _) => set_la_arg first (Some (l, na)) | None => first end) "append" in
              let rest' := map (fun x => fold_left (fun y e => apply_effect_asg e y) effs x) rest in
              Ok ([mkLOpt (lo_name o) (lo_comments o) (base ++ [0]) [na] (first' :: rest') (lo_default o)], effs)
          end
      | _ => Ok ([o], [])
      end
  | _ => Ok ([o], [])
  end.

(* MapToIndexAction *)
Definition map_to_index_action (base : label) (o : loption) : res action_result :=
  match lo_args o with
  | [a] =>
      match a_type a with
      | TMap _ it vt =>
          match lo_assignments o with
          | [] => Panic "index out of range [0] with length 0"
          | first :: rest =>
              let ka := mkArg "key" it in
              let va := mkArg (singularize (a_name a)) vt in
              let effs := match la_arg first with Some (l, _) => [ESetCell l va] | None => [] end in
              let first1 := match la_arg first with Some (l, _) => set_la_arg first (Some (l, va)) | None => first end in
              let first' := set_la_method (set_la_path first1 (la_path first ++ [mkPathItem "" (Some (mkPathIndex (Some ka) DNil)) vt None false])) "index" in
              let rest' := map (fun x => fold_left (fun y e => apply_effect_asg e y) effs x) rest in
              Ok ([mkLOpt (lo_name o) (lo_comments o) (base ++ [0]) [ka; va] (first' :: rest') (lo_default o)], effs)
          end
      | _ => Ok ([o], [])
      end
  | _ => Ok ([o], [])
  end.

(* the struct the first argument stands for (one level of reference only: LocateObject, not ResolveToType) *)
Definition first_arg_struct (ss : schemas) (t : ty) : ty :=
  match t with
  | TRef _ p n => match locate_object ss p n with Some ob => o_type ob | None => t end
  | _ => t
  end.
Definition field_selected (explicit : option (list string)) (f : field) : bool :=
  match explicit with None => true | Some l => item_in_list (f_name f) l end.
Definition dmap_entries (d : option (list dyn)) : list (string * dyn) :=
  match d with Some [DMap l] => l | _ => [] end.

(* StructFieldsAsArgumentsAction *)
Record sfa_acc := mkSfa { sa_args : list argument ; sa_asgs : list lassignment ; sa_env : list (path * avalue) ; sa_defs : list dyn }.
Definition sfa_field (base : label) (prefix : path) (into_list : bool) (method : string) (defaults : list (string * dyn))
                     (acc : sfa_acc) (nf : nat * field) : res sfa_acc :=
  let '(n, f) := nf in
  let ft := match alist_find defaults (f_name f) with Some d => set_default (f_type f) d | None => f_type f end in
  let arg := mkArg (f_name f) ft in
  let is_const := is_concrete_scalar ft in
  let item := mkPathItem (f_name f) None ft None false in
  let args' := if is_const then sa_args acc else sa_args acc ++ [arg] in
  let defs' := match alist_find defaults (f_name f) with
               | Some d => if dyn_is_nil d then sa_defs acc else sa_defs acc ++ [d]
               | None => sa_defs acc
               end in
  if into_list then
    let v := if is_const then AValue None (match ft with TScalar _ _ x _ => x | _ => DNil end) None else AValue (Some arg) DNil None in
    Ok (mkSfa args' (sa_asgs acc) (sa_env acc ++ [([item], v)]) defs')
  else if is_const then
    Ok (mkSfa args' (sa_asgs acc ++ [constant_lasg (prefix ++ [item]) (match ft with TScalar _ _ x _ => x | _ => DNil end)]) (sa_env acc) defs')
  else
    do cs <- with_type_constraints arg (scalar_constraints (f_type f)) ;
    Ok (mkSfa args' (sa_asgs acc ++ [mkLAsg (prefix ++ [item]) (Some (base ++ [S n], arg)) DNil None method cs []]) (sa_env acc) defs').

Fixpoint foldM {A B} (f : A -> B -> res A) (l : list B) (a : A) : res A :=
  match l with [] => Ok a | x :: r => do a' <- f a x ; foldM f r a' end.

Definition struct_fields_as_arguments_action (ss : schemas) (base : label) (explicit : option (list string)) (o : loption) : res action_result :=
  match lo_args o with
  | [] => Ok ([o], [])
  | a0 :: other_args =>
      match first_arg_struct ss (a_type a0) with
      | TStruct _ _ fs =>
          match lo_assignments o with
          | [] => Panic "index out of range [0] with length 0"
          | first :: other_asgs =>
              match last_item (la_path first) with
              | None => Panic "index out of range [-1]"
              | Some lastit =>
                  let into_list := is_array (pi_type lastit) in
                  let defaults := dmap_entries (lo_default o) in
                  do acc <- foldM (sfa_field base (la_path first) into_list (la_method first) defaults)
                                  (filter (fun nf => field_selected explicit (snd nf)) (mapi (fun n f => (n, f)) fs))
                                  (mkSfa [] [] [] []) ;
                  let asgs := if into_list
                              then [mkLAsg (la_path first) None DNil
                                           (Some (match pi_type lastit with TArray _ v => v | t => t end, sa_env acc)) "append" [] []]
                              else sa_asgs acc in
                  let dflt := match sa_defs acc with [] => None | l => Some l end in
                  Ok ([mkLOpt (lo_name o) (lo_comments o) (base ++ [0])
                              (match other_args with [] => sa_args acc | _ => sa_args acc ++ other_args end)
                              (match other_args with [] => asgs | _ => asgs ++ other_asgs end) dflt], [])
              end
          end
      | _ => Ok ([o], [])
      end
  end.

(* StructFieldsAsOptionsAction *)
Definition struct_fields_as_options_action (ss : schemas) (base : label) (explicit : option (list string)) (o : loption) : res action_result :=
  match lo_args o with
  | [] => Ok ([o], [])
  | a0 :: _ =>
      match first_arg_struct ss (a_type a0) with
      | TStruct _ _ fs =>
          match lo_assignments o with
          | [] => Panic "index out of range [0] with length 0"
          | first :: _ =>
              do opts <- mapM (fun nf =>
                           let '(n, f) := nf in
                           let arg := mkArg (f_name f) (f_type f) in
                           do cs <- with_type_constraints arg (scalar_constraints (f_type f)) ;
                           Ok (mkLOpt (f_name f) (f_comments f) (base ++ [n; 0]) [arg]
                                      [mkLAsg (la_path first ++ path_from_struct_field f) (Some (base ++ [n; 1], arg)) DNil None "direct" cs []]
                                      (match dflt (ty_attrs (f_type f)) with DNil => None | d => Some [d] end)))
                         (filter (fun nf => field_selected explicit (snd nf)) (mapi (fun n f => (n, f)) fs)) ;
              Ok (opts, [])
          end
      | _ => Ok ([o], [])
      end
  end.

(* disjunctionAsOptions / disjunctionStructAsOptions: one deep copy of the option per branch *)
Fixpoint replace_first_using (argname : string) (mk : lassignment -> lassignment) (l : list lassignment) : list lassignment :=
  match l with
  | [] => []
  | a :: r => match la_arg a with
              | Some (_, x) => if seqb (a_name x) argname then mk a :: r else a :: replace_first_using argname mk r
              | None => a :: replace_first_using argname mk r
              end
  end.
Definition disjunction_branch_option (base : label) (n : nat) (o : loption) (idx : nat) (target : argument)
                                     (name : string) (arg : argument) (dfl : dyn) (mk : label -> lassignment -> lassignment) : loption :=
  let clone := option_deep_copy (base ++ [n]) o in
  mkLOpt name [] (lo_argsl clone) (firstn idx (lo_args clone) ++ [arg] ++ skipn (S idx) (lo_args o))
         (replace_first_using (a_name target) (mk (base ++ [n; 0; 0])) (lo_assignments clone))
         (match dfl with DNil => None | d => Some [d] end).

Definition disjunction_as_options_action (ss : schemas) (base : label) (idx : Z) (o : loption) : res action_result :=
  match lo_args o with
  | [] => Ok ([o], [])
  | _ =>
      if (idx <? 0)%Z then Panic "index out of range" else
      match nth_error (lo_args o) (Z.to_nat idx) with
      | None => Panic "index out of range"
      | Some target =>
          match a_type target with
          | TDisj _ d =>
              Ok (mapi (fun n br =>
                    let nm := lower_camel_case (type_name br) in
                    let arg := mkArg nm br in
                    disjunction_branch_option base n o (Z.to_nat idx) target nm arg (dflt (ty_attrs br))
                      (fun cell a => mkLAsg (la_path a) (Some (cell, arg)) DNil None (la_method a) [] []))
                  (d_branches d), [])
          | TRef _ _ _ =>
              let referred := resolve_total ss (a_type target) in
              if is_struct_generated_from_disjunction referred then
                Ok (mapi (fun n f =>
                      let arg := mkArg (f_name f) (f_type f) in
                      disjunction_branch_option base n o (Z.to_nat idx) target (f_name f) arg (dflt (ty_attrs (f_type f)))
                        (fun _ a => mkLAsg (la_path a) None DNil
                                           (Some (a_type target, [(path_from_struct_field f, AValue (Some arg) DNil None)]))
                                           (la_method a) [] []))
                    (struct_fields referred), [])
              else Ok ([o], [])
          | _ => Ok ([o], [])
          end
      end
  end.

(* UnfoldBooleanAction *)
Definition unfold_boolean_action (tname fname : string) (o : loption) : res action_result :=
  match lo_assignments o with
  | [] => Panic "index out of range [0] with length 0"
  | first :: _ =>
      match last_item (la_path first) with
      | None => Panic "index out of range [-1]"
      | Some it =>
          if is_bool_scalar (pi_type it) then
            do dd <- match lo_default o with
                     | None => Ok (None, None)
                     | Some [] => Panic "index out of range [0] with length 0"
                     | Some (DBool true :: _) => Ok (Some [], None)
                     | Some (_ :: _) => Ok (None, Some [])
                     end ;
            Ok ([mkLOpt tname (lo_comments o) [] [] [constant_lasg (la_path first) (DBool true)] (fst dd);
                 mkLOpt fname (lo_comments o) [] [] [constant_lasg (la_path first) (DBool false)] (snd dd)], [])
          else Ok ([o], [])
      end
  end.

Definition duplicate_action (base : label) (n : string) (o : loption) : action_result :=
  ([o; set_oname (option_deep_copy base o) n], []).

(* AddAssignmentAction: errors are swallowed (they only go to the veneer trail) *)
Definition add_assignment_action (ss : schemas) (t : nat) (b : lbuilder) (a : vassignment) (o : loption) : res action_result :=
  match vassignment_as_ir ss [b] b [t; 1] a with
  | Ok ir => Ok ([set_oassignments o (lo_assignments o ++ [ir])], [])
  | Err _ => Ok ([o], [])
  | Panic w => Panic w
  | OutOfFuel => OutOfFuel
  end.

Definition add_comments_action (cs : list string) (o : loption) : action_result := ([set_ocomments o (lo_comments o ++ cs)], []).

(* t: number of the rule application; base = [t; builder index; option index] *)
Definition run_action (ss : schemas) (t : nat) (base : label) (act : oaction) (b : lbuilder) (o : loption) : res action_result :=
  match act with
  | AOmit => Ok ([], [])
  | ARename n => Ok (rename_action n o)
  | ARenameArguments names => Ok (rename_arguments_action names o)
  | AUnfoldBoolean tn fn => unfold_boolean_action tn fn o
  | AStructFieldsAsArguments fs => struct_fields_as_arguments_action ss base fs o
  | AStructFieldsAsOptions fs => struct_fields_as_options_action ss base fs o
  | AArrayToAppend => array_to_append_action base o
  | AMapToIndex => map_to_index_action base o
  | ADisjunctionAsOptions i => disjunction_as_options_action ss base i o
  | ADuplicate n => Ok (duplicate_action base n o)
  | AAddAssignment a => add_assignment_action ss t b a o
  | AAddComments cs => Ok (add_comments_action cs o)
  end.

(* ---------------------------------------------------------------- Rewriter.applyOptionRules *)
(* (1) without write propagation: what the code would do if nothing were shared *)
Definition process_options_pure (ss : schemas) (t : nat) (i : nat) (r : orule) (b : lbuilder) : res (list loption) :=
  do outs <- mapM (fun ko => if sel_option (or_sel r) b (snd ko)
                             then do ar <- run_action ss t [t; i; fst ko] (or_action r) b (snd ko) ; Ok (fst ar)
                             else Ok [snd ko])
                  (mapi (fun k o => (k, o)) (lb_options b)) ;
  Ok (List.concat outs).
Definition apply_option_rule_pure (ss : schemas) (t : nat) (r : orule) (bs : list lbuilder) : res (list lbuilder) :=
  mapM (fun ib => do os <- process_options_pure ss t (fst ib) r (snd ib) ; Ok (set_options (snd ib) os))
       (mapi (fun i b => (i, b)) bs).

(* (2) as the code runs: a write reaches every holder of the cell — the builders already
   processed, the constructor of the current one, its options already processed and still to be
   processed, and the builders still to come.  The flag records whether any write reached a
   holder other than the option being rewritten. *)
Record octx := mkCtx { cx_done : list lbuilder ; cx_cur : lbuilder ; cx_rest : list lbuilder ; cx_flag : bool }.

Definition effects_hit_ctx (es : list effect) (c : octx) (processed remaining : list loption) : bool :=
  existsb (fun e => existsb (effect_hits_builder e) (cx_done c) || effect_hits_builder e (cx_cur c)
                    || existsb (effect_hits_builder e) (cx_rest c)
                    || existsb (effect_hits_opt e) processed || existsb (effect_hits_opt e) remaining) es.

Fixpoint process_options (ss : schemas) (t i : nat) (r : orule) (b : lbuilder) (k : nat)
                         (c : octx) (processed remaining : list loption) (fuel : nat) : res (octx * list loption) :=
  match fuel, remaining with
  | _, [] => Ok (c, processed)
  | O, _ => OutOfFuel
  | S fuel', o :: rest =>
      if sel_option (or_sel r) b o then
        do ar <- run_action ss t [t; i; k] (or_action r) b o ;
        let '(newopts, effs) := ar in
        let hit := effects_hit_ctx effs c processed rest in
        let c' := mkCtx (map (apply_effects_builder effs) (cx_done c)) (apply_effects_builder effs (cx_cur c))
                        (map (apply_effects_builder effs) (cx_rest c)) (cx_flag c || hit) in
        process_options ss t i r b (S k) c' (map (apply_effects_opt effs) processed ++ newopts)
                        (map (apply_effects_opt effs) rest) fuel'
      else process_options ss t i r b (S k) c (processed ++ [o]) rest fuel'
  end.

Fixpoint apply_option_rule_go (ss : schemas) (t : nat) (r : orule) (done rest : list lbuilder) (flag : bool) (fuel : nat)
  : res (list lbuilder * bool) :=
  match fuel, rest with
  | _, [] => Ok (done, flag)
  | O, _ => OutOfFuel
  | S fuel', b :: rest' =>
      do out <- process_options ss t (List.length done) r b 0 (mkCtx done (set_options b []) rest' flag) [] (lb_options b)
                                (List.length (lb_options b)) ;
      let '(c, processed) := out in
      apply_option_rule_go ss t r (cx_done c ++ [set_options (cx_cur c) processed]) (cx_rest c) (cx_flag c) fuel'
  end.
Definition apply_option_rule (ss : schemas) (t : nat) (r : orule) (bs : list lbuilder) (flag : bool) : res (list lbuilder * bool) :=
  apply_option_rule_go ss t r [] bs flag (List.length bs).

(* ---------------------------------------------------------------- Rewriter.ApplyTo *)
Definition has_options (b : lbuilder) : bool := match lb_options b with [] => false | _ => true end.

Fixpoint apply_builder_rules (ss : schemas) (t : nat) (rs : list brule) (bs : list lbuilder) : res (list lbuilder) :=
  match rs with
  | [] => Ok bs
  | r :: rest => do bs' <- apply_builder_rule ss t r bs ; apply_builder_rules ss (S t) rest bs'
  end.
(* applyOptionRules: every rule over every builder, then builders left without option are dropped *)
Fixpoint apply_option_rules_go (faithful : bool) (ss : schemas) (t : nat) (rs : list orule) (bs : list lbuilder) (flag : bool)
  : res (list lbuilder * bool) :=
  match rs with
  | [] => Ok (bs, flag)
  | r :: rest =>
      if faithful then
        do out <- apply_option_rule ss t r bs flag ; apply_option_rules_go faithful ss (S t) rest (fst out) (snd out)
      else
        do bs' <- apply_option_rule_pure ss t r bs ; apply_option_rules_go faithful ss (S t) rest bs' flag
  end.
Definition apply_option_rules (faithful : bool) (ss : schemas) (t : nat) (rs : list orule) (bs : list lbuilder) (flag : bool)
  : res (list lbuilder * bool) :=
  do out <- apply_option_rules_go faithful ss t rs bs flag ; Ok (filter has_options (fst out), snd out).

(* one language pass: builder rules, then option rules *)
Definition apply_language (faithful : bool) (ss : schemas) (t : nat) (lrs : list language_rules) (l : string)
                          (bs : list lbuilder) (flag : bool) : res (list lbuilder * bool) :=
  let brs := builder_rules_for l lrs in
  do bs1 <- apply_builder_rules ss t brs bs ;
  apply_option_rules faithful ss (t + List.length brs) (option_rules_for l lrs) bs1 flag.

Definition all_languages : string := "all".
Definition rules_count (lrs : list language_rules) (l : string) : nat :=
  List.length (builder_rules_for l lrs) + List.length (option_rules_for l lrs).

(* Rewriter.ApplyTo on labelled builders; the flag tells whether a write through a shared cell
   reached anything but the option being rewritten *)
Definition apply_to_rules (faithful : bool) (ss : schemas) (lrs : list language_rules) (language : string) (bs : list lbuilder)
  : res (list lbuilder * bool) :=
  do out <- apply_language faithful ss 1 lrs all_languages bs false ;
  apply_language faithful ss (1 + rules_count lrs all_languages) lrs language (fst out) (snd out).

(* the whole thing: load the rule files, apply them to what FromAST derived *)
Definition apply_to_l (faithful : bool) (ss : schemas) (files : list vfile) (language : string) (bs : list builder)
  : res (list lbuilder * bool) :=
  if negb (aliases_acyclic ss) then OutOfFuel else
  do lrs <- rewriter_from files ;
  apply_to_rules faithful ss lrs language (label_builders 0 bs).

Definition apply_to (ss : schemas) (files : list vfile) (language : string) (bs : list builder) : res (list builder) :=
  do out <- apply_to_l true ss files language bs ; Ok (erase_builders (fst out)).
(* the same rules with no sharing between copies (every write stays in the option it is made on) *)
Definition apply_to_unshared (ss : schemas) (files : list vfile) (language : string) (bs : list builder) : res (list builder) :=
  do out <- apply_to_l false ss files language bs ; Ok (erase_builders (fst out)).
(* did a write reach a holder other than the option being rewritten? *)
Definition interference (ss : schemas) (files : list vfile) (language : string) (bs : list builder) : bool :=
  match apply_to_l true ss files language bs with Ok out => snd out | _ => false end.
