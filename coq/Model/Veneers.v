(* Builder veneers: executable models of
     internal/yaml/veneers.go, builder.go, option.go      (loading: yaml-level rules -> rules)
     internal/veneers/builder/rules.go, selectors.go      (builder rules)
     internal/veneers/option/actions.go, rules.go, selectors.go (option rules)
     internal/veneers/types.go                            (veneers.Option / Assignment ... AsIR)
     internal/veneers/rewrite/rewrite.go                  (Rewriter.ApplyTo)
     internal/ast/builder.go                              (MakePath, Path.Append, DeepCopy, LocateBy...)
   Definitions only; every Gallina function is named after the Go function it mirrors.

   Sharing.  The Go code copies options and assignments shallowly (mergeBuilderInto, compose,
   promote_options_to_constructor, add_option, add_assignment), so several options and constructors
   may hold the same *Argument or the same Args backing array.  Since /repo a8e18fa no rule writes
   through such a cell any more (array_to_append, map_to_index and rename_arguments work on copies)
   and since 0b5ce6d a composed builder owns its constructor and properties: sharing is no longer
   observable, and the model is purely functional over the builder IR of Model/Builders.v.
   Path.Append copies both operands into a new slice (`path_append`), MakePath builds a new one.
   Go panics (index out of range, nil dereference) are `Panic`, errors are `Err`.

   Not modelled: VeneerTrail (debug text) and the Debug rules built on it; writes into the spare
   capacity of a slice shared between two holders (`append` on Comments / Assignments / Options
   when the Go runtime left cap > len). *)
From Cog Require Export Model.BuildersEq Model.Names.
Local Open Scope string_scope.
Local Open Scope list_scope.

(* ---------------------------------------------------------------- small helpers *)
Fixpoint mapi_from {A B} (f : nat -> A -> B) (n : nat) (l : list A) : list B :=
  match l with [] => [] | x :: r => f n x :: mapi_from f (S n) r end.
Definition mapi {A B} (f : nat -> A -> B) := mapi_from f 0.

Fixpoint set_nth {A} (i : nat) (x : A) (l : list A) : list A :=
  match l, i with
  | [], _ => []
  | _ :: r, O => x :: r
  | y :: r, S j => y :: set_nth j x r
  end.

Definition item_in_list (s : string) (l : list string) : bool := existsb (fun x => seqb x s) l.          (* tools.ItemInList *)
Definition string_in_list_equal_fold (s : string) (l : list string) : bool := existsb (fun x => equal_fold x s) l. (* tools.StringInListEqualFold *)

(* strings.Cut(s, ".") *)
Fixpoint cut_dot (s : string) : option (string * string) :=
  match s with
  | EmptyString => None
  | String c r => if Ascii.eqb c "."%char then Some (EmptyString, r)
                  else match cut_dot r with Some (a, b) => Some (String c a, b) | None => None end
  end.
(* strings.Split(s, ".") *)
Fixpoint split_dots_acc (s cur : string) : list string :=
  match s with
  | EmptyString => [srev cur]
  | String c r => if Ascii.eqb c "."%char then srev cur :: split_dots_acc r EmptyString else split_dots_acc r (String c cur)
  end.
Definition split_dots (s : string) : list string := split_dots_acc s EmptyString.

(* tools.Singularize: `(?i)s$` -> `` ; the second rule (`ies$`) can never fire after the first *)
Definition singularize (s : string) : string :=
  match srev s with
  | String c r => if (Ascii.eqb c "s"%char || Ascii.eqb c "S"%char)%bool then srev r else s
  | EmptyString => s
  end.

(* ast.TypeName (internal/ast/tools.go) *)
Fixpoint type_name (t : ty) : string :=
  match t with
  | TRef _ _ n => upper_camel_case n
  | TScalar _ k _ _ => upper_camel_case (skind_name k)
  | TArray _ v => String.append "ArrayOf" (type_name v)
  | _ => upper_camel_case (kind_name t)
  end.

(* Schemas.ResolveToType on schema sets without alias cycles (apply_to rejects the others up
   front: the real FromAST already overflows the stack on them) *)
Definition resolve_total (ss : schemas) (t : ty) : ty :=
  match resolve_to_type (res_fuel ss) ss t with Ok r => r | _ => t end.
Definition aliases_acyclic (ss : schemas) : bool :=
  forallb (fun s => forallb (fun ko => match resolve_to_type (res_fuel ss) ss (o_type (snd ko)) with Ok _ => true | _ => false end)
                            (s_objects s)) ss.

(* Type.IsStructGeneratedFromDisjunction: Hints[disjunction_of_scalars] != nil || Hints[disjunction_of_refs] != nil *)
Definition hint_present (a : attrs) (dh : list (string * disj)) (k : string) : bool :=
  existsb (fun kd => seqb (fst kd) k) dh ||
  existsb (fun kv => seqb (fst kv) k && negb (dyn_is_nil (snd kv))) (hints a).
Definition is_struct_generated_from_disjunction (t : ty) : bool :=
  match t with
  | TStruct a dh _ => hint_present a dh "disjunction_of_scalars" || hint_present a dh "disjunction_of_refs"
  | _ => false
  end.

Definition is_bool_scalar (t : ty) : bool := match t with TScalar _ KBool _ _ => true | _ => false end.
Definition struct_fields (t : ty) : list field := match t with TStruct _ _ fs => fs | _ => [] end.
Definition field_by_name (fs : list field) (n : string) : option field := find (fun f => seqb (f_name f) n) fs.

(* ---------------------------------------------------------------- accessors on the builder IR (Model/Builders.v) *)
Definition av_arg (v : avalue) : option argument := match v with AValue a _ _ => a end.
Definition av_const (v : avalue) : dyn := match v with AValue _ c _ => c end.
Definition av_env (v : avalue) : option (ty * list (path * avalue)) := match v with AValue _ _ e => e end.
Definition as_arg (a : assignment) := av_arg (as_value a).
Definition as_const (a : assignment) := av_const (as_value a).
Definition as_env (a : assignment) := av_env (as_value a).

Definition set_as_path (a : assignment) (p : path) : assignment :=
  mkAssignment p (as_value a) (as_method a) (as_constraints a) (as_nilchecks a).
Definition set_as_arg (a : assignment) (x : option argument) : assignment :=
  mkAssignment (as_path a) (AValue x (as_const a) (as_env a)) (as_method a) (as_constraints a) (as_nilchecks a).
Definition set_as_method (a : assignment) (m : string) : assignment :=
  mkAssignment (as_path a) (as_value a) m (as_constraints a) (as_nilchecks a).

Definition set_options (b : builder) (os : list boption) : builder :=
  mkBuilder (b_for b) (b_pkg b) (b_name b) (b_props b) (b_ctor b) os (b_factories b).
Definition set_name (b : builder) (n : string) : builder :=
  mkBuilder (b_for b) (b_pkg b) n (b_props b) (b_ctor b) (b_options b) (b_factories b).
Definition set_ctor (b : builder) (c : constructor) : builder :=
  mkBuilder (b_for b) (b_pkg b) (b_name b) (b_props b) c (b_options b) (b_factories b).
Definition set_props (b : builder) (ps : list field) : builder :=
  mkBuilder (b_for b) (b_pkg b) (b_name b) ps (b_ctor b) (b_options b) (b_factories b).
Definition set_factories (b : builder) (fs : list factory) : builder :=
  mkBuilder (b_for b) (b_pkg b) (b_name b) (b_props b) (b_ctor b) (b_options b) fs.
Definition set_oname (o : boption) (n : string) : boption :=
  mkOption n (op_comments o) (op_args o) (op_assignments o) (op_default o).
Definition set_ocomments (o : boption) (cs : list string) : boption :=
  mkOption (op_name o) cs (op_args o) (op_assignments o) (op_default o).
Definition set_oassignments (o : boption) (l : list assignment) : boption :=
  mkOption (op_name o) (op_comments o) (op_args o) l (op_default o).

(* Option.DeepCopy / Builder.DeepCopy: the same value (that they ARE faithful copies is C18's subject and
   is re-checked here by the duplicate contracts on cog's own output) *)
Definition option_deep_copy (o : boption) : boption := o.
Definition builder_deep_copy (b : builder) : builder := b.

Definition set_arg_name (a : argument) (n : string) : argument := mkArg n (a_type a).
Fixpoint set_nth_name (i : nat) (n : string) (l : list argument) : list argument :=
  match l, i with
  | [], _ => []
  | a :: r, O => set_arg_name a n :: r
  | a :: r, S j => a :: set_nth_name j n r
  end.

(* Path.Append: both operands are copied into a new slice; PathFromStructField; AppendStructField *)
Definition path_append (p suffix : path) : path := p ++ suffix.
Definition path_from_struct_field (f : field) : path := [mkPathItem (f_name f) None (f_type f) None false].
Definition path_append_struct_field (p : path) (f : field) : path := path_append p (path_from_struct_field f).

(* ---------------------------------------------------------------- rules *)
Inductive bselector :=
| BSByObject (pkg name : string) | BSByName (pkg name : string) | BSByVariant (v : string) | BSGenFromDisj.
Inductive oselector :=
| OSByName (pkg obj : string) (names : list string) | OSByBuilder (pkg bname : string) (names : list string).

(* internal/veneers/types.go *)
Inductive vvalue := VValue (arg : option argument) (const : dyn) (env : option (list (string * vvalue))).
Record vassignment := mkVAssignment { va_path : string ; va_method : string ; va_value : vvalue }.
Record voption := mkVOption
  { vo_name : string ; vo_comments : list string ; vo_args : list argument ; vo_assignments : list vassignment }.

(* internal/yaml/builder.go, option.go: the rule files as decoded *)
Record ybsel := mkYBSel
  { yb_by_object : option string ; yb_by_name : option string ; yb_by_variant : option string ; yb_gfd : option bool }.
Record ycompose := mkYCompose
  { yc_sel : ybsel ; yc_source : string ; yc_disc_field : string ; yc_exclude : list string ;
    yc_map : list (string * string) ; yc_name : string ; yc_preserve : bool }.
Inductive ybmember :=
| YBOmit (s : ybsel)
| YBRename (s : ybsel) (as_ : string)
| YBMergeInto (dest src under : string) (excl : list string) (ren : list (string * string))
| YBCompose (c : ycompose)
| YBProperties (s : ybsel) (set : list field)
| YBDuplicate (s : ybsel) (as_ : string) (excl : list string)
| YBInitialize (s : ybsel) (set : list (string * dyn))
| YBPromote (s : ybsel) (opts : list string)
| YBAddOption (s : ybsel) (o : voption)
| YBAddFactory (s : ybsel) (f : factory).
Definition ybrule := list ybmember.   (* the non-nil members of a BuilderRule, in declaration order *)

Record ybynames := mkYByNames { yn_object : string ; yn_builder : string ; yn_options : list string }.
Record yosel := mkYOSel { yo_by_name : option string ; yo_by_builder : option string ; yo_by_names : option ybynames }.
Inductive yomember :=
| YOOmit (s : yosel)
| YORename (s : yosel) (as_ : string)
| YORenameArguments (s : yosel) (as_ : list string)
| YOUnfoldBoolean (s : yosel) (true_as false_as : string)
| YOStructFieldsAsArguments (s : yosel) (fields : option (list string))
| YOStructFieldsAsOptions (s : yosel) (fields : option (list string))
| YOArrayToAppend (s : yosel)
| YOMapToIndex (s : yosel)
| YODisjunctionAsOptions (s : yosel) (idx : Z)
| YODuplicate (s : yosel) (as_ : string)
| YOAddAssignment (s : yosel) (a : vassignment)
| YOAddComments (s : yosel) (cs : list string).
Definition yorule := list yomember.

Record vfile := mkVFile { vf_language : string ; vf_package : string ; vf_builders : list ybrule ; vf_options : list yorule }.

(* what the loader turns them into *)
Inductive brule :=
| BROmit (s : bselector)
| BRRename (s : bselector) (n : string)
| BRMergeInto (s : bselector) (src under : string) (excl : list string) (ren : list (string * string))
| BRCompose (s : bselector) (c : ycompose)
| BRProperties (s : bselector) (ps : list field)
| BRDuplicate (s : bselector) (n : string) (excl : list string)
| BRInitialize (s : bselector) (set : list (string * dyn))
| BRPromote (s : bselector) (names : list string)
| BRAddOption (s : bselector) (o : voption)
| BRAddFactory (s : bselector) (f : factory).
Inductive oaction :=
| AOmit | ARename (n : string) | ARenameArguments (names : list string) | AUnfoldBoolean (t f : string)
| AStructFieldsAsArguments (fields : option (list string)) | AStructFieldsAsOptions (fields : option (list string))
| AArrayToAppend | AMapToIndex | ADisjunctionAsOptions (idx : Z) | ADuplicate (n : string)
| AAddAssignment (a : vassignment) | AAddComments (cs : list string).
Record orule := mkORule { or_sel : oselector ; or_action : oaction }.

(* BuilderSelector.AsSelector / OptionSelector.AsSelector *)
Definition bsel_as_selector (pkg : string) (s : ybsel) : res bselector :=
  match yb_by_object s, yb_by_name s, yb_by_variant s, yb_gfd s with
  | Some n, _, _, _ => Ok (BSByObject pkg n)
  | None, Some n, _, _ => Ok (BSByName pkg n)
  | None, None, Some v, _ => Ok (BSByVariant v)
  | None, None, None, Some _ => Ok BSGenFromDisj
  | None, None, None, None => Err "empty selector"
  end.
Definition osel_as_selector (pkg : string) (s : yosel) : res oselector :=
  match yo_by_name s, yo_by_builder s, yo_by_names s with
  | Some n, _, _ => match cut_dot n with Some (obj, opt) => Ok (OSByName pkg obj [opt]) | None => Err "no object name" end
  | None, Some n, _ => match cut_dot n with Some (bn, opt) => Ok (OSByBuilder pkg bn [opt]) | None => Err "no builder name" end
  | None, None, Some y =>
      if seqb (yn_object y) "" && seqb (yn_builder y) "" then Err "object or builder is required"
      else if negb (seqb (yn_builder y) "") then Ok (OSByBuilder pkg (yn_builder y) (yn_options y))
      else Ok (OSByName pkg (yn_object y) (yn_options y))
  | None, None, None => Err "empty or unknown selector"
  end.

(* BuilderRule.AsRewriteRule / OptionRule.AsRewriteRule: the first non-nil member decides *)
Definition brule_as_rewrite_rule (pkg : string) (r : ybrule) : res brule :=
  match r with
  | [] => Err "empty rule"
  | YBOmit s :: _ => do x <- bsel_as_selector pkg s ; Ok (BROmit x)
  | YBRename s n :: _ => do x <- bsel_as_selector pkg s ; Ok (BRRename x n)
  | YBMergeInto d src u e rn :: _ => Ok (BRMergeInto (BSByName pkg d) src u e rn)
  | YBCompose c :: _ => do x <- bsel_as_selector pkg (yc_sel c) ; Ok (BRCompose x c)
  | YBProperties s ps :: _ => do x <- bsel_as_selector pkg s ; Ok (BRProperties x ps)
  | YBDuplicate s n e :: _ => do x <- bsel_as_selector pkg s ; Ok (BRDuplicate x n e)
  | YBInitialize s st :: _ => do x <- bsel_as_selector pkg s ; Ok (BRInitialize x st)
  | YBPromote s ns :: _ => do x <- bsel_as_selector pkg s ; Ok (BRPromote x ns)
  | YBAddOption s o :: _ => do x <- bsel_as_selector pkg s ; Ok (BRAddOption x o)
  | YBAddFactory s f :: _ => do x <- bsel_as_selector pkg s ; Ok (BRAddFactory x f)
  end.
Definition orule_as_rewrite_rule (pkg : string) (r : yorule) : res orule :=
  match r with
  | [] => Err "empty rule"
  | YOOmit s :: _ => do x <- osel_as_selector pkg s ; Ok (mkORule x AOmit)
  | YORename s n :: _ => do x <- osel_as_selector pkg s ; Ok (mkORule x (ARename n))
  | YORenameArguments s ns :: _ => do x <- osel_as_selector pkg s ; Ok (mkORule x (ARenameArguments ns))
  | YOUnfoldBoolean s t f :: _ => do x <- osel_as_selector pkg s ; Ok (mkORule x (AUnfoldBoolean t f))
  | YOStructFieldsAsArguments s fs :: _ => do x <- osel_as_selector pkg s ; Ok (mkORule x (AStructFieldsAsArguments fs))
  | YOStructFieldsAsOptions s fs :: _ => do x <- osel_as_selector pkg s ; Ok (mkORule x (AStructFieldsAsOptions fs))
  | YOArrayToAppend s :: _ => do x <- osel_as_selector pkg s ; Ok (mkORule x AArrayToAppend)
  | YOMapToIndex s :: _ => do x <- osel_as_selector pkg s ; Ok (mkORule x AMapToIndex)
  | YODisjunctionAsOptions s i :: _ => do x <- osel_as_selector pkg s ; Ok (mkORule x (ADisjunctionAsOptions i))
  | YODuplicate s n :: _ => do x <- osel_as_selector pkg s ; Ok (mkORule x (ADuplicate n))
  | YOAddAssignment s a :: _ => do x <- osel_as_selector pkg s ; Ok (mkORule x (AAddAssignment a))
  | YOAddComments s cs :: _ => do x <- osel_as_selector pkg s ; Ok (mkORule x (AAddComments cs))
  end.

(* VeneersLoader.load, one file: rewrite.LanguageRules *)
Record language_rules := mkLR { lr_language : string ; lr_builder_rules : list brule ; lr_option_rules : list orule }.
Definition load_file (f : vfile) : res language_rules :=
  if seqb (vf_package f) "" then Err "missing package statement"
  else do brs <- mapM (brule_as_rewrite_rule (vf_package f)) (vf_builders f) ;
       do ors <- mapM (orule_as_rewrite_rule (vf_package f)) (vf_options f) ;
       Ok (mkLR (vf_language f) brs ors).
(* VeneersLoader.RewriterFrom + rewrite.NewRewrite: rules grouped by language, in file order *)
Definition rewriter_from (files : list vfile) : res (list language_rules) := mapM load_file files.
Definition builder_rules_for (l : string) (lrs : list language_rules) : list brule :=
  flat_map (fun lr => if seqb (lr_language lr) l then lr_builder_rules lr else []) lrs.
Definition option_rules_for (l : string) (lrs : list language_rules) : list orule :=
  flat_map (fun lr => if seqb (lr_language lr) l then lr_option_rules lr else []) lrs.

(* ---------------------------------------------------------------- selectors *)
Definition sel_builder (ss : schemas) (s : bselector) (b : builder) : bool :=
  match s with
  | BSByObject pkg n => equal_fold (o_selfpkg (b_for b)) pkg && equal_fold (o_selfname (b_for b)) n
  | BSByName pkg n => equal_fold (o_selfpkg (b_for b)) pkg && equal_fold (b_name b) n
  | BSByVariant v =>
      match locate ss (o_selfpkg (b_for b)) with
      | None => false
      | Some s => seqb (m_kind (s_meta s)) "composable" && seqb (m_variant (s_meta s)) v && negb (seqb (m_identifier (s_meta s)) "")
      end
  | BSGenFromDisj => is_struct_generated_from_disjunction (resolve_total ss (o_type (b_for b)))
  end.
Definition sel_option (s : oselector) (b : builder) (o : boption) : bool :=
  match s with
  | OSByName pkg obj names => seqb (o_selfpkg (b_for b)) pkg && equal_fold (o_name (b_for b)) obj && string_in_list_equal_fold (op_name o) names
  | OSByBuilder pkg bn names => seqb (b_pkg b) pkg && equal_fold (b_name b) bn && string_in_list_equal_fold (op_name o) names
  end.

(* ---------------------------------------------------------------- ast/builder.go helpers *)
Definition locate_by_object (bs : list builder) (pkg name : string) : option builder :=
  find (fun b => seqb (o_selfpkg (b_for b)) pkg && seqb (o_selfname (b_for b)) name) bs.
Definition locate_by_name (bs : list builder) (pkg name : string) : option builder :=
  find (fun b => seqb (o_selfpkg (b_for b)) pkg && seqb (b_name b) name) bs.
Definition option_by_name (b : builder) (n : string) : option boption := find (fun o => equal_fold (op_name o) n) (b_options b).

(* Builder.MakePath: a new path, one item per dotted segment *)
Fixpoint make_path_go (bs : list builder) (cur : ty) (parts : list string) (acc : path) : res path :=
  match parts with
  | [] => Ok acc
  | part :: rest =>
      do cur1 <- match cur with
                 | TRef _ p n => match locate_by_object bs p n with
                                 | Some rb => Ok (o_type (b_for rb))
                                 | None => Err "reference could not be resolved"
                                 end
                 | _ => Ok cur
                 end ;
      match cur1 with
      | TStruct _ _ fs =>
          match field_by_name fs part with
          | Some f => make_path_go bs (f_type f) rest (acc ++ [mkPathItem part None (f_type f) None false])
          | None => Err "field not found"
          end
      | _ => Err "not a struct or a ref"
      end
  end.
Definition make_path (bs : list builder) (b : builder) (s : string) : res path :=
  if seqb s "" then Err "can not make path from empty input"
  else make_path_go bs (o_type (b_for b)) (split_dots s) [].

Definition last_item (p : path) : option pathitem := last (map Some p) None.
Definition set_last_typehint (p : path) (h : ty) : path :=
  match rev p with
  | [] => []
  | it :: r => rev r ++ [mkPathItem (pi_id it) (pi_index it) (pi_type it) (Some h) (pi_root it)]
  end.

(* ast.ConstantAssignment / ArgumentAssignment / WithTypeConstraints / FieldAssignment *)
Definition constant_asg (p : path) (v : dyn) : assignment := mkAssignment p (AValue None v None) "direct" [] [].
Definition with_type_constraints (arg : argument) (cs : list constraint) : res (list aconstraint) :=
  mapM (fun c => match c_args c with
                 | [] => Panic "index out of range [0] with length 0"
                 | x :: _ => Ok (mkAConstraint arg (c_op c) x)
                 end) cs.

(* ---------------------------------------------------------------- veneers/types.go: AsIR *)
Definition envelope_type_of (t : ty) : ty :=
  let t1 := match t with TArray _ v => v | _ => t end in
  match t1 with TMap _ _ v => v | _ => t1 end.

(* AssignmentValue.AsIR *)
Fixpoint vvalue_as_ir (ss : schemas) (p : path) (v : vvalue) : res avalue :=
  match v with
  | VValue (Some a) _ _ => Ok (AValue (Some a) DNil None)
  | VValue None c env =>
      if negb (dyn_is_nil c) then Ok (AValue None c None)
      else match env with
           | None => Err "empty assignment value"
           | Some vals =>
               match last_item p with
               | None => Panic "index out of range [-1]"
               | Some it =>
                   let et := envelope_type_of (pi_type it) in
                   do vs <- (fix go (l : list (string * vvalue)) : res (list (path * avalue)) :=
                               match l with
                               | [] => Ok []
                               | (fname, fv) :: r =>
                                   match resolve_total ss et with
                                   | TStruct _ _ fs =>
                                       match field_by_name fs fname with
                                       | None => Err "envelope field not found"
                                       | Some f =>
                                           do x <- vvalue_as_ir ss (path_from_struct_field f) fv ;
                                           do xs <- go r ;
                                           Ok ((path_from_struct_field f, x) :: xs)
                                       end
                                   | _ => Panic "invalid memory address or nil pointer dereference"
                                   end
                               end) vals ;
                   Ok (AValue None DNil (Some (et, vs)))
               end
           end
  end.

(* Assignment.AsIR *)
Definition vassignment_as_ir (ss : schemas) (bs : list builder) (root : builder) (a : vassignment) : res assignment :=
  do p <- make_path bs root (va_path a) ;
  do v <- vvalue_as_ir ss p (va_value a) ;
  Ok (mkAssignment p v (va_method a) [] []).

(* Option.AsIR *)
Definition voption_as_ir (ss : schemas) (bs : list builder) (root : builder) (o : voption) : res boption :=
  do asgs <- mapM (vassignment_as_ir ss bs root) (vo_assignments o) ;
  Ok (mkOption (vo_name o) (vo_comments o) (vo_args o) asgs None).

(* ---------------------------------------------------------------- builder rules (builder/rules.go) *)
Definition prefix_path (under : path) (a : assignment) : assignment := set_as_path a (path_append under (as_path a)).

(* mergeBuilderInto *)
Definition merge_builder_into (from into : builder) (under : path) (exclude : list string) (renames : list (string * string)) : builder :=
  let consts := filter (fun a => negb (dyn_is_nil (as_const a))) (ct_assignments (b_ctor from)) in
  let opts := flat_map (fun o =>
                if item_in_list (op_name o) exclude then []
                else [mkOption (match alist_find renames (op_name o) with Some n => n | None => op_name o end)
                               (op_comments o) (op_args o) (map (prefix_path under) (op_assignments o)) (op_default o)])
              (b_options from) in
  mkBuilder (b_for into) (b_pkg into) (b_name into) (b_props into)
            (mkConstructor (ct_args (b_ctor into)) (ct_assignments (b_ctor into) ++ map (prefix_path under) consts))
            (b_options into ++ opts) (b_factories into ++ b_factories from).

(* mapToSelected: in place, in order; a later builder sees what was done to an earlier one *)
Fixpoint map_to_selected_go (sel : builder -> bool) (f : list builder -> builder -> res builder)
                            (todo i : nat) (bs : list builder) : res (list builder) :=
  match todo with
  | O => Ok bs
  | S t =>
      match nth_error bs i with
      | None => Ok bs
      | Some b => if sel b then do nb <- f bs b ; map_to_selected_go sel f t (S i) (set_nth i nb bs)
                  else map_to_selected_go sel f t (S i) bs
      end
  end.
Definition map_to_selected sel f (bs : list builder) : res (list builder) := map_to_selected_go sel f (List.length bs) 0 bs.

Definition omit_rule (ss : schemas) (s : bselector) (bs : list builder) : list builder :=
  filter (fun b => negb (sel_builder ss s b)) bs.

Definition rename_rule (ss : schemas) (s : bselector) (n : string) (bs : list builder) : list builder :=
  map (fun b => if sel_builder ss s b then set_name b n else b) bs.

Definition merge_into_builder (src under : string) (excl : list string) (ren : list (string * string))
                              (cur : list builder) (dest : builder) : res builder :=
  match locate_by_name cur (o_selfpkg (b_for dest)) src with
  | None => Ok dest
  | Some source => do root <- make_path cur dest under ; Ok (merge_builder_into source dest root excl ren)
  end.
Definition merge_into_rule (ss : schemas) (s : bselector) (src under : string) (excl : list string) (ren : list (string * string))
                           (bs : list builder) : res (list builder) :=
  map_to_selected (sel_builder ss s) (merge_into_builder src under excl ren) bs.

Definition properties_rule (ss : schemas) (s : bselector) (ps : list field) (bs : list builder) : list builder :=
  map (fun b => if sel_builder ss s b then set_props b (b_props b ++ ps) else b) bs.

(* Duplicate: deep copies appended after all the builders *)
Definition duplicate_builder (n : string) (excl : list string) (b : builder) : builder :=
  let d := set_name (builder_deep_copy b) n in
  match excl with
  | [] => d
  | _ => set_options d (filter (fun o => negb (string_in_list_equal_fold (op_name o) excl)) (b_options d))
  end.
Definition duplicate_rule (ss : schemas) (s : bselector) (n : string) (excl : list string) (bs : list builder) : list builder :=
  bs ++ map (duplicate_builder n excl) (filter (sel_builder ss s) bs).

Definition initialize_builder (bs : list builder) (set : list (string * dyn)) (b : builder) : res builder :=
  do asgs <- mapM (fun pv => do p <- make_path bs b (fst pv) ; Ok (constant_asg p (snd pv))) set ;
  Ok (set_ctor b (mkConstructor (ct_args (b_ctor b)) (ct_assignments (b_ctor b) ++ asgs))).
Definition initialize_rule (ss : schemas) (s : bselector) (set : list (string * dyn)) (bs : list builder) : res (list builder) :=
  mapM (fun b => if sel_builder ss s b then initialize_builder bs set b else Ok b) bs.

(* PromoteOptionsToConstructor: the constructor receives a copy of Args[0] (not nullable) and the
   option's first assignment *)
Fixpoint promote_options (b : builder) (names : list string) (c : constructor) : res constructor :=
  match names with
  | [] => Ok c
  | n :: rest =>
      match option_by_name b n with
      | None => promote_options b rest c
      | Some o =>
          match op_args o, op_assignments o with
          | [], _ => Panic "index out of range [0] with length 0"
          | _ :: _, [] => Panic "index out of range [0] with length 0"
          | a :: _, asg :: _ =>
              promote_options b rest (mkConstructor (ct_args c ++ [mkArg (a_name a) (set_nullable (a_type a) false)]) (ct_assignments c ++ [asg]))
          end
      end
  end.
Definition promote_rule (ss : schemas) (s : bselector) (names : list string) (bs : list builder) : res (list builder) :=
  mapM (fun b => if sel_builder ss s b then
                   match b_factories b with
                   | _ :: _ => Err "constructor arguments can not be added to builders that have factories"
                   | [] => do c <- promote_options b names (b_ctor b) ; Ok (set_ctor b c)
                   end
                 else Ok b) bs.

Definition add_option_rule (ss : schemas) (s : bselector) (o : voption) (bs : list builder) : res (list builder) :=
  mapM (fun b => if sel_builder ss s b then do no <- voption_as_ir ss bs b o ; Ok (set_options b (b_options b ++ [no])) else Ok b) bs.

Definition add_factory_rule (ss : schemas) (s : bselector) (f : factory) (bs : list builder) : res (list builder) :=
  mapM (fun b => if sel_builder ss s b then
                   match ct_args (b_ctor b) with
                   | _ :: _ => Err "builder factories can not be defined on builders that accept parameters in their constructor"
                   | [] => Ok (set_factories b (b_factories b ++ [f]))
                   end
                 else Ok b) bs.

(* composeBuilderForType *)
Definition entrypoint_options (root : path) (ept : ty) (resolved : ty) : option (list boption) :=
  if is_struct_generated_from_disjunction resolved then
    Some (map (fun f =>
            let arg := mkArg (f_name f) (f_type f) in
            mkOption (f_name f) [] [arg]
                     [mkAssignment (path_append_struct_field (set_last_typehint root ept) f) (AValue (Some arg) DNil None) "direct" [] []] None)
          (struct_fields resolved))
  else match resolved with
       | TDisj _ d =>
           Some (map (fun br =>
                   let arg := mkArg (type_name br) br in
                   mkOption (type_name br) [] [arg]
                            [mkAssignment (set_last_typehint root ept) (AValue (Some arg) DNil None) "direct" [] []] None)
                 (d_branches d))
       | _ => None
       end.

Fixpoint compose_merge (all : list builder) (c : ycompose) (nb : builder) (composables : list builder) (kept : list builder)
  : res (builder * list builder) :=
  match composables with
  | [] => Ok (nb, kept)
  | cb :: rest =>
      match alist_find (yc_map c) (o_name (b_for cb)) with
      | None => compose_merge all c nb rest (kept ++ [cb])
      | Some under =>
          do root <- make_path all nb under ;
          let root' := set_last_typehint root (TRef A0 (o_selfpkg (b_for cb)) (o_selfname (b_for cb))) in
          compose_merge all c (merge_builder_into cb nb root' [] []) rest (if yc_preserve c then kept ++ [cb] else kept)
      end
  end.

Definition compose_builder_for_type (ss : schemas) (all : list builder) (c : ycompose) (disc : string)
                                    (source : builder) (composables : list builder) : res (list builder) :=
  match composables with
  | [] => Panic "index out of range [0] with length 0"
  | c0 :: _ =>
      match o_type (b_for source) with
      | TStruct _ _ fs =>
          match field_by_name fs (yc_disc_field c) with
          | None => Err "could not find plugin discriminator field"
          | Some tf =>
              (* Constructor: sourceBuilder.Constructor.DeepCopy(), Properties copied *)
              let nb0 := mkBuilder (b_for source) (b_pkg c0)
                                   (if seqb (yc_name c) "" then o_name (b_for source) else yc_name c)
                                   (b_props source)
                                   (mkConstructor (ct_args (b_ctor source))
                                                  (ct_assignments (b_ctor source) ++ [constant_asg (path_from_struct_field tf) (DStr disc)]))
                                   (filter (fun o => negb (seqb (op_name o) (yc_disc_field c)) &&
                                                     negb (string_in_list_equal_fold (op_name o) (yc_exclude c)))
                                           (b_options source))
                                   [] in
              do mk <- compose_merge all c nb0 composables [] ;
              let '(nb1, kept) := mk in
              match alist_find (yc_map c) "__schema_entrypoint" with
              | None => Ok (kept ++ [nb1])
              | Some ep =>
                  if seqb ep "" then Ok (kept ++ [nb1]) else
                  match locate ss (b_pkg c0) with
                  | None => Panic "invalid memory address or nil pointer dereference"
                  | Some sch =>
                      if seqb (s_entry sch) "" then Err "schema does not have an entrypoint" else
                      do root <- make_path all nb1 ep ;
                      let resolved := resolve_total ss (s_entrytype sch) in
                      match entrypoint_options root (s_entrytype sch) resolved with
                      | Some opts => Ok (kept ++ [set_options nb1 (b_options nb1 ++ opts)])
                      | None =>
                          if is_struct resolved then
                            match locate_by_object composables (s_pkg sch) (s_entry sch) with
                            | None => Err "builder for schema entrypoint not found"
                            | Some eb =>
                                let root' := set_last_typehint root (TRef A0 (o_selfpkg (b_for eb)) (o_selfname (b_for eb))) in
                                Ok (kept ++ [merge_builder_into eb nb1 root' [] []])
                            end
                          else Err "entrypoint: not implemented"
                      end
                  end
              end
          end
      | _ => Panic "invalid memory address or nil pointer dereference"
      end
  end.

(* grouping by schema identifier; the groups are processed in the sorted order of the identifiers
   (sort.Strings on the keys of the Go map, /repo 6494f77) *)
Fixpoint group_add (k : string) (b : builder) (g : list (string * list builder)) : list (string * list builder) :=
  match g with
  | [] => [(k, [b])]
  | (k', l) :: r =>
      match String.compare k k' with
      | Eq => (k', l ++ [b]) :: r
      | Lt => (k, [b]) :: (k', l) :: r
      | Gt => (k', l) :: group_add k b r
      end
  end.

Definition compose_rule (ss : schemas) (s : bselector) (c : ycompose) (bs : list builder) : res (list builder) :=
  match cut_dot (yc_source c) with
  | None => Err "SourceBuilderName is incorrect: no package found"
  | Some (spkg, sname) =>
      match locate_by_object bs spkg sname with
      | None => Ok bs
      | Some source =>
          let unselected := filter (fun b => negb (sel_builder ss s b)) bs in
          let groups := fold_left (fun g b =>
                          if sel_builder ss s b then
                            match locate ss (o_selfpkg (b_for b)) with
                            | None => g
                            | Some sch => group_add (m_identifier (s_meta sch)) b g
                            end
                          else g) bs [] in
          do composed <- mapM (fun g => compose_builder_for_type ss bs c (fst g) source (snd g)) groups ;
          Ok (unselected ++ List.concat composed)
      end
  end.

Definition apply_builder_rule (ss : schemas) (r : brule) (bs : list builder) : res (list builder) :=
  match r with
  | BROmit s => Ok (omit_rule ss s bs)
  | BRRename s n => Ok (rename_rule ss s n bs)
  | BRMergeInto s src under excl ren => merge_into_rule ss s src under excl ren bs
  | BRCompose s c => compose_rule ss s c bs
  | BRProperties s ps => Ok (properties_rule ss s ps bs)
  | BRDuplicate s n excl => Ok (duplicate_rule ss s n excl bs)
  | BRInitialize s set => initialize_rule ss s set bs
  | BRPromote s names => promote_rule ss s names bs
  | BRAddOption s o => add_option_rule ss s o bs
  | BRAddFactory s f => add_factory_rule ss s f bs
  end.

(* ---------------------------------------------------------------- option actions (option/actions.go) *)
Definition rename_action (n : string) (o : boption) : list boption := [set_oname o n].

(* RenameArgumentsAction: on copies of Args and Assignments; for each argument in turn, every
   assignment whose value argument CURRENTLY carries the argument's previous name gets a renamed
   copy of it (constraints and path indices keep their own copies untouched) *)
Definition rename_value_arg (prev n : string) (a : assignment) : assignment :=
  match as_arg a with
  | Some x => if seqb (a_name x) prev then set_as_arg a (Some (set_arg_name x n)) else a
  | None => a
  end.
Fixpoint rename_arguments_go (i : nat) (todo : list (argument * string)) (args : list argument) (asgs : list assignment)
  : list argument * list assignment :=
  match todo with
  | [] => (args, asgs)
  | (a, n) :: rest => rename_arguments_go (S i) rest (set_nth_name i n args) (map (rename_value_arg (a_name a) n) asgs)
  end.
Definition rename_arguments_action (names : list string) (o : boption) : list boption :=
  if negb (Nat.eqb (List.length names) (List.length (op_args o))) then [o]
  else let '(args, asgs) := rename_arguments_go 0 (combine (op_args o) names) (op_args o) (op_assignments o) in
       [mkOption (op_name o) (op_comments o) args asgs (op_default o)].

(* ArrayToAppendAction *)
Definition array_to_append_action (o : boption) : res (list boption) :=
  match op_args o with
  | [a] =>
      match a_type a with
      | TArray _ v =>
          match op_assignments o with
          | [] => Panic "index out of range [0] with length 0"
          | first :: rest =>
              let na := mkArg (singularize (a_name a)) v in
              let first' := set_as_method (match as_arg first with Some _ => set_as_arg first (Some na) | None => first end) "append" in
              Ok [mkOption (op_name o) (op_comments o) [na] (first' :: rest) (op_default o)]
          end
      | _ => Ok [o]
      end
  | _ => Ok [o]
  end.

(* MapToIndexAction *)
Definition index_item (key : argument) (vt : ty) : pathitem := mkPathItem "" (Some (mkPathIndex (Some key) DNil)) vt None false.
Definition map_to_index_action (o : boption) : res (list boption) :=
  match op_args o with
  | [a] =>
      match a_type a with
      | TMap _ it vt =>
          match op_assignments o with
          | [] => Panic "index out of range [0] with length 0"
          | first :: rest =>
              let ka := mkArg "key" it in
              let va := mkArg (singularize (a_name a)) vt in
              let first1 := match as_arg first with Some _ => set_as_arg first (Some va) | None => first end in
              let first' := set_as_method (set_as_path first1 (path_append (as_path first) [index_item ka vt])) "index" in
              Ok [mkOption (op_name o) (op_comments o) [ka; va] (first' :: rest) (op_default o)]
          end
      | _ => Ok [o]
      end
  | _ => Ok [o]
  end.

(* the struct the first argument stands for (one level of reference only: LocateObject, not ResolveToType) *)
Definition first_arg_struct (ss : schemas) (t : ty) : ty :=
  match t with
  | TRef _ p n => match locate_object ss p n with Some ob => o_type ob | None => t end
  | _ => t
  end.
Definition field_selected (explicit : option (list string)) (f : field) : bool :=
  match explicit with None => true | Some l => item_in_list (f_name f) l end.
Definition dmap_entries (d : option (list dyn)) : list (string * dyn) :=
  match d with Some [DMap l] => l | _ => [] end.

(* StructFieldsAsArgumentsAction *)
Record sfa_acc := mkSfa { sa_args : list argument ; sa_asgs : list assignment ; sa_env : list (path * avalue) ; sa_defs : list dyn }.
Definition scalar_value (t : ty) : dyn := match t with TScalar _ _ x _ => x | _ => DNil end.
Definition sfa_field (prefix : path) (into_list : bool) (method : string) (defaults : list (string * dyn))
                     (acc : sfa_acc) (f : field) : res sfa_acc :=
  let ft := match alist_find defaults (f_name f) with Some d => set_default (f_type f) d | None => f_type f end in
  let arg := mkArg (f_name f) ft in
  let is_const := is_concrete_scalar ft in
  let item := mkPathItem (f_name f) None ft None false in
  let args' := if is_const then sa_args acc else sa_args acc ++ [arg] in
  let defs' := match alist_find defaults (f_name f) with
               | Some d => if dyn_is_nil d then sa_defs acc else sa_defs acc ++ [d]
               | None => sa_defs acc
               end in
  if into_list then
    let v := if is_const then AValue None (scalar_value ft) None else AValue (Some arg) DNil None in
    Ok (mkSfa args' (sa_asgs acc) (sa_env acc ++ [([item], v)]) defs')
  else if is_const then
    Ok (mkSfa args' (sa_asgs acc ++ [constant_asg (path_append prefix [item]) (scalar_value ft)]) (sa_env acc) defs')
  else
    do cs <- with_type_constraints arg (scalar_constraints (f_type f)) ;
    Ok (mkSfa args' (sa_asgs acc ++ [mkAssignment (path_append prefix [item]) (AValue (Some arg) DNil None) method cs []]) (sa_env acc) defs').

Fixpoint foldM {A B} (f : A -> B -> res A) (l : list B) (a : A) : res A :=
  match l with [] => Ok a | x :: r => do a' <- f a x ; foldM f r a' end.

Definition struct_fields_as_arguments_action (ss : schemas) (explicit : option (list string)) (o : boption) : res (list boption) :=
  match op_args o with
  | [] => Ok [o]
  | a0 :: other_args =>
      match first_arg_struct ss (a_type a0) with
      | TStruct _ _ fs =>
          match op_assignments o with
          | [] => Panic "index out of range [0] with length 0"
          | first :: other_asgs =>
              match last_item (as_path first) with
              | None => Panic "index out of range [-1]"
              | Some lastit =>
                  let into_list := is_array (pi_type lastit) in
                  let defaults := dmap_entries (op_default o) in
                  do acc <- foldM (sfa_field (as_path first) into_list (as_method first) defaults)
                                  (filter (field_selected explicit) fs) (mkSfa [] [] [] []) ;
                  let asgs := if into_list
                              then [mkAssignment (as_path first)
                                                 (AValue None DNil (Some (match pi_type lastit with TArray _ v => v | t => t end, sa_env acc)))
                                                 "append" [] []]
                              else sa_asgs acc in
                  let dflt := match sa_defs acc with [] => None | l => Some l end in
                  Ok [mkOption (op_name o) (op_comments o)
                               (match other_args with [] => sa_args acc | _ => sa_args acc ++ other_args end)
                               (match other_args with [] => asgs | _ => asgs ++ other_asgs end) dflt]
              end
          end
      | _ => Ok [o]
      end
  end.

(* StructFieldsAsOptionsAction *)
Definition field_option (prefix : path) (f : field) : res boption :=
  let arg := mkArg (f_name f) (f_type f) in
  do cs <- with_type_constraints arg (scalar_constraints (f_type f)) ;
  Ok (mkOption (f_name f) (f_comments f) [arg]
               [mkAssignment (path_append prefix (path_from_struct_field f)) (AValue (Some arg) DNil None) "direct" cs []]
               (match dflt (ty_attrs (f_type f)) with DNil => None | d => Some [d] end)).
Definition struct_fields_as_options_action (ss : schemas) (explicit : option (list string)) (o : boption) : res (list boption) :=
  match op_args o with
  | [] => Ok [o]
  | a0 :: _ =>
      match first_arg_struct ss (a_type a0) with
      | TStruct _ _ fs =>
          match op_assignments o with
          | [] => Panic "index out of range [0] with length 0"
          | first :: _ => mapM (field_option (as_path first)) (filter (field_selected explicit) fs)
          end
      | _ => Ok [o]
      end
  end.

(* disjunctionAsOptions / disjunctionStructAsOptions: one deep copy of the option per branch *)
Fixpoint replace_first_using (argname : string) (mk : assignment -> assignment) (l : list assignment) : list assignment :=
  match l with
  | [] => []
  | a :: r => match as_arg a with
              | Some x => if seqb (a_name x) argname then mk a :: r else a :: replace_first_using argname mk r
              | None => a :: replace_first_using argname mk r
              end
  end.
Definition disjunction_branch_option (o : boption) (idx : nat) (target : argument)
                                     (name : string) (arg : argument) (dfl : dyn) (mk : assignment -> assignment) : boption :=
  let clone := option_deep_copy o in
  mkOption name [] (firstn idx (op_args clone) ++ [arg] ++ skipn (S idx) (op_args o))
           (replace_first_using (a_name target) mk (op_assignments clone))
           (match dfl with DNil => None | d => Some [d] end).

Definition disjunction_as_options_action (ss : schemas) (idx : Z) (o : boption) : res (list boption) :=
  match op_args o with
  | [] => Ok [o]
  | _ =>
      if (idx <? 0)%Z then Panic "index out of range" else
      match nth_error (op_args o) (Z.to_nat idx) with
      | None => Panic "index out of range"
      | Some target =>
          match a_type target with
          | TDisj _ d =>
              Ok (map (fun br =>
                    let nm := lower_camel_case (type_name br) in
                    let arg := mkArg nm br in
                    disjunction_branch_option o (Z.to_nat idx) target nm arg (dflt (ty_attrs br))
                      (fun a => mkAssignment (as_path a) (AValue (Some arg) DNil None) (as_method a) [] []))
                  (d_branches d))
          | TRef _ _ _ =>
              let referred := resolve_total ss (a_type target) in
              if is_struct_generated_from_disjunction referred then
                Ok (map (fun f =>
                      let arg := mkArg (f_name f) (f_type f) in
                      disjunction_branch_option o (Z.to_nat idx) target (f_name f) arg (dflt (ty_attrs (f_type f)))
                        (fun a => mkAssignment (as_path a)
                                    (AValue None DNil (Some (a_type target, [(path_from_struct_field f, AValue (Some arg) DNil None)])))
                                    (as_method a) [] []))
                    (struct_fields referred))
              else Ok [o]
          | _ => Ok [o]
          end
      end
  end.

(* UnfoldBooleanAction *)
Definition unfold_boolean_action (tname fname : string) (o : boption) : res (list boption) :=
  match op_assignments o with
  | [] => Panic "index out of range [0] with length 0"
  | first :: _ =>
      match last_item (as_path first) with
      | None => Panic "index out of range [-1]"
      | Some it =>
          if is_bool_scalar (pi_type it) then
            do dd <- match op_default o with
                     | None => Ok (None, None)
                     | Some [] => Panic "index out of range [0] with length 0"
                     | Some (DBool true :: _) => Ok (Some [], None)
                     | Some (_ :: _) => Ok (None, Some [])
                     end ;
            Ok [mkOption tname (op_comments o) [] [constant_asg (as_path first) (DBool true)] (fst dd);
                mkOption fname (op_comments o) [] [constant_asg (as_path first) (DBool false)] (snd dd)]
          else Ok [o]
      end
  end.

Definition duplicate_action (n : string) (o : boption) : list boption := [o; set_oname (option_deep_copy o) n].

(* AddAssignmentAction: errors are swallowed (they only go to the veneer trail) *)
Definition add_assignment_action (ss : schemas) (b : builder) (a : vassignment) (o : boption) : res (list boption) :=
  match vassignment_as_ir ss [b] b a with
  | Ok ir => Ok [set_oassignments o (op_assignments o ++ [ir])]
  | Err _ => Ok [o]
  | Panic w => Panic w
  | OutOfFuel => OutOfFuel
  end.

Definition add_comments_action (cs : list string) (o : boption) : list boption := [set_ocomments o (op_comments o ++ cs)].

Definition run_action (ss : schemas) (act : oaction) (b : builder) (o : boption) : res (list boption) :=
  match act with
  | AOmit => Ok []
  | ARename n => Ok (rename_action n o)
  | ARenameArguments names => Ok (rename_arguments_action names o)
  | AUnfoldBoolean tn fn => unfold_boolean_action tn fn o
  | AStructFieldsAsArguments fs => struct_fields_as_arguments_action ss fs o
  | AStructFieldsAsOptions fs => struct_fields_as_options_action ss fs o
  | AArrayToAppend => array_to_append_action o
  | AMapToIndex => map_to_index_action o
  | ADisjunctionAsOptions i => disjunction_as_options_action ss i o
  | ADuplicate n => Ok (duplicate_action n o)
  | AAddAssignment a => add_assignment_action ss b a o
  | AAddComments cs => Ok (add_comments_action cs o)
  end.

(* ---------------------------------------------------------------- Rewriter.applyOptionRules *)
Definition option_step (ss : schemas) (r : orule) (b : builder) (o : boption) : res (list boption) :=
  if sel_option (or_sel r) b o then run_action ss (or_action r) b o else Ok [o].
Definition process_options (ss : schemas) (r : orule) (b : builder) : res (list boption) :=
  do outs <- mapM (option_step ss r b) (b_options b) ; Ok (List.concat outs).
Definition apply_option_rule (ss : schemas) (r : orule) (bs : list builder) : res (list builder) :=
  mapM (fun b => do os <- process_options ss r b ; Ok (set_options b os)) bs.

(* ---------------------------------------------------------------- Rewriter.ApplyTo *)
Definition has_options (b : builder) : bool := match b_options b with [] => false | _ => true end.

Fixpoint apply_builder_rules (ss : schemas) (rs : list brule) (bs : list builder) : res (list builder) :=
  match rs with
  | [] => Ok bs
  | r :: rest => do bs' <- apply_builder_rule ss r bs ; apply_builder_rules ss rest bs'
  end.
Fixpoint apply_option_rules_go (ss : schemas) (rs : list orule) (bs : list builder) : res (list builder) :=
  match rs with
  | [] => Ok bs
  | r :: rest => do bs' <- apply_option_rule ss r bs ; apply_option_rules_go ss rest bs'
  end.
(* applyOptionRules: every rule over every builder, then builders left without option are dropped *)
Definition apply_option_rules (ss : schemas) (rs : list orule) (bs : list builder) : res (list builder) :=
  do out <- apply_option_rules_go ss rs bs ; Ok (filter has_options out).

(* one language pass: builder rules, then option rules *)
Definition apply_language (ss : schemas) (lrs : list language_rules) (l : string) (bs : list builder) : res (list builder) :=
  do bs1 <- apply_builder_rules ss (builder_rules_for l lrs) bs ;
  apply_option_rules ss (option_rules_for l lrs) bs1.

Definition all_languages : string := "all".

(* Rewriter.ApplyTo: the rules common to all languages, then the language's own *)
Definition apply_to_rules (ss : schemas) (lrs : list language_rules) (language : string) (bs : list builder) : res (list builder) :=
  do out <- apply_language ss lrs all_languages bs ;
  apply_language ss lrs language out.

(* the whole thing: load the rule files, apply them to what FromAST derived *)
Definition apply_to (ss : schemas) (files : list vfile) (language : string) (bs : list builder) : res (list builder) :=
  if negb (aliases_acyclic ss) then OutOfFuel else
  do lrs <- rewriter_from files ;
  apply_to_rules ss lrs language bs.
