(* Specifications for the OpenAPI front-end theorems (definitions only); the JSON Schema counterparts are in
   Model/FrontEndSpec.v and are reused where the meaning is the same.

   ir_accepts_n ctx d t : ir_accepts (Model/FrontEndSpec.v) for an IR that records nullability in the `nullable`
     attribute of a type (what the OpenAPI front-end does after fix 7fed413) instead of a disjunction with the
     `null` scalar: null is accepted at a position whose type (or one of the alternatives it stands for) is marked
     nullable; everything else as ir_accepts.
   src_wf_oa             : the decidable well-formedness of the construct grammar the theorems quantify over.
   oa_field_kept         : required flag, nullability and constraints of one struct member coincide in the Src schema
     and in the IR parse_openapi produces (`minLength: 0`, vacuous, is not recorded by cog and not expected). *)
From Coq Require Import List String ZArith Bool Ascii.
From Cog Require Import Model.IR Model.Json Model.GoSemBase Model.GoSemValidate Model.Src Model.FrontEnd Model.FrontEndSpec.
Import ListNotations.
Local Open Scope list_scope.
Local Open Scope string_scope.

Definition is_jnull (j : json) : bool := match j with JNull => true | _ => false end.

Fixpoint ir_accepts_n (ctx : schemas) (j : json) (t : ty) {struct j} : bool :=
  ((is_jnull j && nullable (ty_attrs t)) ||
   existsb (fun alt =>
     ((is_jnull j && nullable (ty_attrs alt)) ||
      match alt with
      | TScalar a k v cs => scalar_accepts alt a k v cs j
      | TEnum _ vs => existsb (fun ev => const_matches (ev_value ev) j) vs
      | TArray _ et => match j with JArr l => forallb (fun x => ir_accepts_n ctx x et) l | _ => false end
      | TMap _ _ vt => match j with JObj ms => forallb (fun kv => ir_accepts_n ctx (snd kv) vt) ms | _ => false end
      | TStruct _ _ fs =>
          match j with
          | JObj ms =>
              (str_nodup (map fst ms) &&
               forallb (fun kv => match find (fun f => seqb (f_name f) (fst kv)) fs with
                                  | Some f => ir_accepts_n ctx (snd kv) (f_type f)
                                  | None => false
                                  end) ms &&
               forallb (fun f => (negb (f_required f) || str_in (f_name f) (map fst ms))%bool) fs)%bool
          | _ => false
          end
      | _ => false
      end)%bool) (alternatives ctx (alt_fuel ctx) t))%bool.

Definition ir_accepts_n_doc (ctx : schemas) (p n : string) (j : json) : bool :=
  match j with JNull => false | _ => ir_accepts_n ctx j (TRef attrs0 p n) end.

(* ---------- the grammar the theorems quantify over ---------- *)
Definition parse_ctx_oa (s : src_schema) : schemas := match parse_openapi s with FOk c => c | _ => [] end.

Definition src_wf_oa (s : src_schema) : bool :=
  (oa_schema_supported s && forallb (fun d => ty_wf (src_defs s) (snd d)) (src_defs s))%bool.

Definition oa_acceptance_agrees (s : src_schema) (tname : string) (d : json) : bool :=
  Bool.eqb (src_valid_doc "openapi" s tname d) (ir_accepts_n_doc (parse_ctx_oa s) (src_pkg s) tname d).

(* one element of the stream of checks/c01.py: (schema, format, type, document, reference verdict) *)
Definition fe_oa_accept_in_domain (c : src_schema * string * string * json * bool) : bool :=
  let '(s, fmt, tname, j, _) := c in
  (seqb fmt "openapi" && src_wf_oa s && json_ints_int64 j && json_wf j && str_in tname (map fst (src_defs s)))%bool.
Definition fe_oa_accept_disagrees (c : src_schema * string * string * json * bool) : bool :=
  let '(s, fmt, tname, j, _) := c in
  (fe_oa_accept_in_domain c && negb (oa_acceptance_agrees s tname j))%bool.

(* ---------- field facts (parse_openapi_keeps_constraints) ---------- *)
(* what the Src type asks for, in the IR's vocabulary: bounds of an `integer` as integers, bounds of a `number` as
   decimals, lengths as integers.  A constraint every value meets is not a constraint: cog's getConstraints skips
   `minLength: 0`.  A one-branch union is its branch (ir_core unwraps it on the IR side). *)
Definition zcstr (op : string) (z : Z) : constraint := cstr op (DInt "int64" z).
Definition oa_scalar_constraints (t : src_ty) : list constraint :=
  match t with
  | SInt _ ge gt le lt => opt_list ge (zcstr ">=") ++ opt_list gt (zcstr ">") ++ opt_list le (zcstr "<=") ++ opt_list lt (zcstr "<")
  | SFloat _ ge gt le lt => js_bounds ge gt le lt
  | SString mn mx =>
      (match mn with Some n => if Z.ltb 0 n then [zcstr "minLength" n] else [] | None => [] end) ++ opt_list mx (zcstr "maxLength")
  | _ => []
  end.
Definition oa_src_constraints (t : src_ty) : list constraint :=
  match t with SUnion [b] => oa_scalar_constraints b | _ => oa_scalar_constraints t end.
(* constraints compared by operator and by the VALUE of their arguments (the Go kind of an integer argument - int, int64,
   uint64 - is not a fact of the schema) *)
Definition dyn_same (a b : dyn) : bool :=
  match a, b with DInt _ x, DInt _ y => Z.eqb x y | _, _ => dyn_eqv a b end.
Definition constraint_same (a b : constraint) : bool := (seqb (c_op a) (c_op b) && leqv dyn_same (c_args a) (c_args b))%bool.
Definition constraints_same (a b : list constraint) : bool := leqv constraint_same a b.
(* nullability of the IR member: the attribute, or (never produced by parse_openapi, kept for symmetry) a null branch *)
Definition ir_nullable (t : ty) : bool := (nullable (ty_attrs t) || ir_offers_null t)%bool.

Definition oa_field_kept (s : src_schema) (obj : string) (f : sfield) : bool :=
  match ir_field (parse_ctx_oa s) (src_pkg s) obj (sf_name f) with
  | Some fld =>
      (Bool.eqb (f_required fld) (sf_req f) && Bool.eqb (ir_nullable (f_type fld)) (sf_null f) &&
       constraints_same (ir_constraints (f_type fld)) (oa_src_constraints (sf_type f)))%bool
  | None => false
  end.
Definition oa_schema_fields_kept (s : src_schema) : bool :=
  forallb (fun d => match snd d with
                    | SStruct fs => forallb (oa_field_kept s (fst d)) fs
                    | _ => true end) (src_defs s).
