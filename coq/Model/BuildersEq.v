(* Decidable equality on the builder IR and the case checker of the `builders` stream (C16). *)
From Cog Require Export Model.Builders Model.IREq.
Local Open Scope list_scope.

Definition opt_eqb {A} (e : A -> A -> bool) (a b : option A) : bool :=
  match a, b with Some x, Some y => e x y | None, None => true | _, _ => false end.

Definition argument_eqb (a b : argument) := seqb (a_name a) (a_name b) && ty_eqb (a_type a) (a_type b).
Definition pathindex_eqb (a b : pathindex) :=
  opt_eqb argument_eqb (px_arg a) (px_arg b) && dyn_eqb (px_const a) (px_const b).
Definition pathitem_eqb (a b : pathitem) :=
  seqb (pi_id a) (pi_id b) && opt_eqb pathindex_eqb (pi_index a) (pi_index b) && ty_eqb (pi_type a) (pi_type b)
  && opt_eqb ty_eqb (pi_typehint a) (pi_typehint b) && Bool.eqb (pi_root a) (pi_root b).
Definition path_eqb := leqb pathitem_eqb.

Fixpoint avalue_eqb (a b : avalue) : bool :=
  match a, b with
  | AValue x c e, AValue y d f =>
      opt_eqb argument_eqb x y && dyn_eqb c d &&
      match e, f with
      | Some (t, vs), Some (u, ws) =>
          ty_eqb t u && leqb (fun p q => path_eqb (fst p) (fst q) && avalue_eqb (snd p) (snd q)) vs ws
      | None, None => true
      | _, _ => false
      end
  end.

Definition aconstraint_eqb (a b : aconstraint) :=
  argument_eqb (ac_arg a) (ac_arg b) && seqb (ac_op a) (ac_op b) && dyn_eqb (ac_param a) (ac_param b).
Definition nilcheck_eqb (a b : nilcheck) := path_eqb (nc_path a) (nc_path b) && ty_eqb (nc_empty a) (nc_empty b).
Definition assignment_eqb (a b : assignment) :=
  path_eqb (as_path a) (as_path b) && avalue_eqb (as_value a) (as_value b) && seqb (as_method a) (as_method b)
  && leqb aconstraint_eqb (as_constraints a) (as_constraints b) && leqb nilcheck_eqb (as_nilchecks a) (as_nilchecks b).
Definition boption_eqb (a b : boption) :=
  seqb (op_name a) (op_name b) && leqb seqb (op_comments a) (op_comments b)
  && leqb argument_eqb (op_args a) (op_args b) && leqb assignment_eqb (op_assignments a) (op_assignments b)
  && opt_eqb (leqb dyn_eqb) (op_default a) (op_default b).
Definition constructor_eqb (a b : constructor) :=
  leqb argument_eqb (ct_args a) (ct_args b) && leqb assignment_eqb (ct_assignments a) (ct_assignments b).

Fixpoint ocparam_eqb (a b : ocparam) : bool :=
  match a, b with
  | OCParam x c f, OCParam y d g =>
      opt_eqb argument_eqb x y &&
      opt_eqb (fun p q => ty_eqb (fst p) (fst q) && dyn_eqb (snd p) (snd q)) c d &&
      match f, g with
      | Some (p1, b1, f1, ps), Some (p2, b2, f2, qs) =>
          seqb p1 p2 && seqb b1 b2 && seqb f1 f2 && leqb ocparam_eqb ps qs
      | None, None => true
      | _, _ => false
      end
  end.
Definition optioncall_eqb (a b : optioncall) := seqb (oc_name a) (oc_name b) && leqb ocparam_eqb (oc_params a) (oc_params b).
Definition factory_eqb (a b : factory) :=
  seqb (fa_name a) (fa_name b) && leqb seqb (fa_comments a) (fa_comments b)
  && leqb argument_eqb (fa_args a) (fa_args b) && leqb optioncall_eqb (fa_calls a) (fa_calls b).
Definition field_eqb (f g : field) :=
  seqb (f_name f) (f_name g) && leqb seqb (f_comments f) (f_comments g) && ty_eqb (f_type f) (f_type g)
  && Bool.eqb (f_required f) (f_required g).
Definition builder_eqb (a b : builder) :=
  object_eqb (b_for a) (b_for b) && seqb (b_pkg a) (b_pkg b) && seqb (b_name a) (b_name b)
  && leqb field_eqb (b_props a) (b_props b) && constructor_eqb (b_ctor a) (b_ctor b)
  && leqb boption_eqb (b_options a) (b_options b) && leqb factory_eqb (b_factories a) (b_factories b).
Definition builders_eqb := leqb builder_eqb.

Definition indices {A} (bad : A -> bool) (cs : list A) : list nat :=
  (fix go (i : nat) (cs : list A) : list nat :=
     match cs with
     | [] => []
     | c :: r => if bad c then i :: go (S i) r else go (S i) r
     end) 0 cs.

(* case: input schemas, what the real FromAST returned *)
Definition bcase := (schemas * res (list builder))%type.
Definition builders_mismatch (c : bcase) : bool :=
  negb (res_eqb builders_eqb (from_ast (fst c)) (snd c)).
