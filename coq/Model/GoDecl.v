(* The declarations the Go types jenny emits for a context (property C02).  Definitions only.

   Mirrors internal/jennies/golang: types.go (formatTypeDeclaration, formatEnumDef, doFormatType, formatField,
   formatRef, formatConstantRef, formatIntersection), rawtypes.go (generateSchema: which methods are printed under
   which options; generateConstructor), tools.go (formatScalar = %#v of the Go value), strictjson.go / equality.go /
   validation.go / jsonmarshalling.go (conditions under which a method is printed) and the references to methods
   of OTHER types that the method templates print (Equals / Validate / UnmarshalJSONStrict of referenced structs).
   What the Go toolchain does with these declarations is not modelled: `decls_wf` is the part of "type-checks" that
   is cog's own responsibility -- every named type used is declared, no identifier is declared twice in a package,
   no struct has two fields of one name, every method a generated body calls is printed under the same option
   vector, scalar default literals have the type of their field, no placeholder text is printed. *)
From Coq Require Import List String ZArith Bool Ascii.
From Cog Require Import Model.IR Model.Names Model.Json Model.GoSemBase.
Import ListNotations.
Local Open Scope list_scope.
Local Open Scope string_scope.

(* ---------- the option vector of the Go jenny (golang.Config + the global `builders`) ---------- *)
Record go_flags := mkFlags
  { gf_json : bool ; gf_strict : bool ; gf_equal : bool ; gf_validate : bool ;
    gf_any_as_interface : bool ; gf_skip_runtime : bool ; gf_builders : bool }.

Definition bools : list bool := [false; true].
Definition all_flags : list go_flags :=
  flat_map (fun a => flat_map (fun b => flat_map (fun c => flat_map (fun d => flat_map (fun e => flat_map (fun f =>
    map (fun g => mkFlags a b c d e f g) bools) bools) bools) bools) bools) bools) bools.

(* ---------- Go types as printed ---------- *)
Inductive gotype :=
| GTNamed (pkg name : string)          (* pkg: the IR package of the declaring schema *)
| GTBuiltin (name : string)            (* string, int64, bool, any, interface{}, time.Time, []byte ... *)
| GTVariant (name : string)            (* cog/variants.<Name>: the runtime's interface of a composable slot *)
| GTPtr (t : gotype)
| GTSlice (t : gotype)
| GTMap (k v : gotype)
| GTStruct (fields : list (string * gotype)) (embedded : list gotype)
| GTPlaceholder (text : string).

Definition format_object_name (n : string) : string := upper_camel_case n.
Definition format_field_name (n : string) : string := upper_camel_case n.

Definition scalar_type_name (t : ty) (k : skind) : gotype :=
  match k with
  | KBytes => GTBuiltin "[]byte"
  | _ =>
      let base := if has_hint t "string_format_datetime" then GTBuiltin "time.Time" else GTBuiltin (skind_name k) in
      if nullable (ty_attrs t) then GTPtr base else base
  end.

(* a reference used as a FIELD type whose target is a constant is printed as the constant's scalar type *)
Definition field_type_subst (ctx : schemas) (t : ty) : ty :=
  match t with
  | TRef _ _ _ => match resolve ctx t with
                  | Some rt => if is_concrete_scalar rt then rt else t
                  | None => t
                  end
  | _ => t
  end.

Definition format_type_scalar (fl : go_flags) (t : ty) : gotype :=
  match t with
  | TScalar _ KAny _ _ => GTBuiltin (if gf_any_as_interface fl then "interface{}" else "any")
  | TScalar _ k _ _ => scalar_type_name t k
  | _ => GTPlaceholder "unknown"
  end.

Definition struct_fields_of (g : gotype) : list (string * gotype) :=
  match g with
  | GTStruct fs _ => fs
  | GTPtr (GTStruct fs _) => fs
  | _ => []
  end.

(* doFormatType (resolveBuilders = false) *)
Fixpoint format_type (fl : go_flags) (ctx : schemas) (t : ty) {struct t} : gotype :=
  match t with
  | TScalar _ KAny _ _ => GTBuiltin (if gf_any_as_interface fl then "interface{}" else "any")
  | TSlot _ v => GTVariant (format_object_name v)
  | TArray _ v => GTSlice (format_type fl ctx v)
  | TMap _ i v => GTMap (format_type fl ctx i) (format_type fl ctx v)
  | TScalar _ k _ _ => scalar_type_name t k
  | TRef a p n => if nullable a then GTPtr (GTNamed p (format_object_name n)) else GTNamed p (format_object_name n)
  | TConstRef _ p n _ => GTNamed p (format_object_name n)
  | TStruct a _ fs =>
      let body := GTStruct (map (fun f => (format_field_name (f_name f),
                                           match field_type_subst ctx (f_type f) with
                                           | TScalar _ _ _ _ as st => format_type_scalar fl st
                                           | _ => format_type fl ctx (f_type f)
                                           end)) fs) [] in
      if nullable a then GTPtr body else body
  | TInter _ bs =>
      (* struct branches contribute their fields (formatField, as in a struct body), references are embedded,
         anything else is printed as an embedded type *)
      GTStruct (flat_map (fun b => match b with
                                   | TStruct _ _ _ => struct_fields_of (format_type fl ctx b)
                                   | _ => []
                                   end) bs)
               (flat_map (fun b => match b with
                                   | TStruct _ _ _ => []
                                   | TRef a p n => [GTNamed p (format_object_name n)]      (* formatRef: embedded *)
                                   | _ => [format_type fl ctx b]
                                   end) bs)
  | TDisj _ _ | TEnum _ _ | TBad _ _ => GTPlaceholder "unknown"       (* "FIXME: we should never be here" *)
  end.

(* ---------- literals: tools.go formatScalar = fmt.Sprintf("%#v") ---------- *)
Inductive golit :=
| LNil
| LBool (b : bool)
| LInt (z : Z)
| LFloat (repr : string)
| LStr (s : string)                    (* a quoted Go string: also what %#v prints for a json.Number *)
| LStrSlice (items : list golit)       (* []string{...}: what the printer emits for ANY list *)
| LOther (text : string).

Fixpoint format_scalar_lit (d : dyn) : golit :=
  match d with
  | DNil => LNil
  | DBool b => LBool b
  | DInt _ z => LInt z
  | DFloat gt r => if seqb gt "json.Number" then LStr r else LFloat r
  | DStr s => LStr s
  | DList l => LStrSlice (map format_scalar_lit l)
  | DMap _ => LOther "map[string]interface {}{...}"
  | DOther _ r => LOther r
  end.

(* the literal is assignable to a variable of the scalar kind (untyped constants convert) *)
Definition lit_fits_kind (k : skind) (l : golit) : bool :=
  match l, k with
  | LBool _, KBool => true
  | LStr _, KString => true
  | LInt z, _ => match int_range k with
                 | Some (lo, hi) => (Z.leb lo z && Z.leb z hi)%bool
                 | None => is_float_kind k
                 end
  | LFloat _, (KFloat32 | KFloat64) => true
  | _, KAny => match l with LOther _ => false | _ => true end
  | _, _ => false
  end.

(* the default has the dynamic Go type of the scalar kind (what every front-end but the JSON Schema one produces) *)
Definition dyn_fits_kind (k : skind) (d : dyn) : bool :=
  match d, k with
  | DBool _, KBool => true
  | DStr _, KString => true
  | DInt gt z, _ => (seqb gt (skind_name k) && match int_range k with
                                               | Some (lo, hi) => (Z.leb lo z && Z.leb z hi)%bool
                                               | None => false end)%bool
  | DFloat gt _, (KFloat32 | KFloat64) => seqb gt (skind_name k)
  | _, _ => false
  end.

(* ---------- declarations ---------- *)
Inductive godecl :=
| DType (name : string) (t : gotype)            (* type X T   /   type X = T *)
| DConst (name : string) (tname : string)       (* const X = v   /   X EnumType = v *)
| DFunc (name : string)                         (* func NewX() *X *)
| DMethod (recv name : string)
| DBroken (text : string).                      (* text that is not Go at all *)

Definition cleanup_names (s : string) : string :=
  (fix go (s : string) : string :=
     match s with
     | EmptyString => EmptyString
     | String c r => if is_alnum c then String c (go r) else go r
     end) s.

Definition is_struct_from_disjunction (t : ty) : bool :=
  match t with
  | TStruct _ dh _ => (alist_has dh "disjunction_of_scalars" || alist_has dh "disjunction_of_refs")%bool
  | _ => false
  end.

Definition resolves_to_struct (ctx : schemas) (t : ty) : bool :=
  match t with
  | TRef _ _ _ => match resolve ctx t with Some (TStruct _ _ _) => true | _ => false end
  | _ => false
  end.

Fixpoint has_slot_field (ctx : schemas) (fs : list field) : bool :=
  match fs with
  | [] => false
  | f :: r => (match f_type f with
               | TSlot _ _ => true
               | TArray _ (TSlot _ _) => true
               | _ => false
               end || has_slot_field ctx r)%bool
  end.

(* the methods printed on every struct object under the option vector fl (rawtypes.go generateSchema) *)
Definition common_methods (fl : go_flags) : list string :=
  (if (negb (gf_skip_runtime fl) && gf_json fl && gf_strict fl)%bool then ["UnmarshalJSONStrict"] else []) ++
  (if gf_equal fl then ["Equals"] else []) ++
  (if (negb (gf_skip_runtime fl) && (gf_builders fl || gf_validate fl))%bool then ["Validate"] else []).

(* ... and those that depend on the object: the custom (un)marshalers of jsonmarshalling.go *)
Definition custom_methods (fl : go_flags) (ctx : schemas) (o : object) : list string :=
  match o_type o with
  | TStruct _ _ fs =>
      (if (gf_json fl && is_struct_from_disjunction (o_type o))%bool then ["MarshalJSON"] else []) ++
      (if (gf_json fl && (is_struct_from_disjunction (o_type o) || has_slot_field ctx fs))%bool then ["UnmarshalJSON"] else [])
  | _ => []
  end.

Definition methods_of (fl : go_flags) (ctx : schemas) (o : object) : list string :=
  if is_struct (o_type o) then custom_methods fl ctx o ++ common_methods fl else [].

(* formatTypeDeclaration + generateConstructor + the method generators *)
Definition decls_of_object (fl : go_flags) (ctx : schemas) (o : object) : list godecl :=
  let name := format_object_name (o_name o) in
  let ctor := fun b : bool => if b then [DFunc ("New" ++ name)] else [] in
  match o_type o with
  | TEnum _ vs =>
      DType name (match vs with v :: _ => format_type fl ctx (ev_type v) | [] => GTPlaceholder "panic: Values[0]" end)
      :: map (fun v => DConst (cleanup_names (format_object_name (ev_name v))) name) vs
  | TScalar _ k v _ =>
      if negb (dyn_is_nil v) then [DConst name ""]
      else [DType name (match k with KBytes => GTBuiltin "[]byte" | _ => format_type fl ctx (o_type o) end)]
  | TRef _ p n =>
      (* generateConstructor looks ONE reference ahead: the referred object itself must be a struct *)
      DType name (format_type fl ctx (o_type o))
      :: ctor (match locate_object ctx p n with Some o' => is_struct (o_type o') | None => false end)
  | TMap _ _ _ | TArray _ _ | TInter _ _ => [DType name (format_type fl ctx (o_type o))]
  | TStruct _ _ _ =>
      DType name (format_type fl ctx (o_type o)) :: DFunc ("New" ++ name)
      :: map (fun m => DMethod name m) (methods_of fl ctx o)
  | t => [DBroken ("unhandled type def kind: " ++ kind_name t)]
  end.

Definition decls_of_schema (fl : go_flags) (ctx : schemas) (s : schema) : list godecl :=
  flat_map (fun ko => decls_of_object fl ctx (snd ko)) (s_objects s).

(* ---------- what the generated method bodies call on OTHER types ---------- *)
(* the object an alias chain ends in (`type A = B` shares B's method set) *)
Fixpoint final_object (ctx : schemas) (fuel : nat) (p n : string) : option (string * string) :=
  match locate_object ctx p n with
  | Some o =>
      match o_type o with
      | TRef _ p' n' => match fuel with O => None | S f => final_object ctx f p' n' end
      | _ => Some (p, n)
      end
  | None => None
  end.

(* struct objects reached from a field type through arrays, maps and references (what the templates walk) *)
Fixpoint struct_targets (ctx : schemas) (t : ty) : list (string * string) :=
  match t with
  | TRef _ p n =>
      match final_object ctx (S (count_objects ctx)) p n with
      | Some (p', n') => match locate_object ctx p' n' with
                         | Some o' => if is_struct (o_type o') then [(p', n')] else []
                         | None => []
                         end
      | None => []
      end
  | TArray _ v => struct_targets ctx v
  | TMap _ _ v => struct_targets ctx v
  | _ => []
  end.

(* (package, object, method) called by the bodies printed for o *)
Definition calls_of (fl : go_flags) (ctx : schemas) (o : object) : list (string * string * string) :=
  match o_type o with
  | TStruct _ _ fs =>
      let targets := flat_map (fun f => struct_targets ctx (f_type f)) fs in
      flat_map (fun m =>
                  if (seqb m "Equals" || seqb m "Validate" || seqb m "UnmarshalJSONStrict")%bool
                  then map (fun pn => (fst pn, snd pn, m)) targets else [])
               (methods_of fl ctx o)
  | _ => []
  end.

(* ---------- well-formedness of the declarations of a context ---------- *)
Fixpoint named_uses (t : gotype) : list (string * string) :=
  match t with
  | GTNamed p n => [(p, n)]
  | GTPtr x | GTSlice x => named_uses x
  | GTMap k v => named_uses k ++ named_uses v
  | GTStruct fs em => flat_map (fun nf => named_uses (snd nf)) fs ++ flat_map named_uses em
  | _ => []
  end.

Fixpoint placeholders_in (t : gotype) : list string :=
  match t with
  | GTPlaceholder x => [x]
  | GTPtr x | GTSlice x => placeholders_in x
  | GTMap k v => placeholders_in k ++ placeholders_in v
  | GTStruct fs em => flat_map (fun nf => placeholders_in (snd nf)) fs ++ flat_map placeholders_in em
  | _ => []
  end.

(* an embedded field must be a (qualified, possibly pointed-to) type name: anything else is not Go *)
Definition embeddable (t : gotype) : bool :=
  match t with
  | GTNamed _ _ | GTVariant _ => true
  | GTBuiltin n => negb (seqb n "[]byte" || seqb n "interface{}")%bool
  | GTPtr (GTNamed _ _) => true
  | GTPtr (GTBuiltin n) => negb (seqb n "[]byte" || seqb n "interface{}")%bool
  | _ => false
  end.
Fixpoint unparsable_in (t : gotype) : list string :=
  match t with
  | GTPtr x | GTSlice x => unparsable_in x
  | GTMap k v => unparsable_in k ++ unparsable_in v
  | GTStruct fs em =>
      flat_map (fun nf => unparsable_in (snd nf)) fs ++
      flat_map (fun e => if embeddable e then [] else ["embedded type that is not a type name"]) em
  | _ => []
  end.

(* an embedded field is named after its type *)
Definition embedded_name (t : gotype) : list string :=
  match t with
  | GTNamed _ n | GTVariant n | GTBuiltin n => [n]
  | GTPtr (GTNamed _ n) | GTPtr (GTBuiltin n) => [n]
  | _ => []
  end.

Fixpoint struct_fields_distinct (t : gotype) : bool :=
  match t with
  | GTPtr x | GTSlice x => struct_fields_distinct x
  | GTMap k v => (struct_fields_distinct k && struct_fields_distinct v)%bool
  | GTStruct fs em =>
      (str_nodup (map fst fs ++ flat_map embedded_name em) && forallb (fun nf => struct_fields_distinct (snd nf)) fs)%bool
  | _ => true
  end.

(* identifiers declared at package scope *)
Definition scope_name (d : godecl) : list string :=
  match d with
  | DType n _ | DConst n _ | DFunc n => [n]
  | _ => []
  end.
Definition type_names (ds : list godecl) : list string :=
  flat_map (fun d => match d with DType n _ => [n] | _ => [] end) ds.
Definition decl_types (ds : list godecl) : list gotype :=
  flat_map (fun d => match d with DType _ t => [t] | _ => [] end) ds.
Definition decl_methods (ds : list godecl) : list (string * string) :=
  flat_map (fun d => match d with DMethod r m => [(r, m)] | _ => [] end) ds.
Definition decl_broken (ds : list godecl) : list string :=
  flat_map (fun d => match d with DBroken x => [x] | DType _ t => unparsable_in t | _ => [] end) ds.

Definition type_declared (fl : go_flags) (ctx : schemas) (pn : string * string) : bool :=
  match locate ctx (fst pn) with
  | Some s => str_in (snd pn) (type_names (decls_of_schema fl ctx s))
  | None => false
  end.

Definition method_declared (fl : go_flags) (ctx : schemas) (pnm : string * string * string) : bool :=
  let '(p, n, m) := pnm in
  match locate_object ctx p n with
  | Some o => str_in m (methods_of fl ctx o)
  | None => false
  end.

Record decls_report := mkReport
  { r_undeclared : list (string * string) ;      (* named types used but not declared *)
    r_duplicates : bool ;                        (* an identifier declared twice at package scope *)
    r_field_clash : bool ;                       (* a struct with two fields of one name *)
    r_missing_methods : list (string * string * string) ;
    r_placeholders : list string }.

Definition report (fl : go_flags) (ctx : schemas) (s : schema) : decls_report :=
  let ds := decls_of_schema fl ctx s in
  mkReport
    (filter (fun pn => negb (type_declared fl ctx pn)) (flat_map named_uses (decl_types ds)))
    (negb (str_nodup (flat_map scope_name ds)))
    (negb (forallb struct_fields_distinct (decl_types ds)))
    (filter (fun c => negb (method_declared fl ctx c)) (flat_map (fun ko => calls_of fl ctx (snd ko)) (s_objects s)))
    (flat_map placeholders_in (decl_types ds)).

Definition report_ok (r : decls_report) : bool :=
  (match r_undeclared r with [] => true | _ => false end && negb (r_duplicates r) && negb (r_field_clash r) &&
   match r_missing_methods r with [] => true | _ => false end &&
   match r_placeholders r with [] => true | _ => false end)%bool.

Definition decls_wf (fl : go_flags) (ctx : schemas) : bool :=
  forallb (fun s => report_ok (report fl ctx s)) ctx.

(* text that is not Go at all: the run fails instead of writing it *)
Definition decls_parse (fl : go_flags) (ctx : schemas) : bool :=
  forallb (fun s => match decl_broken (decls_of_schema fl ctx s) with [] => true | _ => false end) ctx.

(* ---------- the run: goimports (formatGoFiles) turns text that does not parse into an error ---------- *)
Definition is_ident_text (s : string) : bool :=
  (fix go (s : string) : bool := match s with EmptyString => true | String c r => ((is_alnum c || Ascii.eqb c "_") && go r)%bool end) s.

Definition go_run (fl : go_flags) (ctx : schemas) : res (list (string * list godecl)) :=
  let all := map (fun s => (s_pkg s, decls_of_schema fl ctx s)) ctx in
  if decls_parse fl ctx then Ok all else Err "goimports: the generated file does not parse".

(* ---------- hypotheses of the partial theorem, as decidable predicates on the context ---------- *)
(* kinds doFormatType has a case for, at every depth *)
Fixpoint ty_printable (t : ty) : bool :=
  match t with
  | TScalar _ _ _ _ | TRef _ _ _ | TConstRef _ _ _ _ | TSlot _ _ => true
  | TArray _ v => ty_printable v
  | TMap _ i v => (ty_printable i && ty_printable v)%bool
  | TStruct _ _ fs => forallb (fun f => ty_printable (f_type f)) fs
  | TInter _ bs => forallb ty_printable bs
  | TDisj _ _ | TEnum _ _ | TBad _ _ => false
  end.

(* object kinds formatTypeDeclaration has a case for; enum members typed by printable scalars *)
Definition object_printable (o : object) : bool :=
  match o_type o with
  | TEnum _ vs => (negb (match vs with [] => true | _ => false end) && forallb (fun v => is_scalar (ev_type v)) vs)%bool
  | TScalar _ _ _ _ | TRef _ _ _ | TMap _ _ _ | TArray _ _ | TStruct _ _ _ | TInter _ _ => ty_printable (o_type o)
  | _ => false
  end.

Definition ctx_printable (ctx : schemas) : bool :=
  forallb (fun s => forallb (fun ko => object_printable (snd ko)) (s_objects s)) ctx.

(* ---------- the placeholder sites of the Go jenny this model knows (function, text, how it is covered) ----------
   Compared on every run with the regenerated coq/Gen/Placeholders_gen.v (obligation go_sites_known in Props/C02.v):
   a site the jenny gains shows up there and is not in this table. *)
Definition go_sites_known : list (string * string * string) :=
  [("typeFormatter.doFormatType", "unknown", "model: GTPlaceholder");
   ("typeFormatter.formatTypeDeclaration", "unhandled type def kind:", "model: DBroken");
   ("RawTypes.defaultsForStruct", "unsupported default value case: this is likely a bug in cog", "scan only: defaults of non-scalar fields are not modelled");
   ("Builder.emptyValueForGuard", "unknown", "scan only: builders are not modelled");
   ("", "found an unimplemented unmarshal case", "scan only: method bodies are not modelled");
   ("", "found an unimplemented equality case", "scan only: method bodies are not modelled");
   ("", "found an unimplemented validate case", "scan only: method bodies are not modelled")].

Definition go_site_known (func text : string) : bool :=
  existsb (fun k => let '(f, t, _) := k in (seqb f func && seqb t text)%bool) go_sites_known.

(* ---------- witnesses of the refuted statements ---------- *)
Definition G0 : smeta := {| m_kind := ""; m_variant := ""; m_identifier := "" |}.
Definition sfield (n : string) (t : ty) (req : bool) : field := mkField n [] t req.

(* two objects whose names coincide after camel-casing; two fields likewise *)
Definition w_collide_ctx : schemas :=
  [mkSchema "alpha" G0 "" (TBad attrs0 "")
     [("bar_baz", mkObject "bar_baz" [] (TStruct attrs0 [] [sfield "x" (TScalar attrs0 KString DNil []) true]) "alpha" "bar_baz");
      ("BarBaz", mkObject "BarBaz" [] (TStruct attrs0 [] [sfield "some_name" (TScalar attrs0 KString DNil []) true;
                                                          sfield "someName" (TScalar attrs0 KInt64 DNil []) true]) "alpha" "BarBaz")]].

(* what the Go chain leaves of `u: (string | int64)[] | bool` : a union inside the branch of a union struct *)
Definition w_nested_ctx : schemas :=
  [mkSchema "p" G0 "" (TBad attrs0 "")
     [("ArrayOfDisjunctionOrBool",
       mkObject "ArrayOfDisjunctionOrBool" []
         (TStruct attrs0 [("disjunction_of_scalars", mkDisj [] "" [])]
            [sfield "ArrayOfDisjunction"
                    (TArray attrs0 (TDisj attrs0 (mkDisj [TScalar attrs0 KString DNil []; TScalar attrs0 KInt64 DNil []] "" []))) false;
             sfield "Bool" (TScalar {| nullable := true; dflt := DNil; hints := [] |} KBool DNil []) false])
         "p" "ArrayOfDisjunctionOrBool")]].

Definition flags_off : go_flags := mkFlags false false false false false false false.
