(* Auxiliary definitions of the proved CUE front-end theorem (definitions only); see Model/FrontEndSpecCue.v.

   cue_order_complete s : every definition of the schema occurs in the first-touch order `cue_order s`, i.e. parse_cue
     declares an object for it.  It is NOT a hypothesis of parse_cue_preserves_acceptance_partial: it holds for every
     schema (Proofs/FrontEndCueOrder.v, cue_order_complete_holds: the fuel of cue_visit is sufficient). *)
From Coq Require Import List String ZArith Bool Ascii.
From Cog Require Import Model.IR Model.Json Model.GoSemBase Model.GoSemValidate Model.Src Model.FrontEnd Model.FrontEndSpec
  Model.FrontEndCue Model.FrontEndSpecCue.
Import ListNotations.
Local Open Scope list_scope.
Local Open Scope string_scope.

Definition cue_order_complete (s : src_schema) : bool :=
  forallb (fun d => str_in (fst d) (cue_order s)) (src_defs s).

(* the stream elements of checks/c01.py restricted to the hypotheses of parse_cue_preserves_acceptance_partial *)
Definition fe_cue_accept_weak_domain (c : src_schema * string * string * json * bool) : bool :=
  let '(s, fmt, tname, j, _) := c in
  (fe_cue_accept_in_domain c && schema_bounds_small s && schema_aliases_resolve s)%bool.
