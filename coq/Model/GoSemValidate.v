(* What the Go code cog prints MEANS, part 4: the generated Validate methods
   (internal/jennies/golang/validation.go `resolvesToConstraints`,
   templates/types/struct_validation_method.tmpl blocks "type_validate_check"/"type_constraints",
   templates/runtime/tools.tmpl MakeBuildErrors).  Definitions only.

   validate returns the list of BuildError paths (error texts are not modelled).  The order of
   errors under a map follows Go's map iteration and is not observable here: callers compare the
   lists as multisets. *)
From Coq Require Import List String ZArith Bool Ascii.
From Cog Require Import Model.IR Model.Json Model.GoSemBase Model.GoSemDecode Model.GoSemEquals.
Import ListNotations.
Local Open Scope list_scope.
Local Open Scope string_scope.

(* ---------- decimal constants printed by the harness (strconv 'g' format) ---------- *)
Fixpoint digits_val (l : list ascii) (acc : Z) : option Z :=
  match l with
  | [] => Some acc
  | c :: r => match digit_val c with Some d => digits_val r (acc * 10 + Z.of_nat d)%Z | None => None end
  end.
Fixpoint split_at (c : ascii) (l : list ascii) : list ascii * option (list ascii) :=
  match l with
  | [] => ([], None)
  | x :: r => if Ascii.eqb x c then ([], Some r)
              else let '(a, b) := split_at c r in (x :: a, b)
  end.
Definition signed (l : list ascii) : bool * list ascii :=
  match l with
  | c :: r => if Ascii.eqb c "-" then (true, r) else if Ascii.eqb c "+" then (false, r) else (false, l)
  | [] => (false, [])
  end.
(* "12.5", "-3", "1e+06", "2.5e-07" -> (m, e) *)
Definition parse_dec (s : string) : option (Z * Z) :=
  let '(neg, body) := signed (str_list s) in
  let '(mant, ex) := split_at "e"%char body in
  let '(ip, fp) := split_at "."%char mant in
  let fp := match fp with Some f => f | None => [] end in
  match digits_val (ip ++ fp)%list 0, (ip ++ fp)%list with
  | Some m, _ :: _ =>
      let e0 := (- Z.of_nat (List.length fp))%Z in
      match ex with
      | None => Some (if neg then (- m)%Z else m, e0)
      | Some x =>
          let '(eneg, eb) := signed x in
          match digits_val eb 0, eb with
          | Some ev, _ :: _ => Some (if neg then (- m)%Z else m, (e0 + (if eneg then - ev else ev))%Z)
          | _, _ => None
          end
      end
  | _, _ => None
  end.

Definition dyn_num (d : dyn) : option (Z * Z) :=
  match d with
  | DInt _ z => Some (z, 0%Z)
  | DFloat _ r => parse_dec r
  | _ => None
  end.

(* compare m1*10^e1 with m2*10^e2 *)
Definition dec_compare (a b : Z * Z) : comparison :=
  let '(m1, e1) := a in let '(m2, e2) := b in
  let e := Z.min e1 e2 in
  Z.compare (m1 * 10 ^ (e1 - e))%Z (m2 * 10 ^ (e2 - e))%Z.

Definition num_of_gval (v : gval) : option (Z * Z) :=
  match v with GInt z => Some (z, 0%Z) | GFloat m e => Some (m, e) | _ => None end.

(* one emitted `if !(<left> <op> <right>)` : true = the constraint holds *)
Definition constraint_holds (c : constraint) (v : gval) : option bool :=
  match c_args c with
  | arg :: _ =>
      match dyn_num arg with
      | None => None
      | Some b =>
          let cmp := fun a : Z * Z => dec_compare a b in
          let op := c_op c in
          if seqb op "minLength" then
            match v with GStr s => Some (negb (match cmp (rune_count s, 0%Z) with Lt => true | _ => false end)) | _ => None end
          else if seqb op "maxLength" then
            match v with GStr s => Some (negb (match cmp (rune_count s, 0%Z) with Gt => true | _ => false end)) | _ => None end
          else
            match num_of_gval v with
            | None => None
            | Some a =>
                if seqb op ">=" then Some (match cmp a with Lt => false | _ => true end)
                else if seqb op ">" then Some (match cmp a with Gt => true | _ => false end)
                else if seqb op "<=" then Some (match cmp a with Gt => false | _ => true end)
                else if seqb op "<" then Some (match cmp a with Lt => true | _ => false end)
                else if seqb op "==" then Some (match cmp a with Eq => true | _ => false end)
                else if seqb op "!=" then Some (match cmp a with Eq => false | _ => true end)
                else None
            end
      end
  | [] => None
  end.

(* the emitted comparison type-checks in Go (an integer is never compared with a fractional constant) *)
Definition constraint_supported (k : skind) (c : constraint) : bool :=
  match c_args c with
  | arg :: _ =>
      match dyn_num arg with
      | Some (m, e) =>
          let op := c_op c in
          if (seqb op "minLength" || seqb op "maxLength")%bool then
            match k with KString => Z.leb 0 e | _ => false end
          else if (seqb op ">=" || seqb op ">" || seqb op "<=" || seqb op "<" || seqb op "==" || seqb op "!=")%bool then
            if is_float_kind k then true
            else match int_range k with Some _ => let '(_, e') := num_norm m e in Z.leb 0 e' | None => false end
          else false
      | None => false
      end
  | [] => false
  end.

(* ---------- validation.go: resolvesToConstraints ---------- *)
Definition resolves_to_struct (ctx : schemas) (t : ty) : bool :=
  match t with
  | TRef _ _ _ => match resolve ctx t with Some (TStruct _ _ _) => true | _ => false end
  | _ => false
  end.

Fixpoint rtc (ctx : schemas) (t : ty) : bool :=
  match t with
  | TScalar _ KAny _ _ => false
  | TSlot _ _ => true
  | TRef _ _ _ => resolves_to_struct ctx t
  | TScalar _ _ _ cs => negb (match cs with [] => true | _ => false end)
  | TDisj _ d => existsb (rtc ctx) (d_branches d)
  | TInter _ bs => existsb (rtc ctx) bs
  | TStruct _ _ fs => existsb (fun f => rtc ctx (f_type f)) fs
  | TMap _ _ v => rtc ctx v
  | TArray _ v => rtc ctx v
  | TConstRef _ p n _ => match locate_object ctx p n with Some o => is_enum (o_type o) | None => false end
  | _ => false
  end.

(* ---------- strconv.Itoa ---------- *)
Definition digit_char (n : nat) : ascii := ascii_of_nat (48 + n).
Fixpoint itoa_fuel (fuel n : nat) (acc : string) : string :=
  match fuel with
  | O => acc
  | S f => let acc' := String (digit_char (n mod 10)) acc in
           if Nat.ltb n 10 then acc' else itoa_fuel f (n / 10) acc'
  end.
Definition itoa (n : nat) : string := itoa_fuel (S n) n "".

Definition const_ref_matches (value : dyn) (v : gval) : bool :=
  match value, v with
  | DStr s, GStr s' => String.eqb s s'
  | _, _ => false
  end.

(* type_validate_check for (ConstraintPath = path, Type = t, Nullable = nl, SelfName = v) *)
Fixpoint vcheck (ctx : schemas) (path : string) (t : ty) (nl : bool) (v : gval) {struct v} : list string :=
  if is_any t then [] else
  match payload_type ctx t with
  | PUnm _ => []
  | PTy pt =>
      match pt with
      | TArray _ et =>
          let go := fix go (l : list gval) (i : nat) {struct l} : list string :=
                      match l with
                      | [] => []
                      | x :: r => (vcheck ctx (path ++ "[" ++ itoa i ++ "]") et (t_nullable et) x ++ go r (S i))%list
                      end in
          match v with
          | GSlice l => go l 0%nat
          | GPtr (GSlice l) => go l 0%nat
          | _ => []
          end
      | TMap _ _ vt =>
          let go := fun l : list (string * gval) =>
                      flat_map (fun kv => vcheck ctx (path ++ "[" ++ fst kv ++ "]") vt (t_nullable vt) (snd kv)) l in
          match v with
          | GMap l => go l
          | GPtr (GMap l) => go l
          | _ => []
          end
      | _ =>
          if nl then
            match v with
            | GPtr x => vcheck ctx path t false x
            | _ => []
            end
          else
            match pt with
            | TStruct _ _ fs =>
                let via_ref := is_ref t in
                (* an inline struct extends the current path; a referenced struct runs its own Validate
                   (paths from the root of that object), then MakeBuildErrors prefixes them *)
                let base := if via_ref then "" else path in
                if (via_ref && negb (rtc ctx pt))%bool then [] else
                match v with
                | GStruct fvs =>
                    let inner :=
                      (fix go (fs : list field) (fvs : list (string * gval)) {struct fvs} : list string :=
                         match fs, fvs with
                         | f :: fr, (_, fv) :: vr =>
                             ((if rtc ctx (f_type f)
                               then vcheck ctx (if String.eqb base "" then f_name f else base ++ "." ++ f_name f)
                                           (f_type f) (t_nullable (f_type f)) fv
                               else []) ++ go fr vr)%list
                         | _, _ => []
                         end) fs fvs in
                    if via_ref then map (fun p => path ++ "." ++ p) inner else inner
                | _ => []
                end
            | TScalar _ _ _ cs =>
                match t with
                | TScalar _ _ _ _ =>
                    flat_map (fun c => match constraint_holds c v with Some false => [path] | _ => [] end) cs
                | _ => []     (* reached through a reference: not a case of the template *)
                end
            | TEnum _ _ =>
                match t with
                | TConstRef _ _ _ value => if const_ref_matches value v then [] else [path]
                | _ => []
                end
            | _ => []
            end
      end
  end.

(* resource.Validate() of the struct object n of package p *)
Definition validate_object (ctx : schemas) (p n : string) (v : gval) : list string :=
  match locate_object ctx p n with
  | Some o => if rtc ctx (o_type o) then vcheck ctx "" (o_type o) (t_nullable (o_type o)) v else []
  | None => []
  end.
