(* C17: the property as decidable checkers over what the real veneers machinery returned, and
   the case checker of the `veneers` correspondence stream. *)
From Cog Require Export Model.Veneers.
Local Open Scope string_scope.
Local Open Scope list_scope.

(* ---------------------------------------------------------------- correspondence *)
Fixpoint remove_first {A} (e : A -> A -> bool) (x : A) (l : list A) : option (list A) :=
  match l with
  | [] => None
  | y :: r => if e x y then Some r else match remove_first e x r with Some r' => Some (y :: r') | None => None end
  end.
Fixpoint perm_eqb {A} (e : A -> A -> bool) (a b : list A) : bool :=
  match a with
  | [] => match b with [] => true | _ => false end
  | x :: r => match remove_first e x b with Some b' => perm_eqb e r b' | None => false end
  end.

Definition file_has_compose (f : vfile) : bool :=
  existsb (fun r => match r with YBCompose _ :: _ => true | _ => false end) (vf_builders f).

(* case: schemas, rule files, language, builders the real FromAST derived, what the real ApplyTo returned *)
Definition vcase := (schemas * list vfile * string * list builder * res (list builder))%type.
Definition c_ss (c : vcase) := let '(ss, _, _, _, _) := c in ss.
Definition c_files (c : vcase) := let '(_, fs, _, _, _) := c in fs.
Definition c_lang (c : vcase) := let '(_, _, l, _, _) := c in l.
Definition c_before (c : vcase) := let '(_, _, _, b, _) := c in b.
Definition c_after (c : vcase) := let '(_, _, _, _, a) := c in a.

(* ComposeBuilders ranges over a Go map: the order in which the composed groups are appended is
   not determined; with a compose rule present the builder lists are compared as multisets *)
Definition ven_mismatch (c : vcase) : bool :=
  let cmp := if existsb file_has_compose (c_files c) then perm_eqb builder_eqb else builders_eqb in
  negb (res_eqb cmp (apply_to (c_ss c) (c_files c) (c_lang c) (c_before c)) (c_after c)).
Definition ven_mismatch_unshared (c : vcase) : bool :=
  let cmp := if existsb file_has_compose (c_files c) then perm_eqb builder_eqb else builders_eqb in
  negb (res_eqb cmp (apply_to_unshared (c_ss c) (c_files c) (c_lang c) (c_before c)) (c_after c)).
Definition ven_interference (c : vcase) : bool := interference (c_ss c) (c_files c) (c_lang c) (c_before c).
