(* C17: the property as decidable checkers over what the real veneers machinery returned, and
   the case checker of the `veneers` correspondence stream. *)
From Cog Require Export Model.Veneers.
Local Open Scope string_scope.
Local Open Scope list_scope.

(* ---------------------------------------------------------------- correspondence *)
(* case: schemas, rule files, language, builders the real FromAST derived, what the real ApplyTo returned *)
Definition vcase := (schemas * list vfile * string * list builder * res (list builder))%type.
Definition c_ss (c : vcase) := let '(ss, _, _, _, _) := c in ss.
Definition c_files (c : vcase) := let '(_, fs, _, _, _) := c in fs.
Definition c_lang (c : vcase) := let '(_, _, l, _, _) := c in l.
Definition c_before (c : vcase) := let '(_, _, _, b, _) := c in b.
Definition c_after (c : vcase) := let '(_, _, _, _, a) := c in a.

(* strict: cog's output must be the model's output *)
Definition ven_mismatch (c : vcase) : bool :=
  negb (res_eqb builders_eqb (apply_to (c_ss c) (c_files c) (c_lang c) (c_before c)) (c_after c)).

(* ---------------------------------------------------------------- WT: a builder is well-typed *)
(* types compared up to the default recorded on the type itself (struct_fields_as_arguments
   copies the option's default onto the argument and path-item types) *)
Definition ty_eqb_nd (a b : ty) : bool := ty_eqb (set_default a DNil) (set_default b DNil).
Definition ty_eqb_nn (a b : ty) : bool := ty_eqb (set_nullable a false) (set_nullable b false).

(* the chain: every field item names a field of the struct the previous item leads to (through
   references, or through the TypeHint of an `any` item), with that field's type; an index item
   only follows a map or an array and records its value type; no item is a root variable *)
Fixpoint path_ok_go (ss : schemas) (cur : ty) (p : path) : bool :=
  match p with
  | [] => true
  | it :: rest =>
      negb (pi_root it) &&
      match pi_typehint it with None => true | Some _ => is_any (pi_type it) end &&
      let next := match pi_typehint it with Some h => h | None => pi_type it end in
      match pi_index it with
      | None =>
          match resolve_total ss cur with
          | TStruct _ _ fs =>
              match field_by_name fs (pi_id it) with
              | Some f => ty_eqb_nd (f_type f) (pi_type it) && path_ok_go ss next rest
              | None => false
              end
          | _ => false
          end
      | Some _ =>
          match resolve_total ss cur with
          | TMap _ _ v => ty_eqb_nd v (pi_type it) && path_ok_go ss next rest
          | TArray _ v => ty_eqb_nd v (pi_type it) && path_ok_go ss next rest
          | _ => false
          end
      end
  end.
Definition path_ok (ss : schemas) (root : ty) (p : path) : bool :=
  match p with [] => false | _ => path_ok_go ss root p end.

(* an argument is declared when the option/constructor lists it: same name, same type up to
   nullability (the constructor copy made by promote_options_to_constructor is never nullable) *)
Definition arg_declared (args : list argument) (a : argument) : bool :=
  existsb (fun d => seqb (a_name d) (a_name a) && ty_eqb_nn (a_type d) (a_type a)) args.

Definition path_args (p : path) : list argument :=
  flat_map (fun it => match pi_index it with Some ix => match px_arg ix with Some a => [a] | None => [] end | None => [] end) p.
Fixpoint avalue_args (v : avalue) : list argument :=
  match v with
  | AValue arg _ env =>
      (match arg with Some a => [a] | None => [] end) ++
      match env with
      | Some (_, vals) => (fix go (l : list (path * avalue)) : list argument :=
                             match l with [] => [] | (p, x) :: r => path_args p ++ avalue_args x ++ go r end) vals
      | None => []
      end
  end.
Definition assignment_args (a : assignment) : list argument :=
  path_args (as_path a) ++ avalue_args (as_value a) ++ map ac_arg (as_constraints a).

(* envelope contents: relative paths inside the envelope type *)
Fixpoint avalue_paths_ok (ss : schemas) (v : avalue) : bool :=
  match v with
  | AValue _ _ None => true
  | AValue _ _ (Some (t, vals)) =>
      (fix go (l : list (path * avalue)) : bool :=
         match l with [] => true | (p, x) :: r => path_ok ss t p && avalue_paths_ok ss x && go r end) vals
  end.

Definition assignment_ok (ss : schemas) (root : ty) (args : list argument) (a : assignment) : bool :=
  path_ok ss root (as_path a) && avalue_paths_ok ss (as_value a) && forallb (arg_declared args) (assignment_args a).
Definition WT (ss : schemas) (b : builder) : bool :=
  forallb (assignment_ok ss (o_type (b_for b)) (ct_args (b_ctor b))) (ct_assignments (b_ctor b)) &&
  forallb (fun o => forallb (assignment_ok ss (o_type (b_for b)) (op_args o)) (op_assignments o)) (b_options b).
Definition WTs (ss : schemas) (bs : list builder) : bool := forallb (WT ss) bs.

(* the builders describe objects of these schemas *)
Definition consistent (ss : schemas) (bs : list builder) : bool :=
  forallb (fun b => match locate_object ss (o_selfpkg (b_for b)) (o_selfname (b_for b)) with
                    | Some o => object_eqb o (b_for b)
                    | None => false
                    end) bs.

(* rule parameters that are themselves well-formed: an added option only uses the arguments it
   declares (cog does not check this); add_assignment with an argument value cannot be judged
   without the option it lands on and is kept outside the WT claim *)
Fixpoint vvalue_args (v : vvalue) : list argument :=
  match v with
  | VValue arg _ env =>
      (match arg with Some a => [a] | None => [] end) ++
      match env with
      | Some vals => (fix go (l : list (string * vvalue)) : list argument :=
                        match l with [] => [] | (_, x) :: r => vvalue_args x ++ go r end) vals
      | None => []
      end
  end.
Definition voption_wf (o : voption) : bool :=
  forallb (fun a => forallb (arg_declared (vo_args o)) (vvalue_args (va_value a))) (vo_assignments o).
Definition ybrule_wf (r : ybrule) : bool :=
  match r with YBAddOption _ o :: _ => voption_wf o | _ => true end.
Definition yorule_wf (r : yorule) : bool :=
  match r with YOAddAssignment _ a :: _ => match vvalue_args (va_value a) with [] => true | _ => false end | _ => true end.
Definition files_wf (fs : list vfile) : bool :=
  forallb (fun f => forallb ybrule_wf (vf_builders f) && forallb yorule_wf (vf_options f)) fs.

(* ---------------------------------------------------------------- frame *)
Definition brule_selector (r : brule) : bselector :=
  match r with
  | BROmit s | BRRename s _ | BRMergeInto s _ _ _ _ | BRCompose s _ | BRProperties s _ | BRDuplicate s _ _
  | BRInitialize s _ | BRPromote s _ | BRAddOption s _ | BRAddFactory s _ => s
  end.
Definition rules_in_order (lrs : list language_rules) (lang : string) : list brule * list orule :=
  (builder_rules_for all_languages lrs ++ builder_rules_for lang lrs, option_rules_for all_languages lrs ++ option_rules_for lang lrs).

(* selectors read For, Package, Name of the builder and the name of the option: a builder that
   no builder rule selects keeps them, so "never selected" is a property of the input builder *)
Definition builder_never_selected (ss : schemas) (brs : list brule) (b : builder) : bool :=
  forallb (fun r => negb (sel_builder ss (brule_selector r) b)) brs.
Definition option_never_selected (ors : list orule) (b : builder) (o : boption) : bool :=
  forallb (fun r => negb (sel_option (or_sel r) b o)) ors.

Definition same_but_options (a b : builder) : bool :=
  object_eqb (b_for a) (b_for b) && seqb (b_pkg a) (b_pkg b) && seqb (b_name a) (b_name b)
  && leqb field_eqb (b_props a) (b_props b) && constructor_eqb (b_ctor a) (b_ctor b)
  && leqb factory_eqb (b_factories a) (b_factories b).

(* every builder no rule selects, with its options no rule selects, is still there, identical *)
Definition frame_ok (ss : schemas) (lrs : list language_rules) (lang : string) (before after : list builder) : bool :=
  let '(brs, ors) := rules_in_order lrs lang in
  forallb (fun b =>
     if builder_never_selected ss brs b then
       let kept := filter (option_never_selected ors b) (b_options b) in
       match kept with
       | [] => true
       | _ => existsb (fun b' => same_but_options b b' &&
                                 forallb (fun o => existsb (boption_eqb o) (b_options b')) kept) after
       end
     else true) before.

(* ---------------------------------------------------------------- rule contracts, judged on single-rule runs *)
Definition single_rule (lrs : list language_rules) (lang : string) : option (brule + orule) :=
  match rules_in_order lrs lang with
  | ([r], []) => Some (inl r)
  | ([], [r]) => Some (inr r)
  | _ => None
  end.
Definition sel_b := sel_builder.
Definition sel_o := sel_option.
Definition has_opts := has_options.
Definition with_name := set_name.
Definition with_options := set_options.
Definition with_oname := set_oname.

(* the builder of `after` that continues builder b of `before` (option rules keep For, Package, Name) *)
Definition continuation (after : list builder) (b : builder) : option builder :=
  find (fun b' => object_eqb (b_for b) (b_for b') && seqb (b_pkg b) (b_pkg b') && seqb (b_name b) (b_name b')) after.

Fixpoint is_prefix (p q : path) : bool :=
  match p, q with
  | [], _ => true
  | x :: r, y :: s => pathitem_eqb x y && is_prefix r s
  | _ :: _, [] => false
  end.
Definition first_path (o : boption) : option path := match op_assignments o with a :: _ => Some (as_path a) | [] => None end.

(* options of b' that b did not have *)
Definition new_options (b b' : builder) : list boption :=
  filter (fun o' => negb (existsb (boption_eqb o') (b_options b))) (b_options b').
(* "still assigns the same target": every assignment of a produced option goes to the path some
   selected option assigned first, or below it *)
Definition same_target (selected : list boption) (o' : boption) : bool :=
  forallb (fun a' => existsb (fun o => existsb (fun a => is_prefix (as_path a) (as_path a')) (op_assignments o)) selected)
          (op_assignments o').

Definition option_contract (act : oaction) (sel : oselector) (before after : list builder) : bool :=
  forallb (fun b =>
    let selected := filter (sel_o sel b) (b_options b) in
    match selected with
    | [] => true
    | _ =>
      match continuation after b with
      | None => (* every option removed: only omit, struct_fields_as_options and disjunction_as_options can do that *)
          match act with
          | AOmit | AStructFieldsAsOptions _ | ADisjunctionAsOptions _ => true
          | _ => false
          end
      | Some b' =>
          let fresh := new_options b b' in
          match act with
          | AOmit => forallb (fun o' => negb (sel_o sel b o')) (b_options b') &&
                     leqb boption_eqb (filter (fun o => negb (sel_o sel b o)) (b_options b)) (b_options b')
          | ARename n => leqb boption_eqb (map (fun o => if sel_o sel b o then with_oname o n else o) (b_options b)) (b_options b')
          | ADuplicate n =>
              leqb boption_eqb (flat_map (fun o => if sel_o sel b o then [o; with_oname o n] else [o]) (b_options b)) (b_options b')
          | AAddComments cs =>
              leqb boption_eqb (map (fun o => if sel_o sel b o
                                              then mkOption (op_name o) (op_comments o ++ cs) (op_args o) (op_assignments o) (op_default o)
                                              else o) (b_options b)) (b_options b')
          | AArrayToAppend =>
              forallb (fun o' => same_target selected o' &&
                                 match op_assignments o' with a :: _ => seqb (as_method a) "append" | [] => false end &&
                                 existsb (fun o => seqb (op_name o) (op_name o') && opt_eqb path_eqb (first_path o) (first_path o') &&
                                                   match op_args o, op_args o' with
                                                   | [a], [a'] => match a_type a with TArray _ v => ty_eqb v (a_type a') | _ => false end
                                                   | _, _ => false
                                                   end) selected) fresh
          | AMapToIndex =>
              forallb (fun o' => same_target selected o' &&
                                 match op_assignments o' with a :: _ => seqb (as_method a) "index" | [] => false end &&
                                 existsb (fun o => seqb (op_name o) (op_name o') &&
                                                   match op_args o, op_args o' with
                                                   | [a], [k; x] => match a_type a with
                                                                    | TMap _ it vt => ty_eqb it (a_type k) && ty_eqb vt (a_type x)
                                                                    | _ => false
                                                                    end
                                                   | _, _ => false
                                                   end) selected) fresh
          | AUnfoldBoolean tn fn =>
              forallb (fun o' => same_target selected o' && (seqb (op_name o') tn || seqb (op_name o') fn) &&
                                 match op_args o', op_assignments o' with
                                 | [], [a] => match as_value a with
                                              | AValue None (DBool v) None => Bool.eqb v (seqb (op_name o') tn) || seqb tn fn
                                              | _ => false
                                              end &&
                                              existsb (fun o => opt_eqb path_eqb (first_path o) (Some (as_path a))) selected
                                 | _, _ => false
                                 end) fresh
          | AStructFieldsAsArguments _ | AStructFieldsAsOptions _ | ADisjunctionAsOptions _ =>
              forallb (same_target selected) fresh
          | ARenameArguments _ | AAddAssignment _ => true
          end
      end
    end) before.

Definition builder_contract (ss : schemas) (r : brule) (before after : list builder) : bool :=
  match r with
  | BROmit s =>
      forallb (fun b' => negb (sel_b ss s b')) after &&
      builders_eqb (filter has_opts (filter (fun b => negb (sel_b ss s b)) before)) after
  | BRRename s n =>
      builders_eqb (filter has_opts (map (fun b => if sel_b ss s b then with_name b n else b) before)) after
  | BRDuplicate s n excl =>
      builders_eqb (filter has_opts
         (before ++ map (fun b => with_name (match excl with
                                             | [] => b
                                             | _ => with_options b (filter (fun o => negb (string_in_list_equal_fold (op_name o) excl)) (b_options b))
                                             end) n)
                        (filter (sel_b ss s) before))) after
  | _ => true
  end.

(* `duplicate` as the LAST rule of a sequence: the copy equals its source as both appear in the result *)
Definition last_builder_rule (lrs : list language_rules) (lang : string) : option brule :=
  match option_rules_for lang lrs, rev (builder_rules_for lang lrs) with
  | [], r :: _ => Some r
  | _, _ => None
  end.
Definition last_duplicate_ok (ss : schemas) (lrs : list language_rules) (lang : string) (after : list builder) : bool :=
  match last_builder_rule lrs lang with
  | Some (BRDuplicate s n excl) =>
      (* the copies are the trailing builders named n; each source selected by s that is not itself a trailing copy *)
      let sources := filter (fun b => sel_b ss s b) after in
      forallb (fun b =>
         existsb (fun c => builder_eqb c (with_name (match excl with
                                                      | [] => b
                                                      | _ => with_options b (filter (fun o => negb (string_in_list_equal_fold (op_name o) excl)) (b_options b))
                                                      end) n)) after
         || negb (has_opts (match excl with
                            | [] => b
                            | _ => with_options b (filter (fun o => negb (string_in_list_equal_fold (op_name o) excl)) (b_options b))
                            end))) sources
  | _ => true
  end.

(* `compose` as the LAST builder rule: every composed builder (a builder for the source object whose
   constructor sets the plugin discriminator) sets the identifier of its OWN package's schema.
   (Not one of the contracts C17 lists; it is judged because the Go code appends to a
   Constructor.Assignments slice that all composed builders share with the source.) *)
Definition last_compose_ok (ss : schemas) (lrs : list language_rules) (lang : string) (after : list builder) : bool :=
  match rev (fst (rules_in_order lrs lang)) with
  | BRCompose _ c :: _ =>
      match cut_dot (yc_source c) with
      | Some (spkg, sname) =>
          forallb (fun b' =>
            if seqb (o_selfpkg (b_for b')) spkg && seqb (o_selfname (b_for b')) sname &&
               negb (match field_by_name (struct_fields (o_type (b_for b'))) (yc_disc_field c) with
                     | Some f => is_concrete_scalar (f_type f)     (* the source already fixes the field: nothing to tell apart *)
                     | None => true
                     end) then
              let consts := filter (fun a => match as_path a, as_value a with
                                             | [it], AValue None v None => seqb (pi_id it) (yc_disc_field c) && negb (dyn_is_nil v)
                                             | _, _ => false
                                             end) (ct_assignments (b_ctor b')) in
              match consts, locate ss (b_pkg b') with
              | _ :: _, Some sch =>
                  if seqb (m_kind (s_meta sch)) "composable" && negb (seqb (m_identifier (s_meta sch)) "") then
                    existsb (fun a => match as_value a with AValue None v None => dyn_eqb v (DStr (m_identifier (s_meta sch))) | _ => false end) consts
                  else true
              | _, _ => true
              end
            else true) after
      | None => true
      end
  | _ => true
  end.

(* ---------------------------------------------------------------- verdicts on one case *)
Definition in_claim (c : vcase) : bool :=
  aliases_acyclic (c_ss c) && consistent (c_ss c) (c_before c) && WTs (c_ss c) (c_before c).

Definition pf_wt (c : vcase) : bool :=
  in_claim c && files_wf (c_files c) &&
  match c_after c with Ok bs => negb (WTs (c_ss c) bs) | _ => false end.
Definition pf_frame (c : vcase) : bool :=
  in_claim c &&
  match c_after c, rewriter_from (c_files c) with
  | Ok bs, Ok lrs => negb (frame_ok (c_ss c) lrs (c_lang c) (c_before c) bs)
  | _, _ => false
  end.
Definition pf_contract (c : vcase) : bool :=
  in_claim c &&
  match c_after c, rewriter_from (c_files c) with
  | Ok bs, Ok lrs =>
      negb (match single_rule lrs (c_lang c) with
            | Some (inl r) => builder_contract (c_ss c) r (c_before c) bs
            | Some (inr r) => option_contract (or_action r) (or_sel r) (c_before c) bs
            | None => true
            end)
  | _, _ => false
  end.
Definition pf_last_duplicate (c : vcase) : bool :=
  in_claim c &&
  match c_after c, rewriter_from (c_files c) with
  | Ok bs, Ok lrs => negb (last_duplicate_ok (c_ss c) lrs (c_lang c) bs)
  | _, _ => false
  end.
Definition pf_last_compose (c : vcase) : bool :=
  in_claim c &&
  match c_after c, rewriter_from (c_files c) with
  | Ok bs, Ok lrs => negb (last_compose_ok (c_ss c) lrs (c_lang c) bs)
  | _, _ => false
  end.
(* rule files at both levels: the language's own rules judged against the builders as they are AFTER the
   common level (that intermediate state is computed by the model): the contract of a single language-level
   rule, and the frame of the language-level rules *)
Definition without_common (lrs : list language_rules) : list language_rules :=
  map (fun lr => if seqb (lr_language lr) all_languages then mkLR (lr_language lr) [] [] else lr) lrs.
Definition has_common (lrs : list language_rules) : bool :=
  match builder_rules_for all_languages lrs, option_rules_for all_languages lrs with [], [] => false | _, _ => true end.
Definition after_common (c : vcase) : option (list language_rules * list builder) :=
  if negb (seqb (c_lang c) all_languages) && aliases_acyclic (c_ss c) then
    match rewriter_from (c_files c) with
    | Ok lrs => if has_common lrs then
                  match apply_language (c_ss c) lrs all_languages (c_before c) with Ok mid => Some (without_common lrs, mid) | _ => None end
                else None
    | _ => None
    end
  else None.
Definition pf_language_contract (c : vcase) : bool :=
  in_claim c &&
  match c_after c, after_common c with
  | Ok bs, Some (lrs2, mid) =>
      negb (match single_rule lrs2 (c_lang c) with
            | Some (inl r) => builder_contract (c_ss c) r mid bs
            | Some (inr r) => option_contract (or_action r) (or_sel r) mid bs
            | None => true
            end)
  | _, _ => false
  end.
Definition pf_language_frame (c : vcase) : bool :=
  in_claim c &&
  match c_after c, after_common c with
  | Ok bs, Some (lrs2, mid) => negb (frame_ok (c_ss c) lrs2 (c_lang c) mid bs)
  | _, _ => false
  end.
Definition ven_in_claim (c : vcase) : bool := in_claim c.
Definition ven_single (c : vcase) : bool :=
  match rewriter_from (c_files c) with Ok lrs => match single_rule lrs (c_lang c) with Some _ => true | None => false end | _ => false end.
Definition ven_selects (c : vcase) : bool :=
  match rewriter_from (c_files c) with
  | Ok lrs => let '(brs, ors) := rules_in_order lrs (c_lang c) in
              existsb (fun b => negb (builder_never_selected (c_ss c) brs b) ||
                                existsb (fun o => negb (option_never_selected ors b o)) (b_options b)) (c_before c)
  | _ => false
  end.

(* ---------------------------------------------------------------- diagnosis (only to name what fails; uses the model) *)
Definition brule_kind (r : brule) : string :=
  match r with
  | BROmit _ => "omit" | BRRename _ _ => "rename" | BRMergeInto _ _ _ _ _ => "merge_into" | BRCompose _ _ => "compose"
  | BRProperties _ _ => "properties" | BRDuplicate _ _ _ => "duplicate" | BRInitialize _ _ => "initialize"
  | BRPromote _ _ => "promote_options_to_constructor" | BRAddOption _ _ => "add_option" | BRAddFactory _ _ => "add_factory"
  end.
Definition oaction_kind (a : oaction) : string :=
  match a with
  | AOmit => "omit" | ARename _ => "rename" | ARenameArguments _ => "rename_arguments" | AUnfoldBoolean _ _ => "unfold_boolean"
  | AStructFieldsAsArguments _ => "struct_fields_as_arguments" | AStructFieldsAsOptions _ => "struct_fields_as_options"
  | AArrayToAppend => "array_to_append" | AMapToIndex => "map_to_index" | ADisjunctionAsOptions _ => "disjunction_as_options"
  | ADuplicate _ => "duplicate" | AAddAssignment _ => "add_assignment" | AAddComments _ => "add_comments"
  end.

(* the states after every rule application, as the model computes them: (rule kind, builders) *)
Definition tstep := (string * list builder)%type.
Fixpoint trace_builder_rules (ss : schemas) (rs : list brule) (bs : list builder) (acc : list tstep) : list tstep * option (list builder) :=
  match rs with
  | [] => (acc, Some bs)
  | r :: rest => match apply_builder_rule ss r bs with
                 | Ok bs' => trace_builder_rules ss rest bs' (acc ++ [(String.append "builder:" (brule_kind r), bs')])
                 | _ => (acc, None)
                 end
  end.
Fixpoint trace_option_rules (ss : schemas) (rs : list orule) (bs : list builder) (acc : list tstep) : list tstep * option (list builder) :=
  match rs with
  | [] => (acc, Some (filter has_options bs))
  | r :: rest => match apply_option_rule ss r bs with
                 | Ok bs' => trace_option_rules ss rest bs' (acc ++ [(String.append "option:" (oaction_kind (or_action r)), bs')])
                 | _ => (acc, None)
                 end
  end.
Definition trace_language (ss : schemas) (lrs : list language_rules) (l : string) (bs : list builder) (acc : list tstep)
  : list tstep * option (list builder) :=
  match trace_builder_rules ss (builder_rules_for l lrs) bs acc with
  | (acc1, Some bs1) => trace_option_rules ss (option_rules_for l lrs) bs1 acc1
  | (acc1, None) => (acc1, None)
  end.
Definition trace (ss : schemas) (files : list vfile) (lang : string) (bs : list builder) : list tstep :=
  match rewriter_from files with
  | Ok lrs =>
      match trace_language ss lrs all_languages bs [] with
      | (acc, Some bs1) => fst (trace_language ss lrs lang bs1 acc)
      | (acc, None) => acc
      end
  | _ => []
  end.

(* why is a builder not well-typed? 1 = a path is not a chain of fields, 2 = an assignment uses an
   undeclared argument as its value or index, 3 = only a constraint refers to an undeclared argument *)
Definition assignment_reason (ss : schemas) (root : ty) (args : list argument) (a : assignment) : nat :=
  if negb (path_ok ss root (as_path a) && avalue_paths_ok ss (as_value a)) then 1
  else if negb (forallb (arg_declared args) (path_args (as_path a) ++ avalue_args (as_value a))) then 2
  else if negb (forallb (arg_declared args) (map ac_arg (as_constraints a))) then 3 else 0.
Definition builder_reason (ss : schemas) (b : builder) : nat :=
  let rs := map (assignment_reason ss (o_type (b_for b)) (ct_args (b_ctor b))) (ct_assignments (b_ctor b)) ++
            flat_map (fun o => map (assignment_reason ss (o_type (b_for b)) (op_args o)) (op_assignments o)) (b_options b) in
  match filter (fun n => negb (Nat.eqb n 0)) rs with n :: _ => n | [] => 0 end.
Definition builders_reason (ss : schemas) (bs : list builder) : nat :=
  match filter (fun n => negb (Nat.eqb n 0)) (map (builder_reason ss) bs) with n :: _ => n | [] => 0 end.

Definition first_step {A} (bad : A -> bool) (l : list A) : option A := find bad l.

(* code = 2 * reason ; plus the rule kind *)
Definition wt_culprit (c : vcase) : option (string * nat) :=
  match first_step (fun s : tstep => negb (WTs (c_ss c) (snd s))) (trace (c_ss c) (c_files c) (c_lang c) (c_before c)) with
  | Some (k, bs) => Some (k, 2 * builders_reason (c_ss c) bs)
  | None => None
  end.
Definition frame_culprit (c : vcase) : option (string * nat) :=
  match rewriter_from (c_files c) with
  | Ok lrs =>
      match first_step (fun s : tstep => negb (frame_ok (c_ss c) lrs (c_lang c) (c_before c) (snd s)))
                       (trace (c_ss c) (c_files c) (c_lang c) (c_before c)) with
      | Some (k, _) => Some (k, 0)
      | None => None
      end
  | _ => None
  end.

(* culprits as small numbers (the case evaluator only transports lists of nat): 10 * kind + code *)
Definition all_kinds : list string :=
  ["builder:omit"; "builder:rename"; "builder:merge_into"; "builder:compose"; "builder:properties"; "builder:duplicate";
   "builder:initialize"; "builder:promote_options_to_constructor"; "builder:add_option"; "builder:add_factory";
   "option:omit"; "option:rename"; "option:rename_arguments"; "option:unfold_boolean"; "option:struct_fields_as_arguments";
   "option:struct_fields_as_options"; "option:array_to_append"; "option:map_to_index"; "option:disjunction_as_options";
   "option:duplicate"; "option:add_assignment"; "option:add_comments"].
Fixpoint index_of (s : string) (l : list string) (i : nat) : nat :=
  match l with [] => i | x :: r => if seqb x s then i else index_of s r (S i) end.
Definition culprit_code (x : option (string * nat)) : nat :=
  match x with Some (k, n) => 10 * index_of k all_kinds 0 + n | None => 990 end.
Definition codes (f : vcase -> bool) (g : vcase -> option (string * nat)) (cs : list vcase) : list nat :=
  map (fun c => culprit_code (g c)) (filter f cs).

(* ---------------------------------------------------------------- rules that cannot break well-typedness, whatever their
   (well-formed) parameters *)
Definition wt_safe_brule (r : brule) : bool :=
  match r with
  | BROmit _ | BRRename _ _ | BRProperties _ _ | BRDuplicate _ _ _ | BRInitialize _ _ | BRAddFactory _ _ => true
  | BRAddOption _ o => voption_wf o          (* the added option only uses the arguments it declares *)
  | _ => false
  end.
Definition wt_safe_action (a : oaction) : bool :=
  match a with
  | AOmit | ARename _ | AAddComments _ | ADuplicate _ => true
  | AAddAssignment va => match vvalue_args (va_value va) with [] => true | _ => false end   (* constants and envelopes of constants *)
  | _ => false
  end.
Definition wt_safe_rules (lrs : list language_rules) : bool :=
  forallb (fun lr => forallb wt_safe_brule (lr_builder_rules lr) && forallb (fun r => wt_safe_action (or_action r)) (lr_option_rules lr)) lrs.

(* every builder describes the object of the schemas it names (Leibniz version of `consistent`) *)
Definition consistent_with (ss : schemas) (bs : list builder) : Prop :=
  forall b, In b bs -> locate_object ss (o_selfpkg (b_for b)) (o_selfname (b_for b)) = Some (b_for b).
Definition same_header (a b : builder) : Prop :=
  b_for a = b_for b /\ b_pkg a = b_pkg b /\ b_name a = b_name b /\ b_props a = b_props b /\
  b_ctor a = b_ctor b /\ b_factories a = b_factories b.

(* ---------------------------------------------------------------- everything about one case in one number
   1 mismatch (cog's output is not the model's)  4 in claim  8 WT fails  16 frame fails  32 contract fails
   64 single-rule run  128 something is selected and some builder has two or more options
   256 the rule files load  1024 duplicate as last rule: copy differs  2048 compose as last builder rule: wrong discriminator *)
Definition bit (b : bool) (n : nat) : nat := if b then n else 0.
Definition ven_code (c : vcase) : nat :=
  bit (ven_mismatch c) 1 + bit (in_claim c) 4 + bit (pf_wt c) 8 + bit (pf_frame c) 16 +
  bit (pf_contract c) 32 + bit (ven_single c) 64 +
  bit (ven_selects c && existsb (fun b => Nat.leb 2 (List.length (b_options b))) (c_before c)) 128 +
  bit (match rewriter_from (c_files c) with Ok _ => true | _ => false end) 256 +
  bit (pf_last_duplicate c) 1024 + bit (pf_last_compose c) 2048.
(* second number: 1 contract of the single language-level rule, 2 frame of the language-level rules, both
   against the state after the common level *)
Definition ven_code2 (c : vcase) : nat := bit (pf_language_contract c) 1 + bit (pf_language_frame c) 2.
Definition ven_codes (cs : list vcase) : list nat := map ven_code cs.

(* ---------------------------------------------------------------- the rule registries the model and the harness know
   (the constructors of ybmember / yomember, in the order of the Go struct declarations) *)
Definition model_builder_members : list string :=
  ["omit"; "rename"; "merge_into"; "compose"; "properties"; "duplicate"; "initialize"; "promote_options_to_constructor";
   "add_option"; "add_factory"].
Definition model_option_members : list string :=
  ["omit"; "rename"; "rename_arguments"; "unfold_boolean"; "struct_fields_as_arguments"; "struct_fields_as_options";
   "array_to_append"; "map_to_index"; "disjunction_as_options"; "duplicate"; "add_assignment"; "add_comments"].

(* the shape of an option as FromAST derives it: one argument, one assignment of that argument,
   no envelope, no index, to a path ending in the argument's type *)
Definition derived_shape (o : boption) (a : argument) (first : assignment) : Prop :=
  op_args o = [a] /\ op_assignments o = [first] /\ as_arg first = Some a /\ as_env first = None /\
  (forall c, In c (as_constraints first) -> ac_arg c = a) /\ path_args (as_path first) = [] /\
  exists it, last_item (as_path first) = Some it /\ pi_type it = a_type a /\ pi_typehint it = None.
Definition opt_wt (ss : schemas) (root : ty) (o : boption) : bool :=
  forallb (assignment_ok ss root (op_args o)) (op_assignments o).

(* ---------------------------------------------------------------- paths *)
(* the type the item after `it` is looked up in *)
Definition next_type (it : pathitem) : ty := match pi_typehint it with Some h => h | None => pi_type it end.
Definition end_type (cur : ty) (p : path) : ty := match last_item p with Some it => next_type it | None => cur end.
(* what MergeInto does not check (finding C17-merge-compose-unchecked-target): the path it is given
   leads to the object the source builder builds, and the source's constructor constants use no argument *)
Definition merge_target_checked (ss : schemas) (cur : list builder) (dest : builder) (src under : string) : Prop :=
  forall source root it,
    locate_by_name cur (o_selfpkg (b_for dest)) src = Some source -> make_path cur dest under = Ok root -> last_item root = Some it ->
    resolve_total ss (pi_type it) = resolve_total ss (o_type (b_for source)) /\
    forall a, In a (ct_assignments (b_ctor source)) -> dyn_is_nil (as_const a) = false -> assignment_args a = [].
Definition merged_option (root : path) (ren : list (string * string)) (o : boption) : boption :=
  mkOption (match alist_find ren (op_name o) with Some n => n | None => op_name o end)
           (op_comments o) (op_args o) (map (prefix_path root) (op_assignments o)) (op_default o).

(* ---------------------------------------------------------------- what each rule does not check: the exact conditions
   under which it keeps builders well-typed (the open findings are the cases where they fail) *)
(* promote_options_to_constructor copies Args[0] and Assignments[0] only: the assignment must use no other argument *)
Definition promote_checked (b : builder) (names : list string) : bool :=
  forallb (fun n => match option_by_name b n with
                    | Some o => match op_args o, op_assignments o with
                                | a :: _, asg :: _ => forallb (arg_declared [a]) (assignment_args asg)
                                | _, _ => true
                                end
                    | None => true
                    end) names.
(* struct_fields_as_options / _as_arguments append the fields of the ARGUMENT's struct to the path of the first
   assignment: that path must end in that very struct (not in an array of it), use no index argument, and the
   struct's field names must be distinct *)
Definition sfa_checked (ss : schemas) (o : boption) : Prop :=
  forall a0 rest sa dh fs first others it,
    op_args o = a0 :: rest -> first_arg_struct ss (a_type a0) = TStruct sa dh fs ->
    op_assignments o = first :: others -> last_item (as_path first) = Some it ->
    resolve_total ss (next_type it) = TStruct sa dh fs /\ is_array (pi_type it) = false /\
    path_args (as_path first) = [] /\ (forall f, In f fs -> field_by_name fs (f_name f) = Some f) /\
    (* struct_fields_as_arguments keeps the other arguments and assignments: they must not use the first argument *)
    (rest <> [] -> forall a', In a' others -> forallb (arg_declared rest) (assignment_args a') = true).

(* per action, on one selected option: the action leaves it alone, or the option has what the action assumes *)
Definition action_cond (ss : schemas) (act : oaction) (b : builder) (o : boption) : Prop :=
  match act with
  | AOmit | ARename _ | AAddComments _ | ADuplicate _ => True
  | AAddAssignment va => vvalue_args (va_value va) = []
  | AArrayToAppend | AMapToIndex | ARenameArguments _ =>
      run_action ss act b o = Ok [o] \/ exists a first, derived_shape o a first /\ as_constraints first = []
  | AUnfoldBoolean _ _ => run_action ss act b o = Ok [o] \/ exists a first, derived_shape o a first
  | ADisjunctionAsOptions idx =>
      run_action ss act b o = Ok [o] \/ (idx = 0%Z /\ exists a first da d, derived_shape o a first /\ a_type a = TDisj da d)
  | AStructFieldsAsOptions _ | AStructFieldsAsArguments _ => run_action ss act b o = Ok [o] \/ sfa_checked ss o
  end.
Definition orule_cond (ss : schemas) (r : orule) (bs : list builder) : Prop :=
  forall b o, In b bs -> In o (b_options b) -> sel_option (or_sel r) b o = true -> action_cond ss (or_action r) b o.

(* compose merges every mapped composable builder under a path of the composed builder and hints the
   composable's type on the path's last item: that item must be an `any` (the only place a TypeHint may sit),
   the composable must build a struct object directly, and its constructor constants must use no argument.
   (The `__schema_entrypoint` variants are left outside this condition.) *)
Definition compose_checked (ss : schemas) (c : ycompose) (all : list builder) : Prop :=
  match alist_find (yc_map c) "__schema_entrypoint" with Some ep => ep = "" | None => True end /\
  forall nb cb under root it,
    In cb all -> alist_find (yc_map c) (o_name (b_for cb)) = Some under -> make_path all nb under = Ok root -> last_item root = Some it ->
    is_any (pi_type it) = true /\ is_ref (o_type (b_for cb)) = false /\
    forall a, In a (ct_assignments (b_ctor cb)) -> dyn_is_nil (as_const a) = false -> assignment_args a = [].

Definition brule_cond (ss : schemas) (r : brule) (bs : list builder) : Prop :=
  match r with
  | BROmit _ | BRRename _ _ | BRProperties _ _ | BRDuplicate _ _ _ | BRInitialize _ _ | BRAddFactory _ _ => True
  | BRAddOption _ o => voption_wf o = true
  | BRMergeInto s src under _ _ =>
      forall cur dest, consistent_with ss cur -> Forall (fun b => WT ss b = true) cur -> In dest cur -> sel_builder ss s dest = true ->
                       merge_target_checked ss cur dest src under
  | BRPromote s names => forall b, In b bs -> sel_builder ss s b = true -> promote_checked b names = true
  | BRCompose _ c => compose_checked ss c bs
  end.

(* a run in which every rule is applied where its condition holds (the conditions are evaluated on the
   builders as they are when the rule is applied) *)
Fixpoint builder_rules_checked (ss : schemas) (rs : list brule) (bs : list builder) : Prop :=
  match rs with
  | [] => True
  | r :: rest => brule_cond ss r bs /\ forall bs', apply_builder_rule ss r bs = Ok bs' -> builder_rules_checked ss rest bs'
  end.
Fixpoint option_rules_checked (ss : schemas) (rs : list orule) (bs : list builder) : Prop :=
  match rs with
  | [] => True
  | r :: rest => orule_cond ss r bs /\ forall bs', apply_option_rule ss r bs = Ok bs' -> option_rules_checked ss rest bs'
  end.
Definition language_checked (ss : schemas) (lrs : list language_rules) (l : string) (bs : list builder) : Prop :=
  builder_rules_checked ss (builder_rules_for l lrs) bs /\
  forall bs1, apply_builder_rules ss (builder_rules_for l lrs) bs = Ok bs1 -> option_rules_checked ss (option_rules_for l lrs) bs1.
Definition run_checked (ss : schemas) (lrs : list language_rules) (lang : string) (bs : list builder) : Prop :=
  language_checked ss lrs all_languages bs /\
  forall bs1, apply_language ss lrs all_languages bs = Ok bs1 -> language_checked ss lrs lang bs1.
