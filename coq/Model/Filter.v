(* filter_schemas.go: keep the allowed objects and everything they reference. *)
From Cog Require Export Model.Passes.
Local Open Scope list_scope.

(* the references FilterSchemas follows: plain and constant references in array values, map
   index and value types, struct fields, union and intersection branches *)
Fixpoint visited_refs (t : ty) : list (string * string) :=
  match t with
  | TArray _ v => visited_refs v
  | TMap _ i v => visited_refs i ++ visited_refs v
  | TStruct _ _ fs => flat_map (fun f => visited_refs (f_type f)) fs
  | TDisj _ d => flat_map visited_refs (d_branches d)
  | TInter _ bs => flat_map visited_refs bs
  | TRef _ p n => [(p, n)]
  | TConstRef _ p n _ => [(p, n)]
  | _ => []
  end.

Definition ref_key (p n : string) : string := (p ++ "." ++ n)%string.
Definition self_key (o : object) : string := ref_key (o_selfpkg o) (o_selfname o).
Definition mem (k : string) (l : list string) : bool := existsb (seqb k) l.

(* one round of the loop in buildAllowList: `roots` is the ordered map key -> object *)
Definition allow_round (ss : schemas) (roots : list (string * object)) (allow : list string)
  : list (string * object) * list string :=
  fold_left (fun acc ko =>
    let '(next, allow) := acc in
    let '(key, o) := ko in
    if mem (self_key o) allow then (next, allow) else
    let allow' := if mem key allow then allow else allow ++ [key] in
    match locate ss (o_selfpkg o) with
    | None => (next, allow')
    | Some _ =>
        (fold_left (fun nx r => match locate_object ss (fst r) (snd r) with
                                | Some ro => objs_set nx (ref_key (fst r) (snd r)) ro
                                | None => nx end) (visited_refs (o_type o)) next, allow')
    end) roots ([], allow).

Fixpoint allow_loop (fuel : nat) (ss : schemas) (roots : list (string * object)) (allow : list string)
  : option (list string) :=
  match roots with
  | [] => Some allow
  | _ => match fuel with
         | O => None
         | S n => let '(next, allow') := allow_round ss roots allow in allow_loop n ss next allow'
         end
  end.

Definition total_objects (ss : schemas) : nat := fold_left (fun n s => n + List.length (s_objects s)) ss 0.

Definition build_allow_list (ss : schemas) (entry : list objref) : option (list string) :=
  let roots := fold_left (fun acc r => match locate_object ss (fst r) (snd r) with
                                       | Some o => objs_set acc (self_key o) o
                                       | None => acc end) entry [] in
  allow_loop (S (S (total_objects ss))) ss roots [].

Definition filter_schemas (entry : list objref) (ss : schemas) : res schemas :=
  match build_allow_list ss entry with
  | None => OutOfFuel
  | Some allow =>
      Ok (map (fun s => set_objects s (filter (fun ko => mem (self_key (snd ko)) allow) (s_objects s))) ss)
  end.
