(* C18: labelled heap values and the generic semantics of cog's hand-written copy routines.
   `decls` (struct declarations) and `spec` (per-field copy mode read off every DeepCopy
   method) are regenerated from /repo by tools/copyspec on every run (Gen/CopySpec_gen.v). *)
From Coq Require Export List String Bool Arith.
Export ListNotations.
Local Open Scope list_scope.

Inductive gty :=
| GScalar                      (* string, bool, numbers, named strings: no location inside *)
| GAny                         (* interface{} *)
| GNamed (n : string)
| GPtr (t : gty) | GSlice (t : gty) | GMap (t : gty) | GOMap (t : gty)
| GOpaque (s : string).

Inductive mode :=
| Missing | Shallow | Call | PtrCall | SliceFreshShallow | SliceCall | SlicePtrCall
| MapFreshShallow | OMapCall | Unknown | NoCopyMethod.

Definition decls_t := list (string * list (string * gty)).
Definition spec_t := list (string * list (string * mode)).

Definition loc := nat.

(* A Go value as a tree; every allocation that can be shared carries its location:
   pointer targets, slice backing arrays, map headers, ordered maps. *)
Inductive tag := TgStruct (n : string) | TgPtr | TgSlice | TgMap | TgOMap | TgAny.
Inductive hval :=
| Leaf (s : string)
| Node (t : tag) (l : option loc) (kids : list (string * hval)).
(* conventions: nil pointer = Node TgPtr None []; pointer = Node TgPtr (Some l) [("", target)];
   nil/empty slice = Node TgSlice None []; slice = Node TgSlice (Some l) [("", e0); ("", e1); ...];
   map likewise with keys; struct = Node (TgStruct n) None fields; any = Node TgAny None [("", v)] or [] *)

Fixpoint locs (v : hval) : list loc :=
  match v with
  | Leaf _ => []
  | Node _ l kids => (match l with Some x => [x] | None => [] end) ++ flat_map (fun kv => locs (snd kv)) kids
  end.

(* equality of values as data: locations erased *)
Fixpoint erase (v : hval) : hval :=
  match v with
  | Leaf s => Leaf s
  | Node t _ kids => Node t None (map (fun kv => (fst kv, erase (snd kv))) kids)
  end.

Fixpoint assoc {A} (l : list (string * A)) (k : string) : option A :=
  match l with
  | [] => None
  | (k', a) :: r => if String.eqb k' k then Some a else assoc r k
  end.

Definition tag_eqb (a b : tag) : bool :=
  match a, b with
  | TgStruct n, TgStruct m => String.eqb n m
  | TgPtr, TgPtr | TgSlice, TgSlice | TgMap, TgMap | TgOMap, TgOMap | TgAny, TgAny => true
  | _, _ => false
  end.

(* ---- types free of locations (fuel bounds the unfolding of named structs) ---- *)
Fixpoint locfree (d : decls_t) (fuel : nat) (t : gty) : bool :=
  match t with
  | GScalar => true
  | GAny => true      (* under the hypothesis that any-typed values hold scalars, see any_scalar *)
  | GNamed n =>
      match fuel with
      | O => false
      | S f => match assoc d n with
               | Some fs => forallb (fun ft => locfree d f (snd ft)) fs
               | None => false
               end
      end
  | _ => false
  end.

(* ---- typing of values ---- *)
Fixpoint wt (d : decls_t) (t : gty) (v : hval) {struct v} : bool :=
  match t, v with
  | GScalar, Leaf _ => true
  | GAny, Node TgAny None [] => true
  | GAny, Node TgAny None [(_, Leaf _)] => true          (* any holding a scalar *)
  | GNamed n, Node (TgStruct m) None kids =>
      String.eqb n m &&
      match assoc d n with
      | Some fs =>
          (fix go (kids : list (string * hval)) (fs : list (string * gty)) {struct kids} : bool :=
             match kids, fs with
             | [], [] => true
             | (kn, kv) :: kr, (fn, ft) :: fr => String.eqb fn kn && wt d ft kv && go kr fr
             | _, _ => false
             end) kids fs
      | None => false
      end
  | GPtr _, Node TgPtr None [] => true
  | GPtr t', Node TgPtr (Some _) [(_, x)] => wt d t' x
  | GSlice _, Node TgSlice None [] => true
  | GSlice t', Node TgSlice (Some _) kids => forallb (fun kv => wt d t' (snd kv)) kids
  | GMap _, Node TgMap None [] => true
  | GMap t', Node TgMap (Some _) kids => forallb (fun kv => wt d t' (snd kv)) kids
  | GOMap t', Node TgOMap (Some _) kids => forallb (fun kv => wt d t' (snd kv)) kids
  | _, _ => false
  end.

(* ---- the copy semantics: fresh allocations are the old location shifted by `off` ---- *)
Definition shift (off : nat) (l : option loc) : option loc :=
  match l with Some x => Some (x + off) | None => None end.

Definition field_mode (s : spec_t) (n f : string) : mode :=
  match assoc s n with
  | Some ms => match assoc ms f with Some m => m | None => Missing end
  | None => NoCopyMethod
  end.

Definition zero_of (t : gty) : hval :=
  match t with
  | GScalar => Leaf ""
  | GAny => Node TgAny None []
  | GNamed n => Node (TgStruct n) None []     (* only used to witness a dropped field *)
  | GPtr _ => Node TgPtr None []
  | GSlice _ => Node TgSlice None []
  | GMap _ => Node TgMap None []
  | GOMap _ => Node TgOMap None []
  | GOpaque _ => Leaf ""
  end.

Definition copy_kids (cp : string -> gty -> hval -> hval) :=
  fix go (kids : list (string * hval)) (fs : list (string * gty)) {struct kids} : list (string * hval) :=
    match kids, fs with
    | (kn, kv) :: kr, (fn, ft) :: fr => (kn, cp fn ft kv) :: go kr fr
    | _, _ => kids
    end.

Definition copy_struct_with (d : decls_t) (cp : string -> string -> gty -> hval -> hval) (n : string) (v : hval) : hval :=
  match v with
  | Node (TgStruct n') None kids =>
      match assoc d n with
      | Some fs => Node (TgStruct n') None (copy_kids (cp n) kids fs)
      | None => v
      end
  | _ => v
  end.

Definition copy_ptr (cs : hval -> hval) (off : nat) (v : hval) : hval :=
  match v with
  | Node TgPtr l [(k, x)] => Node TgPtr (shift off l) [(k, cs x)]
  | other => other
  end.

Fixpoint copy (d : decls_t) (s : spec_t) (off : nat) (t : gty) (m : mode) (v : hval) {struct v} : hval :=
  let cs := copy_struct_with d (fun n fn ft kv => copy d s off ft (field_mode s n fn) kv) in
  match m with
  | Shallow | Unknown | NoCopyMethod => v
  | Missing => zero_of t
  | Call =>
      match t with
      | GNamed n => cs n v
      | _ => v
      end
  | PtrCall =>
      match t with
      | GPtr (GNamed n) => copy_ptr (cs n) off v
      | _ => v
      end
  | SliceFreshShallow =>
      match v with Node TgSlice l kids => Node TgSlice (shift off l) kids | _ => v end
  | SliceCall =>
      match t, v with
      | GSlice (GNamed n), Node TgSlice l kids =>
          Node TgSlice (shift off l) (map (fun kv => (fst kv, cs n (snd kv))) kids)
      | _, _ => v
      end
  | SlicePtrCall =>
      match t, v with
      | GSlice (GPtr (GNamed n)), Node TgSlice l kids =>
          Node TgSlice (shift off l) (map (fun kv => (fst kv, copy_ptr (cs n) off (snd kv))) kids)
      | _, _ => v
      end
  | MapFreshShallow =>
      match v with Node TgMap l kids => Node TgMap (shift off l) kids | _ => v end
  | OMapCall =>
      match t, v with
      | GOMap (GNamed n), Node TgOMap l kids =>
          Node TgOMap (shift off l) (map (fun kv => (fst kv, cs n (snd kv))) kids)
      | _, _ => v
      end
  end.

(* ---- when is a copy mode deep enough for a field's type ---- *)
Definition has_copy (s : spec_t) (n : string) : bool :=
  match assoc s n with Some _ => true | None => false end.

Definition mode_ok (d : decls_t) (s : spec_t) (fuel : nat) (t : gty) (m : mode) : bool :=
  match m, t with
  | Shallow, _ => locfree d fuel t
  | Call, GNamed n => has_copy s n
  | PtrCall, GPtr (GNamed n) => has_copy s n
  | SliceFreshShallow, GSlice t' => locfree d fuel t'
  | SliceCall, GSlice (GNamed n) => has_copy s n
  | SlicePtrCall, GSlice (GPtr (GNamed n)) => has_copy s n
  | MapFreshShallow, GMap t' => locfree d fuel t'
  | OMapCall, GOMap (GNamed n) => has_copy s n
  | _, _ => false
  end.

(* every struct that has a copy routine handles every declared field deeply enough *)
Definition spec_sound (d : decls_t) (s : spec_t) (fuel : nat) : bool :=
  forallb (fun nms =>
    match assoc d (fst nms) with
    | Some fs => forallb (fun ft => mode_ok d s fuel (snd ft) (field_mode s (fst nms) (fst ft))) fs
    | None => false
    end) s.

(* the fields whose copy mode is not deep enough: (struct, field) *)
Definition unsound_fields (d : decls_t) (s : spec_t) (fuel : nat) : list (string * string) :=
  flat_map (fun nms =>
    match assoc d (fst nms) with
    | Some fs => flat_map (fun ft => if mode_ok d s fuel (snd ft) (field_mode s (fst nms) (fst ft))
                                     then [] else [(fst nms, fst ft)]) fs
    | None => [(fst nms, "<undeclared>"%string)]
    end) s.

Definition disjointb (a b : list loc) : bool := forallb (fun x => negb (existsb (Nat.eqb x) b)) a.
