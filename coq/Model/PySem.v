(* What the PYTHON code cog prints means (C10, C11), as a function of the post-chain IR the Python jenny
   receives.  Definitions only.  Mirrors internal/jennies/python/rawtypes.go (generateInitMethod,
   generateToJSONMethod, generateFromJSONMethod, fromJSONForType, disjunctionFromJSON), tools.go
   (formatValue, defaultValueForType, defaultValueForScalar), types.go (formatConstantReference /
   formatEnumValue) and templates/runtime/encoder.tmpl.

   Values: from_json stores whatever json.loads returned for scalars, enums, arrays / maps of scalars and
   undiscriminated unions (PRaw), builds class instances for references to structs (PObj) and rebuilds
   arrays / maps of non-scalars element by element (PList / PDict).  An instance records, per field, the
   IR name, the Required flag (what to_json needs) and the attribute value.
   Outcomes: POk | PExc (a Python exception is raised: TypeError, KeyError, NameError ...) |
   PSyntax (the literal printed for a default is not Python: the module does not import) | PUnm.

   json.dumps(obj, cls=JSONEncoder) calls to_json() on every instance it meets (encoder.tmpl): required
   fields are always emitted (None as null), the others only when they are not None. *)
From Coq Require Import List String ZArith Bool Ascii.
From Cog Require Import Model.IR Model.Json Model.GoSemBase Model.GoSemDecode Model.Ctor.
Import ListNotations.
Local Open Scope list_scope.
Local Open Scope string_scope.

Inductive pval :=
| PNone
| PRaw (j : json)
| PList (l : list pval)
| PDict (l : list (string * pval))
| PObj (pkg name : string) (fs : list (string * bool * pval)).

Inductive pres (A : Type) :=
| POk (a : A)
| PExc (why : string)
| PSyntax (why : string)
| PUnm (why : string).
Arguments POk {A}. Arguments PExc {A}. Arguments PSyntax {A}. Arguments PUnm {A}.

Definition pbind {A B} (r : pres A) (f : A -> pres B) : pres B :=
  match r with POk a => f a | PExc w => PExc w | PSyntax w => PSyntax w | PUnm w => PUnm w end.

(* all results of a list, in order; the FIRST element that is not POk decides, except that PUnm anywhere wins
   (the model cannot say) and PSyntax wins over PExc (it happens at import time) *)
Fixpoint pall {A} (l : list (pres A)) : pres (list A) :=
  match l with
  | [] => POk []
  | x :: r =>
      match x, pall r with
      | PUnm w, _ => PUnm w
      | _, PUnm w => PUnm w
      | PSyntax w, _ => PSyntax w
      | _, PSyntax w => PSyntax w
      | PExc w, _ => PExc w
      | _, PExc w => PExc w
      | POk a, POk l' => POk (a :: l')
      end
  end.

Definition praw (j : json) : pval := match j with JNull => PNone | _ => PRaw j end.

(* ---------- formatValue: the Python literal printed for a Go value, as the JSON it denotes ---------- *)
Fixpoint py_lit_json (d : dyn) : pres json :=
  match d with
  | DNil => POk JNull
  | DBool b => POk (JBool b)
  | DInt _ z => POk (JNum z 0)                 (* %#v: decimal for signed, hexadecimal for unsigned: the same int *)
  | DFloat t r =>
      if seqb t "json.Number" then POk (JStr r)  (* %#v of a json.Number is a QUOTED string *)
      else match parse_decimal r with Some (m, e) => POk (JNum m e) | None => PUnm "float text" end
  | DStr s => POk (JStr s)
  | DList l => pbind (pall (map py_lit_json l)) (fun js => POk (JArr js))
  | DMap _ => PSyntax "map[string]interface {}{...} is not Python"
  | DOther _ _ => PUnm "literal"
  end.
Definition py_lit (d : dyn) : pres pval := pbind (py_lit_json d) (fun j => POk (praw j)).

Definition default_for_scalar (k : skind) (v : dyn) : pres pval :=
  if negb (dyn_is_nil v) then py_lit v else
  match k with
  | KNull | KAny => POk PNone
  | KBytes | KString => POk (PRaw (JStr ""))
  | KFloat32 | KFloat64 => POk (PRaw (JNum 0 0))
  | KBool => POk (PRaw (JBool false))
  | KOther _ => POk (PRaw (JStr "unknown"))
  | _ => POk (PRaw (JNum 0 0))
  end.

Definition ov_of (d : dyn) : option (list (string * dyn)) := match d with DMap kvs => Some kvs | _ => None end.

Definition is_complex_kind (t : ty) : bool :=
  match t with
  | TStruct _ _ _ | TRef _ _ _ | TEnum _ _ | TMap _ _ _ | TArray _ _ | TDisj _ _ => true
  | _ => false
  end.

(* ---------- one field of generateInitMethod, parameterised by defaultValueForType ---------- *)
(* args: by IR field name; absent = the parameter is not passed *)
Definition py_field_value (pctx : schemas) (default : ty -> option (list (string * dyn)) -> pres pval)
           (args : list (string * pval)) (fld : field) : pres pval :=
  let ft := f_type fld in
  let d := dflt (ty_attrs ft) in
  let arg := alist_find args (f_name fld) in
  match ft with
  | TConstRef _ cp cn cv =>
      match locate_object pctx cp cn with
      | Some o =>
          match o_type o with
          | TEnum _ vs =>
              match find (fun ev => dyn_eqb (ev_value ev) cv) vs with
              | Some ev => py_lit (ev_value ev)
              | None => PSyntax "constant reference without a member"
              end
          | _ => PExc "NameError: unknown"
          end
      | None => PExc "NameError: unknown"
      end
  | _ =>
      if is_concrete_scalar ft then
        match ft with TScalar _ _ v _ => py_lit v | _ => PUnm "concrete scalar" end
      else
        let defv : option (pres pval) :=
          if (negb (t_nullable ft) || negb (dyn_is_nil d))%bool then Some (default ft (ov_of d)) else None in
        (* a default expression that is not needed is not evaluated (a literal that is not Python breaks
           the IMPORT of the module: py_module_broken, decided on the constructors without arguments) *)
        if is_complex_kind ft then
          match arg with
          | Some (PNone) | None =>
              match defv with
              | None => POk PNone
              | Some r => r
              end
          | Some v => POk v
          end
        else
          match arg with
          | Some v => POk v
          | None => match defv with None => POk PNone | Some r => r end
          end
  end.

Definition mk_obj (p n : string) (fs : list field) (vs : list pval) : pval :=
  PObj p n (combine (combine (map (@f_name ty) fs) (map (@f_required ty) fs)) vs).

(* ---------- defaultValueForType + generateInitMethod ---------- *)
Fixpoint py_default (pctx : schemas) (fuel : nat) (t : ty) (ov : option (list (string * dyn))) {struct fuel} : pres pval :=
  match fuel with
  | O => PUnm "constructor nesting exceeds the fuel (reference cycle?)"
  | S f =>
      let d := dflt (ty_attrs t) in
      if (negb (is_ref t) && negb (dyn_is_nil d))%bool then py_lit d else
      match t with
      | TDisj _ dj =>
          if existsb is_null (d_branches dj) then POk PNone
          else match d_branches dj with b :: _ => py_default pctx f b None | [] => PUnm "empty disjunction" end
      | TRef _ p n =>
          match locate_object pctx p n with
          | None => PExc "NameError: reference to an unknown object"
          | Some o =>
              match o_type o with
              | TEnum _ vs =>
                  match (match find (fun ev => dyn_eqb (ev_value ev) d) vs with
                         | Some ev => Some ev
                         | None => match vs with ev :: _ => Some ev | [] => None end
                         end) with
                  | Some ev => py_lit (ev_value ev)
                  | None => PUnm "empty enum"
                  end
              | TDisj _ _ => py_default pctx f (o_type o) None
              | TStruct _ _ sfs =>
                  let args :=
                    flat_map (fun kv =>
                      match field_by_name sfs (fst kv) with
                      | None => []
                      | Some fld =>
                          [if is_ref (f_type fld)
                           then pbind (py_default pctx f (f_type fld) (ov_of (snd kv))) (fun v => POk (fst kv, v))
                           else pbind (py_lit (snd kv)) (fun v => POk (fst kv, v))]
                      end) (match ov with Some kvs => kvs | None => [] end) in
                  pbind (pall args) (fun a => py_init pctx f p n sfs a)
              | TScalar _ k v _ =>
                  if negb (dyn_is_nil v) then py_lit v           (* the module-level constant *)
                  else match k with                               (* `Alias()` where Alias: TypeAlias = str | int | ... *)
                       | KString => POk (PRaw (JStr ""))
                       | KBool => POk (PRaw (JBool false))
                       | KAny | KNull | KBytes | KOther _ => PUnm "call of a type alias"
                       | _ => POk (PRaw (JNum 0 0))
                       end
              | TArray _ _ => POk (PList [])
              | TMap _ _ _ => POk (PDict [])
              | _ => PUnm "call of a type alias"
              end
          end
      | TEnum _ vs => match vs with ev :: _ => py_lit (ev_value ev) | [] => PUnm "empty enum" end
      | TMap _ _ _ => POk (PDict [])
      | TArray _ _ => POk (PList [])
      | TScalar _ k v _ => default_for_scalar k v
      | _ => POk (PRaw (JStr "unknown"))
      end
  end

(* Cls with keyword arguments: args by IR field name; absent = the parameter is not passed *)
with py_init (pctx : schemas) (fuel : nat) (p n : string) (fs : list field) (args : list (string * pval)) {struct fuel}
  : pres pval :=
  match fuel with
  | O => PUnm "constructor nesting exceeds the fuel (reference cycle?)"
  | S f =>
      pbind (pall (map (py_field_value pctx (py_default pctx f) args) fs)) (fun vs => POk (mk_obj p n fs vs))
  end.

Definition py_fuel (pctx : schemas) : nat := S (S (2 * count_objects pctx)).

Definition struct_fields (ctx : schemas) (p n : string) : option (list field) :=
  match locate_object ctx p n with
  | Some o => match o_type o with TStruct _ _ fs => Some fs | _ => None end
  | None => None
  end.

(* ---------- the encoder: json.dumps(v, cls=JSONEncoder) ---------- *)
Fixpoint py_encode (v : pval) : json :=
  match v with
  | PNone => JNull
  | PRaw j => j
  | PList l => JArr (map py_encode l)
  | PDict kvs => JObj (map (fun kv => (fst kv, py_encode (snd kv))) kvs)
  | PObj _ _ fs =>
      JObj ((fix req (fs : list (string * bool * pval)) : list (string * json) :=
               match fs with
               | [] => []
               | (n, true, x) :: r => (n, py_encode x) :: req r
               | _ :: r => req r
               end) fs
            ++
            (fix opt (fs : list (string * bool * pval)) : list (string * json) :=
               match fs with
               | [] => []
               | (n, false, x) :: r => match x with PNone => opt r | _ => (n, py_encode x) :: opt r end
               | _ :: r => opt r
               end) fs)
  end.

(* json.dumps(Cls(), cls=JSONEncoder) *)
Definition py_ctor_value (pctx : schemas) (p n : string) : pres pval :=
  match struct_fields pctx p n with
  | None => PUnm "object is not a class"
  | Some fs => py_init pctx (py_fuel pctx) p n fs []
  end.
Definition py_ctor (pctx : schemas) (p n : string) : pres json :=
  pbind (py_ctor_value pctx p n) (fun v => POk (py_encode v)).

Definition class_names (pctx : schemas) (p : string) : list string :=
  match locate pctx p with
  | None => []
  | Some s => flat_map (fun ko => match o_type (snd ko) with TStruct _ _ _ => [fst ko] | _ => [] end) (s_objects s)
  end.

(* a literal that is not Python anywhere in the module: the module does not import *)
Definition py_module_syntax_error (pctx : schemas) (p : string) : bool :=
  existsb (fun n => match py_ctor_value pctx p n with PSyntax _ => true | _ => false end) (class_names pctx p).

(* ---------- from_json ---------- *)
Definition is_scalar_kind (t : ty) : bool := match t with TScalar _ _ _ _ => true | _ => false end.

(* disjunctionFromJSON prints `typing.Union[<one entry per mapping key except the catch-all>]`: with a
   discriminator but no such key the text is `typing.Union[]`, which is not Python (OpenAPI `discriminator`
   without `mapping` gives a non-nil empty map when the mapping cannot be inferred) *)
Definition disj_mapping_keys (dj : disj) : list string :=
  filter (fun k => negb (seqb k catch_all)) (map fst (d_mapping dj)).
Definition disj_uses_mapping (dj : disj) : bool :=
  negb (seqb (d_disc dj) "" || match d_mapping dj with [] => true | _ => false end)%bool.
Definition disj_empty_union (dj : disj) : bool :=
  (negb (seqb (d_disc dj) "") && match disj_mapping_keys dj with [] => true | _ => false end)%bool.

(* the type as fromJSONForType sees it: references to non-structs are resolved *)
Definition view (pctx : schemas) (t : ty) : ty :=
  match t with
  | TRef _ _ _ => match resolve pctx t with Some rt => rt | None => TBad attrs0 "cycle" end
  | _ => t
  end.

(* a map of maps of non-scalars: the two nested comprehensions both bind `key`, the element expression
   data[..][key][key] reads the wrong entry (KeyError or another entry's value) *)
Definition nested_maps (pctx : schemas) (t : ty) : bool :=
  match view pctx t with
  | TMap _ _ vt => match view pctx vt with
                   | TMap _ _ vt' => negb (is_scalar_kind vt')
                   | _ => false
                   end
  | _ => false
  end.

(* fromJSONForType reaches a disjunction printed as typing.Union[] (through arrays, maps and references to
   non-structs; a reference to a struct is a call of that class's from_json) *)
Fixpoint ty_empty_union (pctx : schemas) (fuel : nat) (t : ty) : bool :=
  match fuel with
  | O => false
  | S f =>
      match t, view pctx t with
      | TRef _ _ _, TStruct _ _ _ => false
      | _, TDisj _ dj => disj_empty_union dj
      | _, TArray _ v => ty_empty_union pctx f v
      | _, TMap _ _ v => ty_empty_union pctx f v
      | _, _ => false
      end
  end.

Definition pkg_of_branch (dj : disj) (dflt_pkg n : string) : string :=
  match find (fun b => match b with TRef _ _ n' => seqb n' n | _ => false end) (d_branches dj) with
  | Some (TRef _ p _) => p
  | _ => dflt_pkg
  end.

(* dict built by json.loads: a later duplicate replaces the value of an earlier key (position of the first) *)
Fixpoint pdict_set (l : list (string * pval)) (k : string) (v : pval) : list (string * pval) :=
  match l with
  | [] => [(k, v)]
  | (k', v') :: r => if seqb k' k then (k', v) :: r else (k', v') :: pdict_set r k v
  end.

(* ----- <Class>.from_json: helpers, parameterised by the decoder of member values ----- *)
Definition is_const_field (t : ty) : bool := (is_concrete_scalar t || is_constref t)%bool.
Definition decoded_fields (sfs : list field) : list field := filter (fun fld => negb (is_const_field (f_type fld))) sfs.

(* data[k] is the LAST member named k (json.loads); members that name no decoded field are ignored.
   from_json_items decodes every member that names a decoded field; keep_last drops the entries a later
   member with the same name overrides. *)
Definition from_json_items (dec : ty -> json -> pres pval) (decoded : list field) (ms : list (string * json))
  : list (string * option (pres (string * pval))) :=
  map (fun kv => (fst kv,
                  match field_by_name decoded (fst kv) with
                  | Some fld => Some (pbind (dec (f_type fld) (snd kv)) (fun x => POk (fst kv, x)))
                  | None => None
                  end)) ms.

Fixpoint keep_last {A} (l : list (string * option A)) : list A :=
  match l with
  | [] => []
  | (k, o) :: r =>
      match o with
      | Some a => if str_in k (map fst r) then keep_last r else a :: keep_last r
      | None => keep_last r
      end
  end.

Definition from_json_args (dec : ty -> json -> pres pval) (decoded : list field) (ms : list (string * json))
  : list (pres (string * pval)) := keep_last (from_json_items dec decoded ms).

Definition class_from_json (pctx : schemas) (dec : string -> ty -> json -> pres pval) (p n : string) (sfs : list field)
           (j : json) : pres pval :=
  match decoded_fields sfs, j with
  | [], _ => py_init pctx (py_fuel pctx) p n sfs []          (* `data` is never looked at *)
  | _, JObj ms =>
      pbind (pall (from_json_args (dec p) (decoded_fields sfs) ms)) (fun a => py_init pctx (py_fuel pctx) p n sfs a)
  | _, JNull | _, JNum _ _ | _, JBool _ => PExc "TypeError: argument is not iterable"
  | _, _ => PUnm "`in` on a string or a list"
  end.

(* the class the discriminator value selects in the generated decoding map *)
Definition disj_target (dj : disj) (dv : json) : option string :=
  match (match dv with JStr s => if seqb s catch_all then None else alist_find (d_mapping dj) s | _ => None end) with
  | Some n => Some n
  | None => alist_find (d_mapping dj) catch_all
  end.

Definition dict_of (kvs : list (string * pval)) : pval :=
  PDict (fold_left (fun acc kv => pdict_set acc (fst kv) (snd kv)) kvs []).

Fixpoint py_from_json (pctx : schemas) (cur_pkg : string) (t : ty) (j : json) {struct j} : pres pval :=
  if nested_maps pctx t then PUnm "map of maps of non-scalars (shadowed comprehension variable)" else
  match t, view pctx t with
  | TRef _ p n, TStruct _ _ sfs =>
      (* the class named by the reference; a reference to an alias of a struct is outside the model *)
      match struct_fields pctx p n with
      | Some _ => class_from_json pctx (py_from_json pctx) p n sfs j
      | None => PUnm "reference to an alias of a struct"
      end
  | _, TBad _ _ => PUnm "reference cycle or bad type"
  | _, TArray _ et =>
      if is_scalar_kind et then POk (praw j) else
      match j with
      | JArr l => pbind (pall (map (fun x => py_from_json pctx cur_pkg et x) l)) (fun vs => POk (PList vs))
      | JNull | JNum _ _ | JBool _ => PExc "TypeError: not iterable"
      | _ => PUnm "iteration over a string or a dict"
      end
  | _, TMap _ _ vt =>
      if is_scalar_kind vt then POk (praw j) else
      match j with
      | JObj ms =>
          pbind (pall (map (fun kv => pbind (py_from_json pctx cur_pkg vt (snd kv)) (fun x => POk (fst kv, x))) ms))
                (fun kvs => POk (dict_of kvs))
      | JNull | JNum _ _ | JBool _ | JStr _ | JArr _ => PExc "AttributeError: no keys()"
      end
  | _, TDisj _ dj =>
      if disj_empty_union dj then PSyntax "typing.Union[]" else
      if negb (disj_uses_mapping dj) then POk (praw j) else
      match j with
      | JObj ms =>
          match last_member (d_disc dj) ms with
          | None => PExc "KeyError: discriminator"
          | Some dv =>
              match disj_target dj dv with
              | None => match dv with
                        | JStr _ | JNum _ _ | JBool _ | JNull => PExc "KeyError: unknown discriminator"
                        | _ => PExc "TypeError: unhashable"
                        end
              | Some n =>
                  let p := pkg_of_branch dj cur_pkg n in
                  match struct_fields pctx p n with
                  | Some sfs => class_from_json pctx (py_from_json pctx) p n sfs j
                  | None => PUnm "mapping target is not a class"
                  end
              end
          end
      | JNull | JNum _ _ | JBool _ => PExc "TypeError: not subscriptable"
      | _ => PUnm "subscript of a string or a list"
      end
  | _, _ => POk (praw j)
  end.

(* json.dumps(Cls.from_json(json.loads(doc)), cls=JSONEncoder) for the struct object n of package p *)
Definition py_decode_object (pctx : schemas) (p n : string) (j : json) : pres pval :=
  match struct_fields pctx p n with
  | None => PUnm "object is not a class"
  | Some _ => py_from_json pctx p (TRef attrs0 p n) j
  end.

Definition py_roundtrip (pctx : schemas) (p n : string) (j : json) : pres json :=
  pbind (py_decode_object pctx p n j) (fun v => POk (py_encode v)).

Definition pres_tag {A} (r : pres A) : string :=
  match r with POk _ => "ok" | PExc _ => "exc" | PSyntax _ => "syntax" | PUnm _ => "unmodelled" end.

(* the module of package p does not import: a default literal that is not Python, or typing.Union[] *)
Definition py_module_broken (pctx : schemas) (p : string) : bool :=
  (py_module_syntax_error pctx p ||
   match locate pctx p with
   | Some sc => existsb (fun ko => match o_type (snd ko) with
                                   | TStruct _ _ fs => existsb (fun fld => (negb (is_const_field (f_type fld)) &&
                                                                         ty_empty_union pctx 8 (f_type fld))%bool) fs
                                   | _ => false end) (s_objects sc)
   | None => false
   end)%bool.
