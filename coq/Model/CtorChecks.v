(* C10: the cases of checks/c10.py and the predicates evaluated on them.  Definitions only.

   One case = one object (struct) of one generated schema:
     the Go post-chain context, the Python post-chain context, the pre-chain context (what the front-end
     produced), the input format, the package, the object's name in the two contexts, what was OBSERVED
     (did the Go package compile, json.Marshal(NewX()); did the Python module import, json.dumps(X())),
     and the declared defaults / constants of the object with the verdict of the schema language's own
     validator on each default.

   mm_*  : the model's prediction differs from the observation              (MISMATCH)
   pf_*  : the PROPERTY is false on the observation, no model involved       (PROPFAIL) *)
From Coq Require Import List String ZArith Bool Ascii.
From Cog Require Import Model.IR Model.Json Model.GoSemBase Model.GoSemDecode Model.Ctor Model.PySem.
Import ListNotations.
Local Open Scope list_scope.
Local Open Scope string_scope.

Record decl := mkDecl
  { dc_field : string ;
    dc_kind : string ;         (* bool int float string enum enumref list struct union alias const *)
    dc_value : json ;          (* the declared default / constant *)
    dc_accepted : bool }.      (* the source schema's validator accepts the value for the field's type *)

Record cobs := mkCObs
  { ob_go_compiles : bool ;
    ob_go : option json ;        (* json.Marshal(NewX()); None: not available (package dropped, panic) *)
    ob_py_import : bool ;
    ob_py : option json ;        (* json.dumps(X(), cls=JSONEncoder); None: exception / module not imported *)
    ob_py_again : option json }. (* the same for a second X() built after the lists / dicts of a first X() were mutated *)

Definition ccase := (schemas * schemas * schemas * string * string * string * string * list string * cobs * list decl)%type.
(*                    go ctx    py ctx    pre-chain  fmt      pkg      go name  py name  path in the pre-chain IR:
                                                                                        object :: fields of inline structs *)

(* ---------- the property on one observed constructor ---------- *)
(* v holds the declared value: JSON-equal; for a struct default every override is held, recursively *)
Fixpoint jincl (exp v : json) {struct exp} : bool :=
  match exp, v with
  | JObj ems, JObj vms =>
      forallb (fun kv => match find_member (fst kv) vms with
                         | Some x => jincl (snd kv) x
                         | None => false
                         end) ems
  | _, _ => json_eq exp v
  end.

Definition member_of (o : option json) (f : string) : option json :=
  match o with Some (JObj ms) => find_member f ms | _ => None end.

Definition holds (o : option json) (d : decl) : bool :=
  match member_of o (dc_field d) with
  | Some v => if seqb (dc_kind d) "struct" then jincl (dc_value d) v else json_eq (dc_value d) v
  | None => false
  end.

Definition is_const_kind (k : string) : bool := (seqb k "const" || seqb k "constenum")%bool.
Definition relevant (d : decl) : bool := (dc_accepted d || is_const_kind (dc_kind d))%bool.

(* Go: every accepted default and every constant is held by json.Marshal(NewX()) *)
Definition pf_go (c : ccase) : bool :=
  let '(_, _, _, _, _, _, _, _, o, ds) := c in
  existsb (fun d => (relevant d && negb (holds (ob_go o) d))%bool) ds.
Definition pf_py (c : ccase) : bool :=
  let '(_, _, _, _, _, _, _, _, o, ds) := c in
  existsb (fun d => (relevant d && negb (holds (ob_py o) d))%bool) ds.
(* the two languages agree on those fields *)
Definition pf_agree (c : ccase) : bool :=
  let '(_, _, _, _, _, _, _, _, o, ds) := c in
  existsb (fun d => (relevant d &&
                     negb match member_of (ob_go o) (dc_field d), member_of (ob_py o) (dc_field d) with
                          | Some a, Some b => json_eq a b
                          | _, _ => false
                          end)%bool) ds.
(* a fresh default object does not depend on what happened to an earlier one (the model's constructors are pure
   functions: a difference is at once a property failure and a mismatch) *)
Definition pf_py_again (c : ccase) : bool :=
  let '(_, _, _, _, _, _, _, _, o, _) := c in
  match ob_py o, ob_py_again o with
  | Some a, Some b => negb (json_eq a b)
  | Some _, None => true
  | None, _ => false
  end.
Definition has_decl (c : ccase) : bool :=
  let '(_, _, _, _, _, _, _, _, _, ds) := c in existsb relevant ds.

(* ---------- model vs observation ---------- *)
Definition go_unmodelled (c : ccase) : bool :=
  let '(ctx, _, _, _, p, gn, _, _, _, _) := c in
  match pkg_ctor_status ctx p with
  | CUnm _ => true
  | CNoCompile _ => false
  | COk _ => match go_ctor ctx p gn with CUnm _ => true | _ => false end
  end.

Definition mm_go (c : ccase) : bool :=
  let '(ctx, _, _, _, p, gn, _, _, o, _) := c in
  (negb (go_unmodelled c) &&
   negb match pkg_ctor_status ctx p with
        | CNoCompile _ => negb (ob_go_compiles o)
        | COk _ =>
            (ob_go_compiles o &&
             match go_ctor ctx p gn, ob_go o with
             | COk j, Some j' => json_eq j j'
             | _, _ => false
             end)%bool
        | CUnm _ => true
        end)%bool.

Definition py_unmodelled (c : ccase) : bool :=
  let '(_, pctx, _, _, p, _, pn, _, _, _) := c in
  match py_ctor pctx p pn with
  | PUnm _ => true
  | _ => existsb (fun n => match py_ctor_value pctx p n with PUnm _ => true | _ => false end) (class_names pctx p)
  end.

Definition mm_py (c : ccase) : bool :=
  let '(_, pctx, _, _, p, _, pn, _, o, _) := c in
  (negb (py_unmodelled c) &&
   negb (if py_module_syntax_error pctx p then negb (ob_py_import o)
         else (ob_py_import o &&
               match py_ctor pctx p pn, ob_py o with
               | POk j, Some j' => json_eq j j'
               | PExc _, None => true
               | _, _ => false
               end)%bool))%bool.

(* ---------- the front-end model against the pre-chain IR ---------- *)
Definition type_default (t : ty) : dyn :=
  match t with
  | TScalar _ _ v _ => if dyn_is_nil v then dflt (ty_attrs t) else v
  | _ => dflt (ty_attrs t)
  end.

(* the struct reached from an object through fields holding inline structs *)
Fixpoint struct_at (t : ty) (path : list string) : option (list field) :=
  match t with
  | TStruct _ _ fs =>
      match path with
      | [] => Some fs
      | f :: r => match field_by_name fs f with Some fld => struct_at (f_type fld) r | None => None end
      end
  | _ => None
  end.

Definition field_default_at (ctx : schemas) (p : string) (path : list string) (f : string) : option dyn :=
  match path with
  | [] => None
  | n :: r =>
      match locate_object ctx p n with
      | Some o => match struct_at (o_type o) r with
                  | Some fs => match field_by_name fs f with Some fld => Some (type_default (f_type fld)) | None => None end
                  | None => None
                  end
      | None => None
      end
  end.
Definition field_default (ctx : schemas) (p n f : string) : option dyn := field_default_at ctx p [n] f.

(* constants: the JSON Schema front-end unwraps json.Number (unwrapJSONNumber), CUE gives int64 / float64 *)
Definition fe_const (fmt : string) (j : json) : dyn :=
  match j with
  | JNum m e => if Z.eqb e 0 then DInt "int64" m else DFloat "float64" (dec_text m e)
  | _ => fe_value fmt dec_text j
  end.

Definition fe_agrees (pre : schemas) (fmt p : string) (path : list string) (d : decl) : bool :=
  match field_default_at pre p path (dc_field d) with
  | None => false
  | Some real =>
      if seqb (dc_kind d) "constenum" then true       (* an enumeration of one member, not a constant of the IR *)
      else if seqb (dc_kind d) "const" then dyn_sim (fe_const fmt (dc_value d)) real
      else dyn_sim (fe_default fmt (dc_kind d) dec_text (dc_value d)) real
  end.

Definition mm_fe (c : ccase) : bool :=
  let '(_, _, pre, fmt, p, _, _, path, _, ds) := c in
  negb (forallb (fe_agrees pre fmt p path) ds).

(* ---------- where a declared default was lost (classification of failures; one case per declaration) ---------- *)
Definition lcase := (schemas * schemas * schemas * string * string * string * list string * string)%type.
(*                    go ctx   py ctx    pre       pkg      go name  py name  pre path      field *)
Definition has_default (ctx : schemas) (p n f : string) : bool :=
  match field_default ctx p n f with Some d => negb (dyn_is_nil d) | None => false end.
Definition pre_has (pre : schemas) (p : string) (path : list string) (f : string) : bool :=
  match field_default_at pre p path f with Some d => negb (dyn_is_nil d) | None => false end.
Definition lost_in_frontend (c : lcase) : bool :=
  let '(_, _, pre, p, _, _, path, f) := c in negb (pre_has pre p path f).
Definition lost_in_go_chain (c : lcase) : bool :=
  let '(ctx, _, pre, p, gn, _, path, f) := c in (pre_has pre p path f && negb (has_default ctx p gn f))%bool.
Definition lost_in_py_chain (c : lcase) : bool :=
  let '(_, pctx, pre, p, _, pn, path, f) := c in (pre_has pre p path f && negb (has_default pctx p pn f))%bool.
Definition go_post_has (c : lcase) : bool := let '(ctx, _, _, p, gn, _, _, f) := c in has_default ctx p gn f.
Definition py_post_has (c : lcase) : bool := let '(_, pctx, _, p, _, pn, _, f) := c in has_default pctx p pn f.
