(* compiler.Passes.Process: apply passes left to right, stop at the first error. *)
From Cog Require Export Model.Passes Model.Filter Model.PassesChain.
Local Open Scope list_scope.

Definition run_pass (p : pass) (ss : schemas) : res schemas :=
  match p with
  | PRenameObject pkg obj to => Ok (rename_object pkg obj to ss)
  | POmit refs => Ok (omit refs ss)
  | POmitFields refs => Ok (omit_fields refs ss)
  | PAddFields pkg obj fs => add_fields pkg obj fs ss
  | PAddObject pkg obj as_ c => Ok (add_object_pass pkg obj as_ c ss)
  | PDuplicateObject pkg obj ap ao om => Ok (duplicate_object pkg obj ap ao om ss)
  | PRetypeObject pkg obj as_ c => Ok (retype_object pkg obj as_ c ss)
  | PRetypeField pkg obj fld as_ c => Ok (retype_field pkg obj fld as_ c ss)
  | PFieldsSetRequired refs => Ok (fields_set_required refs ss)
  | PFieldsSetNotRequired refs => Ok (fields_set_not_required refs ss)
  | PFieldsSetDefault defs => Ok (fields_set_default defs ss)
  | PReplaceReference a b c d => Ok (replace_reference a b c d ss)
  | PConstantToEnum refs => constant_to_enum refs ss
  | PTrimEnumValues => Ok (trim_enum_values ss)
  | PHintObject pkg obj hs => Ok (hint_object pkg obj hs ss)
  | PSchemaSetIdentifier pkg id => Ok (schema_set_identifier pkg id ss)
  | PSchemaSetEntrypoint pkg ep => Ok (schema_set_entrypoint pkg ep ss)
  | PPrefixObjectNames p => Ok (prefix_object_names p ss)
  | PAppendCommentObjects c => Ok (append_comment_objects c ss)
  | PUnspec => Ok (unspec ss)
  | PInferEntrypoint => Ok (infer_entrypoint ss)
  | PNameAnonymousStruct pkg obj fld as_ => Ok (name_anonymous_struct pkg obj fld as_ ss)
  | PFilterSchemas allowed => filter_schemas allowed ss
  | PAnonymousStructsToNamed => Ok (anonymous_structs_to_named ss)
  | PNotRequiredFieldAsNullableType => Ok (not_required_field_as_nullable_type ss)
  | PDisjunctionWithNullToOptional => disjunction_with_null_to_optional ss
  | PAnonymousEnumToExplicitType => Ok (anonymous_enum_to_explicit_type ss)
  | PPrefixEnumValues => prefix_enum_values ss
  | PSanitizeEnumMemberNames => sanitize_enum_member_names ss
  | PRenameNumericEnumValues => Ok (rename_numeric_enum_values ss)
  | PDisjunctionWithConstantToDefault => disjunction_with_constant_to_default ss
  | PDisjunctionOfConstantsToEnum => disjunction_of_constants_to_enum ss
  | PFlattenDisjunctions => flatten_disjunctions ss
  | PDisjunctionOfAnonymousStructsToExplicit => disjunction_of_anonymous_structs_to_explicit ss
  | PDisjunctionInferMapping => disjunction_infer_mapping ss
  | PUndiscriminatedDisjunctionToAny => undiscriminated_disjunction_to_any ss
  | PDisjunctionToType => disjunction_to_type ss
  | PRemoveIntersections => remove_intersections ss
  | PInlineObjectsWithTypes kinds => inline_objects_with_types kinds ss
  | PDataqueryIdentification => dataquery_identification ss
  | _ => Err "UNMODELLED"
  end.

Definition modelled (p : pass) : bool :=
  match p with
  | PRenameObject _ _ _ | POmit _ | POmitFields _ | PAddFields _ _ _ | PAddObject _ _ _ _
  | PDuplicateObject _ _ _ _ _ | PRetypeObject _ _ _ _ | PRetypeField _ _ _ _ _
  | PFieldsSetRequired _ | PFieldsSetNotRequired _ | PFieldsSetDefault _ | PReplaceReference _ _ _ _
  | PConstantToEnum _ | PTrimEnumValues | PHintObject _ _ _ | PSchemaSetIdentifier _ _
  | PSchemaSetEntrypoint _ _ | PPrefixObjectNames _ | PAppendCommentObjects _ | PUnspec
  | PInferEntrypoint | PNameAnonymousStruct _ _ _ _ | PFilterSchemas _
  | PAnonymousStructsToNamed | PNotRequiredFieldAsNullableType | PDisjunctionWithNullToOptional
  | PAnonymousEnumToExplicitType | PPrefixEnumValues | PSanitizeEnumMemberNames
  | PRenameNumericEnumValues | PDisjunctionWithConstantToDefault
  | PDisjunctionOfConstantsToEnum | PFlattenDisjunctions | PDisjunctionOfAnonymousStructsToExplicit
  | PDisjunctionInferMapping | PUndiscriminatedDisjunctionToAny | PDisjunctionToType
  | PRemoveIntersections | PInlineObjectsWithTypes _ | PDataqueryIdentification => true
  | _ => false
  end.

Fixpoint process (ps : list pass) (ss : schemas) : res schemas :=
  match ps with
  | [] => Ok ss
  | p :: r => do ss' <- run_pass p ss ; process r ss'
  end.
