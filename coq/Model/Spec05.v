(* C05: decidable property predicates evaluated on the implementation's output. *)
From Cog Require Export Model.Spec15 Model.Refs.
Local Open Scope list_scope.

(* a run that started from resolving schemas and ended, without error, in dangling ones *)
Definition case_new_dangling (c : pcase) : bool :=
  let '(input, _, outcome, _) := c in
  match outcome with
  | Ok out => resolves input && negb (resolves out)
  | _ => false
  end.
Definition case_input_resolves (c : pcase) : bool :=
  let '(input, _, _, _) := c in resolves input.

(* allowed_objects: the output must contain exactly the closure of the selection, in the
   original order, every kept object unchanged *)
Definition keys_of (s : schema) : list (string * string) := map (fun ko => (s_pkg s, fst ko)) (s_objects s).
Definition filter_expected (ss : schemas) (allowed : list (string * string)) : schemas :=
  let keep := closure ss allowed in
  map (fun s => mkSchema (s_pkg s) (s_meta s) (s_entry s) (s_entrytype s)
                  (filter (fun ko => kmem (s_pkg s, fst ko) keep) (s_objects s))) ss.
Definition case_filter_inexact (c : pcase) : bool :=
  let '(input, ps, outcome, _) := c in
  match ps, outcome with
  | [PFilterSchemas allowed], Ok out => negb (schemas_eqb out (filter_expected input allowed))
  | [PFilterSchemas _], _ => true
  | _, _ => false
  end.
Definition case_is_filter (c : pcase) : bool :=
  let '(_, ps, _, _) := c in match ps with [PFilterSchemas _] => true | _ => false end.

(* parsed schemas: (format, schemas) *)
Definition parsecase := (string * schemas)%type.
Definition parse_dangling (c : parsecase) : bool := negb (resolves (snd c)).
