(* C14 — Go converters.  Part 1: languages.ConverterGenerator.FromBuilder (internal/languages/converter.go)
   producing the mapping IR; part 2: what the Go code printed from it by templates/converters/converter.tmpl
   does on a value: the builder-call expression it returns, as a builder program (`barg`) of
   coq/Model/BuilderEval.v.  Definitions only.

   The text-level part of the converter (fmt.Sprintf("%#v", x), cog.Dump(x), strings.Join) is modelled as the
   identity on values: the argument printed for a Go value x denotes x again when the Go compiler reads it
   (BVal x).  That this holds is exactly what the two-stage correspondence checks on every case.

   MODELLED FRAGMENT: options whose assignments are direct / append / index with argument or constant values
   and non-disjunction envelopes; argument mappings Direct, Builder, Array, Map; at most one builder per
   object (no BuilderDisjunction), no composable slots / runtime mappings.  Lists of unions exposed as one
   appending option per branch (listOfDisjunctionOptions) are modelled.
   Everything else is GUnmodelled. *)
From Coq Require Import List String ZArith Bool Ascii.
From Cog Require Import Model.IR Model.Json Model.Builders Model.GoSem Model.BuilderEval.
Import ListNotations.
Local Open Scope string_scope.
Local Open Scope list_scope.

(* ---------- the mapping IR ---------- *)
Record mguard := mkGuard { mg_path : path ; mg_op : string ; mg_value : dyn }.

Inductive argmap :=
| AMDirect (p : path) (t : ty)
| AMBuilder (p : path) (t : ty) (bpkg bname : string)
| AMArray (for_ : path) (fort : ty) (arg : argmap) (var : string)
| AMMap (for_ : path) (fort : ty) (arg : argmap) (var : string)
| AMUnmodelled (why : string).

Record amapping := mkAMapping { am_arg : argmap ; am_guards : list mguard }.
Record optmapping := mkOptMapping { om_option : boption ; om_guards : list mguard ; om_args : list amapping }.
Record convmapping := mkConvMapping
  { cm_repeat_for : option path ; cm_repeat_as : string ; cm_repeat_index : string ; cm_options : list optmapping }.
Record converter := mkConverter
  { cv_pkg : string ; cv_builder : string ; cv_ctor_args : list (path * ty) ; cv_mappings : list convmapping }.

(* ---------- FromBuilder ---------- *)
Definition root_item (name : string) (t : ty) : pathitem := mkPathItem name None t None true.
Definition input_root (b : builder) : path :=
  [root_item "input" (TRef attrs0 (builder_for_pkg b) (builder_for_name b))].

(* NullableConfig of the Go language: Kinds = map, array; AnyIsNullable *)
Definition go_type_is_nullable (t : ty) : bool := (t_nullable t || is_any t || is_map t || is_array t)%bool.

Definition path_string (p : path) : string := String.concat "." (map pi_id p).

(* assignmentKey, structurally: path, constant, envelope paths *)
Definition akey := (string * dyn * list string)%type.
Definition assignment_key (a : assignment) : akey :=
  match as_value a with
  | AValue _ c env =>
      (path_string (as_path a), c,
       match env with Some (_, vals) => map (fun pv => path_string (fst pv)) vals | None => [] end)
  end.
Definition akey_eqb (a b : akey) : bool :=
  let '(p, c, e) := a in let '(q, d, f) := b in
  (seqb p q && dyn_eqb c d && strings_eqb e f)%bool.
Definition generated (gp : list akey) (a : assignment) : bool := existsb (akey_eqb (assignment_key a)) gp.

(* guards kept in an ordered map keyed by their printed form: here, first occurrence wins *)
Definition guard_eqb (a b : mguard) : bool :=
  (seqb (path_string (mg_path a)) (path_string (mg_path b)) && seqb (mg_op a) (mg_op b) && dyn_eqb (mg_value a) (mg_value b))%bool.
Fixpoint add_guard (gs : list mguard) (g : mguard) : list mguard :=
  match gs with
  | [] => [g]
  | x :: r => if guard_eqb x g then g :: r else x :: add_guard r g
  end.

Fixpoint prefixes {A} (l : list A) : list (list A) :=
  match l with
  | [] => []
  | x :: r => [x] :: map (cons x) (prefixes r)
  end.

Definition path_not_null_guards (root p : path) : list mguard :=
  flat_map (fun pre => if go_type_is_nullable (path_last_type pre) then [mkGuard (root ++ pre) "!=" DNil] else [])
           (prefixes p).

Definition has_const (a : assignment) : bool := match as_value a with AValue _ c _ => negb (dyn_is_nil c) end.
Definition const_of (a : assignment) : dyn := match as_value a with AValue _ c _ => c end.
Definition envelope_of (a : assignment) : option (ty * list (path * avalue)) := match as_value a with AValue _ _ e => e end.

Definition guards_for_assignment (root : path) (a : assignment) : list mguard :=
  let nulls := path_not_null_guards root (as_path a) in
  if seqb (as_method a) "index" then nulls else
  if has_const a then nulls ++ [mkGuard (root ++ as_path a) "==" (const_of a)] else
  let t := path_last_type (as_path a) in
  nulls ++
  (if is_array t then [mkGuard (root ++ as_path a) "minLength" (DInt "int" 1)] else []) ++
  (match t with
   | TScalar _ KString _ _ => if is_datetime t then [] else [mkGuard (root ++ as_path a) "!=" (DStr "")]
   | _ => [] end) ++
  (match t with
   | TScalar at_ _ _ _ => if dyn_is_nil (dflt at_) then [] else [mkGuard (root ++ as_path a) "!=" (dflt at_)]
   | _ => [] end) ++
  (match envelope_of a with
   | Some (_, vals) => if seqb (as_method a) "append" then []
                       else map (fun pv => mkGuard (root ++ as_path a ++ fst pv) "!=" DNil) vals
   | None => [] end).

Definition guard_for_assignments (root : path) (l : list assignment) : list mguard :=
  fold_left (fun gs a => fold_left add_guard (guards_for_assignment root a) gs) l [].

(* isAssignmentFromDisjunctionStruct *)
Definition from_disjunction_struct (e : benv) (a : assignment) : bool :=
  match envelope_of a with
  | None => false
  | Some (et, _) =>
      let t := match et with
               | TRef _ p n => match locate_object (be_ctx e) p n with Some o => o_type o | None => ty_zero end
               | _ => et end in
      match union_scalars t, union_refs t with None, None => false | _, _ => true end
  end.

(* argumentForType *)
Fixpoint argument_for_type (fuel : nat) (e : benv) (arg_name : string) (vp : path) (t : ty) : argmap :=
  match fuel with
  | O => AMUnmodelled "fuel"
  | S f =>
      match t with
      | TSlot _ _ => AMUnmodelled "composable slot"
      | TDisj _ _ => AMUnmodelled "disjunction"
      | TArray _ vt =>
          AMArray vp t (argument_for_type f e (String.append arg_name "Value") [root_item arg_name vt] vt) arg_name
      | TMap _ _ vt =>
          AMMap vp t (argument_for_type f e (String.append arg_name "Value") [root_item arg_name vt] vt) arg_name
      | TRef _ p n =>
          match builders_for_ref (be_builders e) p n with
          | [] => AMDirect vp t
          | [b] => AMBuilder vp t (b_pkg b) (b_name b)
          | _ => AMUnmodelled "several builders for one object"
          end
      | _ => AMDirect vp t
      end
  end.

Definition arg_fuel : nat := 8.

Definition is_index (a : assignment) : bool := seqb (as_method a) "index".
Definition is_append (a : assignment) : bool := seqb (as_method a) "append".

Definition index_arg_type (p : path) : option ty :=
  match pi_index (List.last p (mkPathItem "" None ty_zero None false)) with
  | Some ix => match px_arg ix with Some a => Some (a_type a) | None => None end
  | None => None
  end.

(* mappingForOption: (the option mapping, the new generatedPaths); None = OptionMapping{} *)
Definition mapping_for_option (e : benv) (b : builder) (gp : list akey) (cm : convmapping) (o : boption)
  : option optmapping * list akey :=
  let root := input_root b in
  let todo := filter (fun a => negb (generated gp a)) (op_assignments o) in
  match todo with
  | [] => (None, gp)
  | _ =>
      let step := fun (acc : list amapping * list akey * nat) (a : assignment) =>
        let '(args, gp, i) := acc in
        let i := S i in
        let gp := gp ++ [assignment_key a] in
        if has_const a then (args, gp, i) else
        let arg_name := String.append "arg" (itoa i) in
        let vt := path_last_type (as_path a) in
        let vp := root ++ as_path a in
        (* `if mapping.RepeatFor != nil && valueType.IsArray()` only re-targets the value at the loop variable *)
        let '(vt', vp', retargeted) :=
          match cm_repeat_for cm, vt with
          | Some _, TArray _ et => (et, [root_item (cm_repeat_as cm) et], true)
          | _, _ => (vt, vp, false)
          end in
        if (negb retargeted && match cm_repeat_for cm with Some _ => true | None => false end && is_index a)%bool then
          match index_arg_type (as_path a) with
          | Some it =>
              (args ++ [mkAMapping (argument_for_type arg_fuel e (cm_repeat_index cm) [root_item (cm_repeat_index cm) vt] it) [];
                        mkAMapping (argument_for_type arg_fuel e arg_name [root_item (cm_repeat_as cm) vt] vt) []], gp, i)
          | None => (args ++ [mkAMapping (AMUnmodelled "index without argument") []], gp, i)
          end
        else
        if from_disjunction_struct e a then
          (* argumentFromDisjunctionStruct: the argument is read from the first envelope member, guarded by
             `member != nil` for every envelope member *)
          match envelope_of a with
          | Some (_, ((p0, _) :: _) as vals) =>
              (args ++ [mkAMapping (argument_for_type arg_fuel e arg_name (vp' ++ p0) (path_last_type p0))
                                   (map (fun pv => mkGuard (vp' ++ fst pv) "!=" DNil) vals)], gp, i)
          | _ => (args ++ [mkAMapping (AMUnmodelled "empty envelope of a disjunction struct") []], gp, i)
          end
        else
        match envelope_of a with
        | Some (_, vals) =>
            (args ++ map (fun pv => mkAMapping (argument_for_type arg_fuel e arg_name (vp' ++ fst pv) (path_last_type (vp' ++ fst pv))) []) vals,
             gp, i)
        | None => (args ++ [mkAMapping (argument_for_type arg_fuel e arg_name vp' vt') []], gp, i)
        end in
      let '(args, gp', _) := fold_left step todo ([], gp, 0%nat) in
      (Some (mkOptMapping o (guard_for_assignments root (op_assignments o)) args), gp')
  end.

Definition drop_last {A} (l : list A) : list A := List.removelast l.

(* bookkeeping of generator.listOfDisjunctionOptions: convertOption returns an EMPTY mapping for an option that
   appends one branch of a union to a list and remembers the option under the list's path.  Here the empty
   mapping itself carries the note (cm_repeat_as = the marker, cm_repeat_index = the path; no options, so it is
   filtered out like every empty mapping); from_builder reads the notes back in option order *)
Definition lod_marker_name : string := "<list-of-disjunction-options>".
Definition lod_marker (path : string) : convmapping := mkConvMapping None lod_marker_name path [].
Definition is_lod_marker (m : convmapping) : bool :=
  (seqb (cm_repeat_as m) lod_marker_name && match cm_options m with [] => true | _ => false end
   && match cm_repeat_for m with None => true | Some _ => false end)%bool.

(* convertOption *)
Definition convert_option (e : benv) (b : builder) (gp : list akey) (o : boption) : convmapping * list akey :=
  let empty := mkConvMapping None "" "" [] in
  let todo := filter (fun a => negb (generated gp a)) (op_assignments o) in
  match todo with
  | [] => (empty, gp)
  | a0 :: rest =>
      let single := match rest with [] => true | _ => false end in
      let cm :=
        if (single && is_append a0)%bool then mkConvMapping (Some (input_root b ++ as_path a0)) "item" "" []
        else if (single && is_index a0)%bool then mkConvMapping (Some (input_root b ++ drop_last (as_path a0))) "value" "key" []
        else empty in
      match cm_repeat_for cm with
      | Some _ =>
          if from_disjunction_struct e a0
          then (lod_marker (path_string (as_path a0)), gp)        (* listOfDisjunctionOptions[path] += option *)
          else
            match mapping_for_option e b gp cm o with
            | (Some om, gp') => (mkConvMapping (cm_repeat_for cm) (cm_repeat_as cm) (cm_repeat_index cm) [om], gp')
            | (None, gp') => (empty, gp')
            end
      | None =>
          match mapping_for_option e b gp cm o with
          | (Some om, gp') => (mkConvMapping None "" "" [om], gp')
          | (None, gp') => (empty, gp')
          end
      end
  end.

(* the groups of listOfDisjunctionOptions, in order of first appearance (Go ranges over a map: the order of
   the groups is not fixed; they concern different lists) *)
Fixpoint lod_add (groups : list (string * list boption)) (k : string) (o : boption) : list (string * list boption) :=
  match groups with
  | [] => [(k, [o])]
  | (k', os) :: r => if seqb k' k then (k', os ++ [o]) :: r else (k', os) :: lod_add r k o
  end.

Definition lod_groups (opts : list boption) (ms : list convmapping) : list (string * list boption) :=
  fold_left (fun g om => if is_lod_marker (snd om) then lod_add g (cm_repeat_index (snd om)) (fst om) else g)
            (combine opts ms) [].

(* convertListOfDisjunctionOptions: ONE loop over the list, every branch option inside it *)
Definition convert_lod (e : benv) (b : builder) (gp : list akey) (opts : list boption) : convmapping * list akey :=
  match opts with
  | o0 :: _ =>
      match op_assignments o0 with
      | a0 :: _ =>
          let cm := mkConvMapping (Some (input_root b ++ as_path a0)) "item" "" [] in
          let '(oms, gp') :=
            fold_left (fun acc o => let '(oms, gp) := acc in
                                    match mapping_for_option e b gp cm o with
                                    | (Some om, gp') => (oms ++ [om], gp')
                                    | (None, gp') => (oms, gp')
                                    end) opts ([], gp) in
          (mkConvMapping (cm_repeat_for cm) "item" "" oms, gp')
      | [] => (mkConvMapping None "" "" [], gp)
      end
  | [] => (mkConvMapping None "" "" [], gp)
  end.

Definition lod_mappings (e : benv) (b : builder) (gp : list akey) (groups : list (string * list boption)) : list convmapping :=
  fst (fold_left (fun acc g => let '(lms, gp) := acc in
                               let '(m, gp') := convert_lod e b gp (snd g) in (lms ++ [m], gp'))
                 groups ([], gp)).

Definition from_builder (e : benv) (b : builder) : converter :=
  let ctor_args :=
    flat_map (fun a => match as_value a with
                       | AValue (Some _) _ _ => [(input_root b ++ as_path a, path_last_type (as_path a))]
                       | _ => [] end) (ct_assignments (b_ctor b)) in
  let '(ms, gp) := fold_left (fun acc o => let '(ms, gp) := acc in
                                           let '(m, gp') := convert_option e b gp o in (ms ++ [m], gp'))
                             (b_options b) ([], []) in
  mkConverter (b_pkg b) (b_name b) ctor_args
              (filter (fun m => negb (match cm_options m with [] => true | _ => false end))
                      (ms ++ lod_mappings e b gp (lod_groups (b_options b) ms))).

(* ---------- what the generated converter does on a value ---------- *)
Definition venv := list (string * gval).
Fixpoint venv_find (env : venv) (n : string) : option gval :=
  match env with [] => None | (k, v) :: r => if seqb k n then Some v else venv_find r n end.

(* a Go expression `root.Field.Field`: Some v; a nil pointer on the way panics *)
Inductive pread := PRVal (v : gval) | PRPanic | PRUnm (why : string).

Fixpoint read_fields (p : path) (v : gval) : pread :=
  match p with
  | [] => PRVal v
  | it :: rest =>
      match pi_index it with
      | Some _ => PRUnm "index in a converter path"
      | None =>
          match v with
          | GStruct fs | GPtr (GStruct fs) =>
              match gmap_find fs (pi_id it) with
              | Some x => read_fields rest x
              | None => PRUnm "path names a field the value does not have"
              end
          | GNil => PRPanic
          | _ => PRUnm "path through a value that is not a struct"
          end
      end
  end.

Definition read_path (env : venv) (p : path) : pread :=
  match p with
  | it :: rest =>
      if pi_root it then
        match venv_find env (pi_id it) with
        | Some v => read_fields rest v
        | None => PRUnm "unknown variable"
        end
      else PRUnm "path without root"
  | [] => PRUnm "empty path"
  end.

(* {{ .Type | maybeDereference }}{{ path }} *)
Definition read_deref (env : venv) (p : path) (t : ty) : pread :=
  match read_path env p with
  | PRVal v => if as_pointer t then match v with GPtr x => PRVal x | GNil => PRPanic | _ => PRUnm "pointer expected" end
               else PRVal v
  | x => x
  end.

Definition gval_is_const (v : gval) (c : dyn) : option bool :=
  match v, c with
  | GStr s, DStr s' => Some (String.eqb s s')
  | GBool b, DBool b' => Some (Bool.eqb b b')
  | GInt z, DInt _ z' => Some (Z.eqb z z')
  | GInt z, DFloat _ r => match parse_dec r with Some (m, e) => Some (num_eqb z 0 m e) | None => None end
  | GFloat m e, DInt _ z => Some (num_eqb m e z 0)
  | GFloat m e, DFloat _ r => match parse_dec r with Some (m', e') => Some (num_eqb m e m' e') | None => None end
  | _, _ => None
  end.

(* one guard: GOk true/false, GPanic *)
Definition eval_guard (env : venv) (g : mguard) : outcome bool :=
  if (seqb (mg_op g) "!=" && dyn_is_nil (mg_value g))%bool then
    match read_path env (mg_path g) with
    | PRVal v => GOk (negb (is_nil v))
    | PRPanic => GPanic
    | PRUnm w => GUnmodelled w
    end
  else
    match read_deref env (mg_path g) (path_last_type (mg_path g)) with
    | PRPanic => GPanic
    | PRUnm w => GUnmodelled w
    | PRVal v =>
        if seqb (mg_op g) "minLength" then
          match mg_value g with
          | DInt _ n => GOk (Z.leb n (Z.of_nat (glen v)))
          | _ => GUnmodelled "guard"
          end
        else
          match gval_is_const v (mg_value g) with
          | Some b => if seqb (mg_op g) "==" then GOk b else if seqb (mg_op g) "!=" then GOk (negb b) else GUnmodelled "guard operator"
          | None => GUnmodelled "guard compares values of different kinds"
          end
    end.

(* `g1 && g2 && ...` *)
Fixpoint eval_guards (env : venv) (gs : list mguard) : outcome bool :=
  match gs with
  | [] => GOk true
  | g :: r => dob b <- eval_guard env g ; if b then eval_guards env r else GOk false
  end.

Definition all_vals (l : list barg) : option (list gval) :=
  fold_right (fun a acc => match a, acc with BVal v, Some vs => Some (v :: vs) | _, _ => None end) (Some []) l.

Definition convert_fuel : nat := 8.

(* cog.Dump (the runtime helper the converters call for non-scalar values): a map entry whose value is nil is
   not printed and a time.Time is printed as `time.Time{}`; everything else denotes the value again *)
Fixpoint json_drop_null_members (j : json) : json :=
  match j with
  | JObj ms =>
      JObj ((fix go (ms : list (string * json)) : list (string * json) :=
               match ms with
               | [] => []
               | (k, JNull) :: r => go r
               | (k, x) :: r => (k, json_drop_null_members x) :: go r
               end) ms)
  | JArr l => JArr (map json_drop_null_members l)
  | _ => j
  end.

Fixpoint dump_gval (v : gval) : gval :=
  match v with
  | GAny j => GAny (canon (json_drop_null_members j))
  | GTime _ _ => zero_time          (* dumpStruct prints exported fields only: `time.Time{}` *)
  | GPtr x => GPtr (dump_gval x)
  | GSlice l => GSlice (map dump_gval l)
  | GMap kvs =>
      GMap ((fix go (kvs : list (string * gval)) : list (string * gval) :=
               match kvs with
               | [] => []
               | (k, GNil) :: r => go r
               | (k, x) :: r => (k, dump_gval x) :: go r
               end) kvs)
  | GStruct fs =>
      GStruct ((fix go (fs : list (string * gval)) : list (string * gval) :=
                  match fs with
                  | [] => []
                  | (k, x) :: r => (k, dump_gval x) :: go r
                  end) fs)
  | _ => v
  end.

(* value_formatter: fmt.Sprintf("%#v", x) for scalars, cog.Dump(x) otherwise *)
Definition formatted (t : ty) (v : gval) : gval :=
  if (is_scalar t && negb (is_any t))%bool then v else dump_gval v.

Section Convert.
  Variable e : benv.

  (* the expression printed for one argument mapping *)
  Fixpoint conv_arg (conv : string -> string -> gval -> outcome barg) (env : venv) (am : argmap) {struct am} : outcome barg :=
    match am with
    | AMDirect p t =>
        match (if is_any t then read_path env p else read_deref env p t) with
        | PRVal v => GOk (BVal (formatted t v))
        | PRPanic => GPanic
        | PRUnm w => GUnmodelled w
        end
    | AMBuilder p t bp bn =>
        match (if t_nullable t then read_deref env p t else read_path env p) with
        | PRVal v => conv bp bn v
        | PRPanic => GPanic
        | PRUnm w => GUnmodelled w
        end
    | AMArray for_ fort arg var =>
        match read_path env for_ with
        | PRVal (GSlice l) =>
            dob items <- omapM (fun x => conv_arg conv ((var, x) :: env) arg) l ;
            GOk (match all_vals items with Some vs => BVal (GSlice vs) | None => BList items end)
        | PRVal GNil => GOk (BVal (GSlice []))
        | PRVal _ => GUnmodelled "array mapping over a value that is not a slice"
        | PRPanic => GPanic
        | PRUnm w => GUnmodelled w
        end
    | AMMap for_ fort arg var =>
        match read_path env for_ with
        | PRVal (GMap kvs) =>
            dob items <- omapM (fun kv => dob x <- conv_arg conv ((var, snd kv) :: env) arg ; GOk (fst kv, x)) kvs ;
            GOk (match all_vals (map snd items) with
                 | Some vs => BVal (GMap (combine (map fst items) vs))
                 | None => BMapB items end)
        | PRVal GNil => GOk (BVal (GMap []))
        | PRVal _ => GUnmodelled "map mapping over a value that is not a map"
        | PRPanic => GPanic
        | PRUnm w => GUnmodelled w
        end
    | AMUnmodelled w => GUnmodelled w
    end.

  (* option_mapping: zero or one call *)
  Definition conv_option (conv : string -> string -> gval -> outcome barg) (env : venv) (om : optmapping)
    : outcome (list (string * list barg)) :=
    dob ok <- eval_guards env (flat_map am_guards (om_args om)) ;
    if negb ok then GOk [] else
    dob args <- omapM (fun a => conv_arg conv env (am_arg a)) (om_args om) ;
    GOk [(op_name (om_option om), args)].

  (* conversion_mapping *)
  Definition conv_mapping (conv : string -> string -> gval -> outcome barg) (env : venv) (cm : convmapping)
    : outcome (list (string * list barg)) :=
    match cm_options cm with
    | [] => GOk []
    | first :: _ =>
        dob ok <- eval_guards env (om_guards first) ;
        if negb ok then GOk [] else
        let body := fun env' => dob cs <- omapM (conv_option conv env') (cm_options cm) ; GOk (List.concat cs) in
        match cm_repeat_for cm with
        | None => body env
        | Some p =>
            match read_path env p with
            | PRVal (GSlice l) => dob cs <- omapM (fun x => body ((cm_repeat_as cm, x) :: env)) l ; GOk (List.concat cs)
            | PRVal (GMap kvs) =>
                dob cs <- omapM (fun kv => body ((cm_repeat_index cm, GStr (fst kv)) :: (cm_repeat_as cm, snd kv) :: env)) kvs ;
                GOk (List.concat cs)
            | PRVal GNil => GOk []
            | PRVal _ => GUnmodelled "range over a value that is neither a slice nor a map"
            | PRPanic => GPanic
            | PRUnm w => GUnmodelled w
            end
        end
    end.

  (* <Builder>Converter(input) for the builder named (p, n) *)
  Fixpoint convert (fuel : nat) (p n : string) (v : gval) {struct fuel} : outcome barg :=
    match fuel with
    | O => GUnmodelled "fuel"
    | S f =>
        match locate_builder (be_builders e) p n with
        | None => GUnmodelled "unknown builder"
        | Some b =>
            let cv := from_builder e b in
            let env := [("input", v)] in
            dob ctor <- omapM (fun pt => match (if is_any (snd pt) then read_path env (fst pt) else read_deref env (fst pt) (snd pt)) with
                                         | PRVal x => GOk (BVal (formatted (snd pt) x)) | PRPanic => GPanic | PRUnm w => GUnmodelled w end)
                              (cv_ctor_args cv) ;
            dob calls <- omapM (conv_mapping (convert f) env) (cv_mappings cv) ;
            GOk (BBuild (builder_for_pkg b) (b_name b) ctor (List.concat calls))
        end
    end.
End Convert.

Definition converter_output (e : benv) (p n : string) (v : gval) : outcome barg := convert e convert_fuel p n v.

(* converting, then compiling and running the emitted expression *)
Definition convert_then_build (e : benv) (p n : string) (v : gval) : outcome bresult :=
  dob a <- converter_output e p n v ;
  match a with
  | BBuild bp bn ctor calls =>
      dob r <- builder_eval e bp bn ctor calls ; GOk (snd r)
  | _ => GUnmodelled "converter output"
  end.

Definition call_names (a : barg) : list string :=
  match a with BBuild _ _ _ calls => map fst calls | _ => [] end.
