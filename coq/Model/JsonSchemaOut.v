(* The JSON Schema / OpenAPI documents cog emits (property C12).  Definitions only.

   emit_type / emit_schema / emit_openapi mirror internal/jennies/jsonschema/schema.go
   (formatType, formatScalar, formatStruct, formatRef, formatEnum, formatArray, formatMap,
   formatDisjunction, formatComposableSlot, objectToDefinition, GenerateSchema with its loop over
   foreign objects) and internal/jennies/openapi/schema.go (generateSchema: the same definitions
   under components.schemas with the other reference formatter).  The input is the context the
   jenny receives (languages.Context.Schemas after the jsonschema / openapi chain).

   The emitted document is kept as abstract syntax `jschema` of EXACTLY the shapes the formatters
   produce; `render` prints it as the JSON value the jenny marshals (member order as emitted);
   `js_valid` is a Draft-07 validator for exactly these shapes ($ref through the definitions table).

   Mirrored, including what looks wrong: Nullable is never consulted; `any` and composable slots are
   `{"type":"object","additionalProperties":{}}`; constant references, intersections and kinds
   without payload fall through formatType's switch and are `{}`; foreign objects are stored under
   their BARE name (a later definition of the same name replaces the earlier one, in place);
   the foreign-object loop remembers the SelfRef strings it has converted (since the fix of
   C12-foreign-recursive-type-hangs): every round but the last converts an object not seen before, so
   `emit_fuel` rounds suffice (Props/C12.v emitter_returns). *)
From Coq Require Import List String ZArith Bool Ascii.
From Cog Require Import Model.IR Model.Json Model.GoSemBase.
Import ListNotations.
Local Open Scope list_scope.
Local Open Scope string_scope.

(* ---------- encoding/json of a Go `any` ---------- *)
Fixpoint jo_digits (l : list ascii) (acc : Z) : option Z :=
  match l with
  | [] => Some acc
  | c :: r => match digit_val c with Some d => jo_digits r (acc * 10 + Z.of_nat d)%Z | None => None end
  end.
Fixpoint jo_split (c : ascii) (l : list ascii) : list ascii * option (list ascii) :=
  match l with
  | [] => ([], None)
  | x :: r => if Ascii.eqb x c then ([], Some r) else let '(a, b) := jo_split c r in (x :: a, b)
  end.
Definition jo_signed (l : list ascii) : bool * list ascii :=
  match l with
  | c :: r => if Ascii.eqb c "-" then (true, r) else if Ascii.eqb c "+" then (false, r) else (false, l)
  | [] => (false, [])
  end.
(* "12.5", "-3", "1e+06", "2.5e-07" -> (m, e) : the number a JSON reader sees *)
Definition jo_parse_dec (s : string) : option (Z * Z) :=
  let '(neg, body) := jo_signed (str_list s) in
  let '(mant, ex) := jo_split "e"%char body in
  let '(ip, fp) := jo_split "."%char mant in
  let fp := match fp with Some f => f | None => [] end in
  match jo_digits (ip ++ fp)%list 0, (ip ++ fp)%list with
  | Some m, _ :: _ =>
      let e0 := (- Z.of_nat (List.length fp))%Z in
      match ex with
      | None => Some (if neg then (- m)%Z else m, e0)
      | Some x =>
          let '(eneg, eb) := jo_signed x in
          match jo_digits eb 0, eb with
          | Some ev, _ :: _ => Some (if neg then (- m)%Z else m, (e0 + (if eneg then - ev else ev))%Z)
          | _, _ => None
          end
      end
  | _, _ => None
  end.

Fixpoint dyn_to_json (d : dyn) : json :=
  match d with
  | DNil => JNull
  | DBool b => JBool b
  | DInt _ z => JNum z 0
  | DFloat _ r => match jo_parse_dec r with Some (m, e) => JNum m e | None => JStr r end
  | DStr s => JStr s
  | DList l => JArr (map dyn_to_json l)
  | DMap l => JObj (map (fun kv => (fst kv, dyn_to_json (snd kv))) l)
  | DOther _ r => JStr r
  end.

(* values the model prints faithfully *)
Fixpoint dyn_modelled (d : dyn) : bool :=
  match d with
  | DFloat _ r => match jo_parse_dec r with Some _ => true | None => false end
  | DList l => forallb dyn_modelled l
  | DMap l => forallb (fun kv => dyn_modelled (snd kv)) l
  | DOther _ _ => false
  | _ => true
  end.

(* ---------- the insertion-ordered map of the jenny (orderedmap.Set: replace in place, else append) ---------- *)
Fixpoint om_set {V} (l : list (string * V)) (k : string) (v : V) : list (string * V) :=
  match l with
  | [] => [(k, v)]
  | (k', v') :: r => if seqb k' k then (k', v) :: r else (k', v') :: om_set r k v
  end.
Fixpoint om_get {V} (l : list (string * V)) (k : string) : option V :=
  match l with
  | [] => None
  | (k', v') :: r => if seqb k' k then Some v' else om_get r k
  end.
Definition om_of {V} (l : list (string * V)) : list (string * V) :=
  fold_left (fun acc kv => om_set acc (fst kv) (snd kv)) l [].

(* ---------- abstract syntax of what the formatters emit ---------- *)
Inductive jschema :=
| JSAnyObj                                   (* formatScalar KindAny, formatComposableSlot *)
| JSEmpty                                    (* formatType default: orderedmap.New() *)
| JSScalar (ms : list (string * json))       (* formatScalar: type / constraints / format / const, in Set order *)
| JSRef (pkg name : string)                  (* formatRef *)
| JSEnum (vals : list json)                  (* formatEnum *)
| JSArray (items : jschema)                  (* formatArray *)
| JSMap (vals : jschema)                     (* formatMap *)
| JSStruct (required : list string) (props : list (string * (jschema * string * option json)))
                                             (* formatStruct: property -> (definition, description, default) *)
| JSAnyOf (bs : list jschema).               (* formatDisjunction *)

Definition jprop := (jschema * string * option json)%type.

(* strings.Join(comments, "\n") *)
Definition nl : string := String (ascii_of_nat 10) EmptyString.
Fixpoint join_lines (l : list string) : string :=
  match l with
  | [] => ""
  | [x] => x
  | x :: r => x ++ nl ++ join_lines r
  end.

(* addStringConstraints / addNumberConstraints: the keyword a constraint becomes *)
Definition string_kw (op : string) : option string :=
  if seqb op "minLength" then Some "minLength" else if seqb op "maxLength" then Some "maxLength" else None.
Definition number_kw (op : string) : option string :=
  if seqb op "<" then Some "exclusiveMaximum" else if seqb op "<=" then Some "maximum"
  else if seqb op ">" then Some "exclusiveMinimum" else if seqb op ">=" then Some "minimum"
  else if seqb op "%" then Some "multipleOf" else None.

Definition first_arg (c : constraint) : json :=
  match c_args c with a :: _ => dyn_to_json a | [] => JNull end.   (* Args[0] on an empty list panics in Go *)

Definition add_constraints (kw : string -> option string) (cs : list constraint) (ms : list (string * json)) :=
  fold_left (fun acc c => match kw (c_op c) with Some k => om_set acc k (first_arg c) | None => acc end) cs ms.

Definition is_int_kind (k : skind) : bool :=
  match k with KUint8 | KUint16 | KUint32 | KUint64 | KInt8 | KInt16 | KInt32 | KInt64 => true | _ => false end.

Definition format_scalar (t : ty) (k : skind) (value : dyn) (cs : list constraint) : jschema :=
  match k with
  | KAny => if dyn_is_nil value then JSAnyObj
            else JSScalar [("type", JStr "object"); ("additionalProperties", JObj []); ("const", dyn_to_json value)]
  | _ =>
      let ms :=
        match k with
        | KNull => [("type", JStr "null")]
        | KBytes => add_constraints string_kw cs [("type", JStr "string")]
        | KString =>
            let ms := add_constraints string_kw cs [("type", JStr "string")] in
            if has_hint t "string_format_datetime" then om_set ms "format" (JStr "date-time") else ms
        | KBool => [("type", JStr "boolean")]
        | KFloat32 | KFloat64 => add_constraints number_kw cs [("type", JStr "number")]
        | KOther _ => []
        | _ => add_constraints number_kw cs [("type", JStr "integer")]
        end in
      JSScalar (if dyn_is_nil value then ms else om_set ms "const" (dyn_to_json value))
  end.

Fixpoint emit_type (t : ty) : jschema :=
  match t with
  | TStruct _ _ fs =>
      JSStruct (map (fun f => f_name f) (filter (fun f => f_required f) fs))
               (om_of (map (fun f => (f_name f,
                                      (emit_type (f_type f), join_lines (f_comments f),
                                       if dyn_is_nil (dflt (ty_attrs (f_type f))) then None
                                       else Some (dyn_to_json (dflt (ty_attrs (f_type f))))))) fs))
  | TScalar _ k v cs => format_scalar t k v cs
  | TRef _ p n => JSRef p n
  | TEnum _ vs => JSEnum (map (fun ev => dyn_to_json (ev_value ev)) vs)
  | TArray _ v => JSArray (emit_type v)
  | TMap _ _ v => JSMap (emit_type v)
  | TDisj _ d => JSAnyOf (map emit_type (d_branches d))
  | TSlot _ _ => JSAnyObj
  | TConstRef _ _ _ _ | TInter _ _ | TBad _ _ => JSEmpty
  end.

(* the references formatRef meets while formatting t, in order (formatType's traversal: struct fields,
   array elements, map VALUES, union branches) *)
Fixpoint refs_of (t : ty) : list (string * string) :=
  match t with
  | TStruct _ _ fs => flat_map (fun f => refs_of (f_type f)) fs
  | TRef _ p n => [(p, n)]
  | TArray _ v => refs_of v
  | TMap _ _ v => refs_of v
  | TDisj _ d => flat_map refs_of (d_branches d)
  | _ => []
  end.

Definition jdef := (jschema * string)%type.        (* definition, description *)

Definition object_to_definition (o : object) : jdef := (emit_type (o_type o), join_lines (o_comments o)).

Definition self_key (o : object) : string := o_selfpkg o ++ "." ++ o_selfname o.

(* the foreign objects formatRef stores while formatting `os` (keyed by SelfRef.String()) *)
Definition collect_foreign (ctx : schemas) (pkg : string) (os : list object) : list (string * object) :=
  fold_left (fun acc pn =>
               if seqb (fst pn) pkg then acc
               else match locate_object ctx (fst pn) (snd pn) with
                    | Some o => om_set acc (self_key o) o
                    | None => acc
                    end)
            (flat_map (fun o => refs_of (o_type o)) os) [].

Definition set_definitions (defs : list (string * jdef)) (os : list object) : list (string * jdef) :=
  fold_left (fun acc o => om_set acc (o_name o) (object_to_definition o)) os defs.

(* the loop over foreign objects of GenerateSchema, with its `converted` set (SelfRef strings of the foreign
   objects already turned into definitions): an object collected again is skipped, so a foreign type that
   refers to itself is converted once and the loop ends *)
Definition not_converted (visited : list string) (pending : list (string * object)) : list (string * object) :=
  filter (fun ko => negb (str_in (fst ko) visited)) pending.

Fixpoint foreign_loop (ctx : schemas) (pkg : string) (fuel : nat) (visited : list string)
         (defs : list (string * jdef)) (pending : list (string * object)) : res (list (string * jdef)) :=
  match pending with
  | [] => Ok defs
  | _ =>
      match fuel with
      | O => OutOfFuel
      | S f =>
          let todo := not_converted visited pending in
          let os := map snd todo in
          foreign_loop ctx pkg f (visited ++ map fst todo) (set_definitions defs os) (collect_foreign ctx pkg os)
      end
  end.

Record jdoc := mkJDoc { jd_entry : option (string * string) ; jd_defs : list (string * jdef) }.

(* GenerateSchema *)
Definition emit_schema (ctx : schemas) (fuel : nat) (s : schema) : res jdoc :=
  let os := map snd (s_objects s) in
  match foreign_loop ctx (s_pkg s) fuel [] (set_definitions [] os) (collect_foreign ctx (s_pkg s) os) with
  | Ok defs => Ok (mkJDoc (if seqb (s_entry s) "" then None else Some (s_pkg s, s_entry s)) defs)
  | Err e => Err e | Panic w => Panic w | OutOfFuel => OutOfFuel
  end.

(* enough rounds for every run: each round converts a foreign object not converted before, except the
   last two (nothing left to convert; nothing collected) *)
Definition emit_fuel (ctx : schemas) : nat := S (S (count_objects ctx)).

(* ---------- rendering ---------- *)
Definition jsonschema_prefix : string := "#/definitions/".
Definition openapi_prefix : string := "#/components/schemas/".

Definition with_extras (j : json) (descr : string) (dfl : option json) : json :=
  match j with
  | JObj ms =>
      let ms := if seqb descr "" then ms else om_set ms "description" (JStr descr) in
      JObj (match dfl with Some d => om_set ms "default" d | None => ms end)
  | _ => j
  end.

Fixpoint render (prefix : string) (s : jschema) : json :=
  match s with
  | JSAnyObj => JObj [("type", JStr "object"); ("additionalProperties", JObj [])]
  | JSEmpty => JObj []
  | JSScalar ms => JObj ms
  | JSRef _ n => JObj [("$ref", JStr (prefix ++ n))]
  | JSEnum vs => JObj [("enum", JArr vs)]
  | JSArray i => JObj [("type", JStr "array"); ("items", render prefix i)]
  | JSMap v => JObj [("type", JStr "object"); ("additionalProperties", render prefix v)]
  | JSStruct req props =>
      JObj ([("type", JStr "object"); ("additionalProperties", JBool false)] ++
            (match req with [] => [] | _ => [("required", JArr (map JStr req))] end) ++
            [("properties",
              JObj (map (fun np => (fst np,
                                    let '(ps, descr, dfl) := snd np in with_extras (render prefix ps) descr dfl))
                        props))])%list
  | JSAnyOf bs => JObj [("anyOf", JArr (map (render prefix) bs))]
  end.

Definition render_defs (prefix : string) (defs : list (string * jdef)) : json :=
  JObj (map (fun nd => (fst nd, with_extras (render prefix (fst (snd nd))) (snd (snd nd)) None)) defs).

Definition render_jsonschema (d : jdoc) : json :=
  JObj ([("$schema", JStr "http://json-schema.org/draft-07/schema#")] ++
        (match jd_entry d with Some (_, n) => [("$ref", JStr (jsonschema_prefix ++ n))] | None => [] end) ++
        [("definitions", render_defs jsonschema_prefix (jd_defs d))])%list.

Definition render_openapi (s : schema) (d : jdoc) : json :=
  JObj [("openapi", JStr "3.0.0");
        ("info", JObj ([("title", JStr (s_pkg s)); ("version", JStr "0.0.0");
                        ("x-schema-identifier", JStr (m_identifier (s_meta s)));
                        ("x-schema-kind", JStr (m_kind (s_meta s)))] ++
                       (if seqb (m_variant (s_meta s)) "" then [] else [("x-schema-variant", JStr (m_variant (s_meta s)))]))%list);
        ("paths", JObj []);
        ("components", JObj [("schemas", render_defs openapi_prefix (jd_defs d))])].

(* ---------- structure: references and what they point to ---------- *)
Fixpoint schema_refs (s : jschema) : list string :=
  match s with
  | JSRef _ n => [n]
  | JSArray i => schema_refs i
  | JSMap v => schema_refs v
  | JSStruct _ props => flat_map (fun np => schema_refs (fst (fst (snd np)))) props
  | JSAnyOf bs => flat_map schema_refs bs
  | _ => []
  end.

Definition doc_refs (d : jdoc) : list string :=
  ((match jd_entry d with Some (_, n) => [n] | None => [] end) ++
   flat_map (fun nd => schema_refs (fst (snd nd))) (jd_defs d))%list.

Definition def_names (d : jdoc) : list string := map fst (jd_defs d).

Definition refs_resolve_b (d : jdoc) : bool := forallb (fun r => str_in r (def_names d)) (doc_refs d).

(* ---------- validation (Draft-07 semantics of the emitted shapes) ---------- *)
(* compare m1*10^e1 with m2*10^e2 *)
Definition jcmp (a b : Z * Z) : comparison :=
  let '(m1, e1) := a in let '(m2, e2) := b in
  let e := Z.min e1 e2 in Z.compare (m1 * 10 ^ (e1 - e))%Z (m2 * 10 ^ (e2 - e))%Z.

Definition j_is_integer (m e : Z) : bool := let '(_, b) := num_norm m e in Z.leb 0 b.

Definition multiple_of (a b : Z * Z) : bool :=
  let '(m1, e1) := a in let '(m2, e2) := b in
  let e := Z.min e1 e2 in
  let x := (m1 * 10 ^ (e1 - e))%Z in let y := (m2 * 10 ^ (e2 - e))%Z in
  if Z.eqb y 0 then false else Z.eqb (Z.modulo x y) 0.

(* one keyword of a scalar definition against an instance; None = keyword (or operand) outside the subset *)
Definition kw_valid (k : string) (v : json) (d : json) : option bool :=
  if seqb k "type" then
    match v with
    | JStr t =>
        if seqb t "null" then Some (match d with JNull => true | _ => false end)
        else if seqb t "string" then Some (match d with JStr _ => true | _ => false end)
        else if seqb t "boolean" then Some (match d with JBool _ => true | _ => false end)
        else if seqb t "number" then Some (match d with JNum _ _ => true | _ => false end)
        else if seqb t "integer" then Some (match d with JNum m e => j_is_integer m e | _ => false end)
        else if seqb t "object" then Some (match d with JObj _ => true | _ => false end)
        else if seqb t "array" then Some (match d with JArr _ => true | _ => false end)
        else None
    | _ => None
    end
  else if seqb k "additionalProperties" then
    match v with JObj [] => Some true | _ => None end
  else if (seqb k "minLength" || seqb k "maxLength")%bool then
    match v with
    | JNum m e =>
        match d with
        | JStr s =>
            let c := jcmp (rune_count s, 0%Z) (m, e) in
            Some (if seqb k "minLength" then match c with Lt => false | _ => true end
                  else match c with Gt => false | _ => true end)
        | _ => Some true
        end
    | _ => None
    end
  else if (seqb k "minimum" || seqb k "maximum" || seqb k "exclusiveMinimum" || seqb k "exclusiveMaximum"
           || seqb k "multipleOf")%bool then
    match v with
    | JNum m e =>
        match d with
        | JNum a b =>
            let c := jcmp (a, b) (m, e) in
            Some (if seqb k "minimum" then match c with Lt => false | _ => true end
                  else if seqb k "maximum" then match c with Gt => false | _ => true end
                  else if seqb k "exclusiveMinimum" then match c with Gt => true | _ => false end
                  else if seqb k "exclusiveMaximum" then match c with Lt => true | _ => false end
                  else multiple_of (a, b) (m, e))
        | _ => Some true
        end
    | _ => None
    end
  else if seqb k "format" then
    match v with
    | JStr f =>
        if seqb f "date-time" then
          Some (match d with JStr s => match parse_time s with TBadTime => false | _ => true end | _ => true end)
        else None
    | _ => None
    end
  else if seqb k "const" then Some (json_eq v d)
  else if (seqb k "description" || seqb k "default")%bool then Some true
  else None.

Definition and3 (a b : option bool) : option bool :=
  match a, b with
  | Some x, Some y => Some (x && y)%bool
  | _, _ => None
  end.
Definition or3 (a b : option bool) : option bool :=
  match a, b with
  | Some x, Some y => Some (x || y)%bool
  | _, _ => None
  end.
Definition all3 (l : list (option bool)) : option bool := fold_right and3 (Some true) l.
Definition any3 (l : list (option bool)) : option bool := fold_right or3 (Some false) l.

(* None: out of fuel, a $ref without definition, or a keyword outside the subset *)
Fixpoint js_valid (defs : list (string * jschema)) (fuel : nat) (s : jschema) (d : json) {struct fuel} : option bool :=
  match fuel with
  | O => None
  | S f =>
      match s with
      | JSAnyObj => Some (match d with JObj _ => true | _ => false end)
      | JSEmpty => Some true
      | JSScalar ms => all3 (map (fun kv => kw_valid (fst kv) (snd kv) d) ms)
      | JSRef _ n => match om_get defs n with Some s' => js_valid defs f s' d | None => None end
      | JSEnum vs => Some (existsb (fun v => json_eq v d) vs)
      | JSArray i =>
          match d with
          | JArr l => all3 (map (js_valid defs f i) l)
          | _ => Some false
          end
      | JSMap v =>
          match d with
          | JObj ms => all3 (map (fun kv => js_valid defs f v (snd kv)) ms)
          | _ => Some false
          end
      | JSStruct req props =>
          match d with
          | JObj ms =>
              and3 (Some (forallb (fun r => str_in r (map fst ms)) req))
                   (all3 (map (fun kv => match om_get props (fst kv) with
                                         | Some (ps, _, _) => js_valid defs f ps (snd kv)
                                         | None => Some false        (* additionalProperties: false *)
                                         end) ms))
          | _ => Some false
          end
      | JSAnyOf bs => any3 (map (fun b => js_valid defs f b d) bs)
      end
  end.

Definition defs_of (d : jdoc) : list (string * jschema) := map (fun nd => (fst nd, fst (snd nd))) (jd_defs d).

(* fuel that suffices for any document of that depth: every level of the document can cross every
   definition once, plus the nesting of inline schemas *)
Fixpoint jschema_depth (s : jschema) : nat :=
  match s with
  | JSArray i => S (jschema_depth i)
  | JSMap v => S (jschema_depth v)
  | JSStruct _ props => S (fold_right (fun np acc => Nat.max (jschema_depth (fst (fst (snd np)))) acc) 0 props)
  | JSAnyOf bs => S (fold_right (fun b acc => Nat.max (jschema_depth b) acc) 0 bs)
  | _ => 1
  end.
Definition valid_fuel (defs : list (string * jschema)) (d : json) : nat :=
  let w := fold_right (fun nd acc => (S (jschema_depth (snd nd)) + acc)%nat) 2 defs in
  (S (json_depth d) * w)%nat.

(* the instance validates against the definition `name` of the document *)
Definition doc_valid (jd : jdoc) (name : string) (d : json) : option bool :=
  let defs := defs_of jd in
  js_valid defs (S (valid_fuel defs d)) (JSRef "" name) d.
