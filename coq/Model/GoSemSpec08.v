(* Independent specifications for C08 (definitions only).

   violations ctx t v : the paths of all constraint violations inside the Go value v of type t --
     every numeric bound / string length bound / constant the IR attaches to a scalar, at any depth,
     reached through ANY reference (struct or alias), arrays, maps, pointers.  Written directly from
     the meaning of ast.TypeConstraint, with the path syntax of cog.BuildError
     (field.field, [index], [key]); it does not consult resolvesToConstraints.
   strict_ok ctx t d  : the property's four conditions, recursively: every member of an object is
     declared, every required field without default is present, a required non-nullable field is
     not null, and every value has the JSON type (and integer-ness / width) its IR type asks for. *)
From Coq Require Import List String ZArith Bool Ascii.
From Cog Require Import Model.IR Model.Json Model.GoSemBase Model.GoSemDecode Model.GoSemEquals
  Model.GoSemValidate Model.GoSemStrict.
Import ListNotations.
Local Open Scope list_scope.
Local Open Scope string_scope.

Definition join_path (base name : string) : string :=
  if String.eqb base "" then name else base ++ "." ++ name.

Fixpoint violations (ctx : schemas) (path : string) (t : ty) (v : gval) {struct v} : list string :=
  if is_any t then [] else
  match payload_type ctx t with
  | PUnm _ => []
  | PTy pt =>
      match v with
      | GNil => []
      | GPtr x => violations ctx path (non_null t) x
      | GSlice l =>
          match pt with
          | TArray _ et =>
              (fix go (l : list gval) (i : nat) {struct l} : list string :=
                 match l with
                 | [] => []
                 | x :: r => (violations ctx (path ++ "[" ++ itoa i ++ "]") et x ++ go r (S i))%list
                 end) l 0%nat
          | _ => []
          end
      | GMap kvs =>
          match pt with
          | TMap _ _ vt => flat_map (fun kv => violations ctx (path ++ "[" ++ fst kv ++ "]") vt (snd kv)) kvs
          | _ => []
          end
      | GStruct fvs =>
          match pt with
          | TStruct _ _ fs =>
              (fix go (fs : list field) (fvs : list (string * gval)) {struct fvs} : list string :=
                 match fs, fvs with
                 | f :: fr, (_, fv) :: vr =>
                     (violations ctx (join_path path (f_name f)) (f_type f) fv ++ go fr vr)%list
                 | _, _ => []
                 end) fs fvs
          | _ => []
          end
      | _ =>
          match pt with
          | TScalar _ _ _ cs =>
              flat_map (fun c => match constraint_holds c v with Some false => [path] | _ => [] end) cs
          | TEnum _ _ =>
              match t with
              | TConstRef _ _ _ value => if const_ref_matches value v then [] else [path]
              | _ => []
              end
          | _ => []
          end
      end
  end.

Definition violations_object (ctx : schemas) (p n : string) (v : gval) : list string :=
  violations ctx "" (TRef attrs0 p n) v.

(* ---------- strict_ok ---------- *)
Definition json_fits_scalar (t : ty) (k : skind) (j : json) : bool :=
  match k, j with
  | KAny, _ => true
  | KBool, JBool _ => true
  | KString, JStr _ => true
  | (KFloat32 | KFloat64), JNum _ _ => true
  | _, JNum m e =>
      match int_range k with
      | Some (lo, hi) => let '(a, b) := num_norm m e in (Z.leb 0 b && Z.leb lo (a * 10 ^ b) && Z.leb (a * 10 ^ b) hi)%bool
      | None => false
      end
  | _, _ => false
  end.

Definition members_nodup (ms : list (string * json)) : bool := str_nodup (map fst ms).

Fixpoint strict_ok (ctx : schemas) (j : json) (t : ty) {struct j} : bool :=
  match j with
  | JNull => t_nullable t          (* callers treat null members of optional fields separately *)
  | _ =>
      match payload_type ctx t with
      | PUnm _ => false
      | PTy pt =>
          let simple := fun pt : ty =>
            match pt with
            | TScalar _ k _ _ => json_fits_scalar pt k j
            | TEnum _ vs => match enum_base vs with TScalar _ k _ _ as b => json_fits_scalar b k j | _ => false end
            | TArray _ et => match j with JArr l => forallb (fun x => strict_ok ctx x et) l | _ => false end
            | TMap _ _ vt => match j with JObj ms => forallb (fun kv => strict_ok ctx (snd kv) vt) ms | _ => false end
            | _ => false
            end in
          let struct_ok := fun (fs : list field) (ms : list (string * json)) =>
            (members_nodup ms &&
             forallb (fun kv =>
                        match find (fun f => seqb (f_name f) (fst kv)) fs with
                        | None => false                                        (* undeclared member *)
                        | Some f =>
                            match snd kv with
                            | JNull => negb (f_required f && negb (t_nullable (f_type f)))
                            | _ => strict_ok ctx (snd kv) (f_type f)
                            end
                        end) ms &&
             forallb (fun f => (negb (f_required f) || has_default (f_type f) || str_in (f_name f) (map fst ms))%bool) fs)%bool in
          match pt with
          | TStruct _ _ fs =>
              match union_scalars pt, union_refs pt with
              | Some _, _ => existsb (fun f => simple (non_null (f_type f))) fs
              | None, Some d =>
                  match j with
                  | JObj ms =>
                      match select_branch d (last_member (d_disc d) ms) with
                      | Some n =>
                          match field_by_ref_name fs n with
                          | Some f => match payload_type ctx (f_type f) with
                                      | PTy (TStruct _ _ bfs) => struct_ok bfs ms
                                      | _ => false end
                          | None => false
                          end
                      | None => false
                      end
                  | _ => false
                  end
              | None, None => match j with JObj ms => struct_ok fs ms | _ => false end
              end
          | _ => simple pt
          end
      end
  end.

Definition strict_ok_object (ctx : schemas) (p n : string) (j : json) : bool :=
  match j with JNull => false | _ => strict_ok ctx j (TRef attrs0 p n) end.

(* ---------- side conditions of the partial theorems ---------- *)
(* no constraint can be reached from an object that is not a struct: resolvesToConstraints follows a
   reference only when it resolves to a struct, so whatever sits behind an alias (scalar, array, map,
   enum object) is never validated *)
Definition ctx_alias_free (ctx : schemas) : bool :=
  forallb (fun s => forallb (fun ko => (is_struct (o_type (snd ko)) || negb (rtc ctx (o_type (snd ko))))%bool)
                            (s_objects s)) ctx.

Definition struct_object (ctx : schemas) (p n : string) : bool :=
  match locate_object ctx p n with Some o => is_struct (o_type o) | None => false end.

Fixpoint json_null_free (j : json) : bool :=
  match j with
  | JNull => false
  | JArr l => forallb json_null_free l
  | JObj ms => forallb (fun kv => json_null_free (snd kv)) ms
  | _ => true
  end.
