(* ASCII models of cog's identifier helpers (internal/tools/strings.go).
   x/text title-casing is modelled for ASCII input only: a word is a maximal run of [a-zA-Z0-9];
   the first letter of each word is upper-cased, everything else kept (cases.NoLower).
   Validated against the real functions by the `names` correspondence stream. *)
From Cog Require Export Model.IR.
Local Open Scope list_scope.

Definition is_upper (c : ascii) := let n := nat_of_ascii c in (Nat.leb 65 n && Nat.leb n 90)%bool.
Definition is_lower (c : ascii) := let n := nat_of_ascii c in (Nat.leb 97 n && Nat.leb n 122)%bool.
Definition is_digit (c : ascii) := let n := nat_of_ascii c in (Nat.leb 48 n && Nat.leb n 57)%bool.
Definition is_letter (c : ascii) := (is_upper c || is_lower c)%bool.
Definition is_alnum (c : ascii) := (is_letter c || is_digit c)%bool.

(* steps 1-3 of LowerCamelCase: non-alphanumerics separate words and disappear *)
Fixpoint title_strip (fresh : bool) (s : string) : string :=
  match s with
  | EmptyString => EmptyString
  | String c r =>
      if is_letter c then String (if fresh then upper_ascii c else c) (title_strip false r)
      else if is_digit c then String c (title_strip fresh r)
      else title_strip true r
  end.

Definition lower_first (s : string) : string :=
  match s with EmptyString => EmptyString | String c r => String (lower_ascii c) r end.
Definition upper_first (s : string) : string :=
  match s with EmptyString => EmptyString | String c r => String (upper_ascii c) r end.

Definition lower_camel_case (s : string) : string := lower_first (title_strip true s).
Definition upper_camel_case (s : string) : string := upper_first (lower_camel_case s).

(* strings.TrimSpace on ASCII *)
Definition is_space (c : ascii) : bool :=
  let n := nat_of_ascii c in (Nat.eqb n 32 || (Nat.leb 9 n && Nat.leb n 13))%bool.
Fixpoint trim_left (s : string) : string :=
  match s with
  | String c r => if is_space c then trim_left r else s
  | EmptyString => EmptyString
  end.
Fixpoint srev_acc (s acc : string) : string :=
  match s with EmptyString => acc | String c r => srev_acc r (String c acc) end.
Definition srev (s : string) := srev_acc s EmptyString.
Definition trim_space (s : string) : string := srev (trim_left (srev (trim_left s))).

Definition names_case := (string * string * string)%type.
Definition names_bad (cs : list names_case) : list nat :=
  (fix go (i : nat) (cs : list names_case) : list nat :=
     match cs with
     | [] => []
     | (s, u, l) :: r =>
         if (seqb (upper_camel_case s) u && seqb (lower_camel_case s) l)%bool then go (S i) r
         else i :: go (S i) r
     end) 0 cs.
