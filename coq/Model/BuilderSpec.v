(* C09 — the vocabulary the theorems of coq/Props/C09.v are stated in.  Definitions only. *)
From Coq Require Import List String ZArith Bool Ascii.
From Cog Require Import Model.IR Model.Json Model.Builders Model.BuildersEq Model.Spec16 Model.GoSem
  Model.BuilderEval Model.PyBuilderEval.
Import ListNotations.
Local Open Scope list_scope.
Local Open Scope string_scope.

(* a top-level field of the object under construction *)
Definition obj_field (v : gval) (n : string) : option gval :=
  match v with GStruct fs => gmap_find fs n | _ => None end.

(* the top-level fields an option may touch: the first item of every assignment path and nil-check path *)
Definition path_head (p : path) : list string := match p with it :: _ => [pi_id it] | [] => [] end.
Definition assignment_heads (a : assignment) : list string :=
  path_head (as_path a) ++ flat_map (fun nc => path_head (nc_path nc)) (as_nilchecks a).
Definition option_heads (o : boption) : list string := flat_map assignment_heads (op_assignments o).

(* every path starts with a named field (what cog's paths do: ast.PathFromStructField, MakePath) *)
Definition wf_path (p : path) : bool := match p with it :: _ => negb (seqb (pi_id it) "") | [] => false end.
Definition wf_assignment (a : assignment) : bool :=
  (wf_path (as_path a) && forallb (fun nc => wf_path (nc_path nc)) (as_nilchecks a))%bool.
Definition wf_option (o : boption) : bool := forallb wf_assignment (op_assignments o).
Definition wf_builder (b : builder) : bool :=
  (forallb wf_option (b_options b) && forallb wf_assignment (ct_assignments (b_ctor b)))%bool.

Definition str_mem (x : string) (l : list string) : bool := existsb (seqb x) l.

(* ---------- constructor constants ---------- *)
(* a constructor assignment `field = constant` on a one-item path *)
Definition const_assignment (a : assignment) : option (string * dyn) :=
  match as_path a, as_value a, as_nilchecks a with
  | [it], AValue None c None, [] =>
      if (negb (dyn_is_nil c) && negb (seqb (pi_id it) "") && seqb (as_method a) "direct"
          && match pi_index it with None => true | Some _ => false end
          && match pi_typehint it with None => true | Some _ => false end && negb (pi_root it))%bool
      then Some (pi_id it, c) else None
  | _, _, _ => None
  end.

Definition ctor_heads (b : builder) : list string := flat_map assignment_heads (ct_assignments (b_ctor b)).

(* the constants of the constructor are written once each and no option of the builder touches their fields *)
Definition const_safe (b : builder) : bool :=
  (forallb (fun a => match const_assignment a with Some _ => true | None => false end) (ct_assignments (b_ctor b))
   && str_nodup (ctor_heads b)
   && forallb (fun o => forallb (fun h => negb (str_mem h (ctor_heads b))) (option_heads o)) (b_options b)
   && wf_builder b)%bool.

(* the Go value the builder template writes for a constant into a field of type t *)
Definition go_const_value (t : ty) (c : dyn) : outcome gval :=
  dob v <- const_gval c ; GOk (if (t_nullable t && negb (is_array t))%bool then GPtr v else v).

(* ---------- the FromAST shape of one option (Spec16.option_covers) ---------- *)
Definition plain_option_for (f : field) (o : boption) : Prop := option_covers f o = true.

(* call sequences of one builder, on already evaluated arguments *)
Fixpoint go_calls (e : benv) (b : builder) (st : bstate) (calls : list (string * list aval)) : outcome bstate :=
  match calls with
  | [] => GOk st
  | (n, args) :: r =>
      match option_by_name b n with
      | None => GUnmodelled "unknown option"
      | Some o => dob st' <- go_option e o st args ; go_calls e b st' r
      end
  end.

Fixpoint py_calls (e : benv) (b : builder) (obj : gval) (calls : list (string * list aval)) : outcome gval :=
  match calls with
  | [] => GOk obj
  | (n, args) :: r =>
      match option_by_name b n with
      | None => GUnmodelled "unknown option"
      | Some o => dob obj' <- py_option e o obj args ; py_calls e b obj' r
      end
  end.

(* the last call of a sequence that names option n *)
Fixpoint last_call (n : string) (calls : list (string * list aval)) : option (list aval) :=
  match calls with
  | [] => None
  | (m, args) :: r => match last_call n r with
                      | Some x => Some x
                      | None => if seqb m n then Some args else None
                      end
  end.

(* every option of the builder has the FromAST shape for some field of fs, with distinct field names *)
Fixpoint options_cover (fs : list field) (opts : list boption) : Prop :=
  match opts with
  | [] => True
  | o :: r => (exists f, In f fs /\ option_covers f o = true) /\ options_cover fs r
  end.
