(* C03: explicit Gallina models of the places where a map's iteration order could reach an output,
   named after the Go functions. Every Go map iteration (a `range`, or tools.Keys) is an explicit
   iteration-sequence argument `seq`. Functions named after Go functions mirror the CURRENT code
   (which sorts what it collected before using it); the `*_unsorted` variants are the same loops
   ranging over the map directly - NOT cog's code any more, kept to document why the sort is
   needed. Definitions only; theorems in Proofs/PermModelsProofs.v. *)
From Cog Require Export Model.Perm.
Local Open Scope list_scope.
Local Open Scope string_scope.

Definition has_key {V} (l : list (string * V)) (k : string) : bool :=
  existsb (fun kv => String.eqb (fst kv) k) l.
Definition lookup {V} (l : list (string * V)) (k : string) : option V :=
  match find (fun kv => String.eqb (fst kv) k) l with Some kv => Some (snd kv) | None => None end.

(* ---------- compiler/disjunctions_infer_mapping.go: inferDiscriminatorField ----------
   candidates : map[typeName]map[fieldName]value, built from the branches (keyed writes, no order).
   seq_types  : the sequence of `for typeName := range candidates` (collected into allTypes);
   seq_fields : the sequence of `for candidateFieldName := range candidates[someType]`;
   the first field in that sequence present in every branch wins. *)
Definition candidates_t := list (string * list (string * string)).
Definition fields_of (c : candidates_t) (typeName : string) : list (string * string) :=
  match lookup c typeName with Some fs => fs | None => [] end.
Definition exists_in_all_branches (c : candidates_t) (all_types : list string) (field : string) : bool :=
  forallb (fun t => has_key (fields_of c t) field) all_types.
(* `for candidateFieldName := range candidates[someType]` - the loop before fix 5b9ef0c *)
Definition inferDiscriminatorField_unsorted (c : candidates_t) (seq_types seq_fields : list string) : string :=
  match first_match (exists_in_all_branches c seq_types) seq_fields with
  | Some f => f
  | None => ""
  end.
(* candidateFieldNames := tools.Keys(candidates[someType]); sort.Strings(candidateFieldNames) *)
Definition inferDiscriminatorField (c : candidates_t) (seq_types seq_fields : list string) : string :=
  inferDiscriminatorField_unsorted c seq_types (isort sleb seq_fields).

(* ---------- codegen/pipeline.go: Pipeline.interpolate ---------- *)
Definition interpolate_unsorted (seq : list (string * string)) (input : string) : string :=
  fold_left (fun acc kv => replace_all ("%" ++ fst kv ++ "%") (snd kv) acc) seq input.
(* keys := tools.Keys(pipeline.Parameters); sort.Strings(keys); one pass in that order *)
Definition by_key {V} (seq : list (string * V)) : list (string * V) := isort (leb_by (@fst string V)) seq.
Definition interpolate (seq : list (string * string)) (input : string) : string :=
  interpolate_unsorted (by_key seq) input.

(* ---------- jennies/typescript/tools.go: formatValue on a map[string]any ---------- *)
Definition formatValue_map_unsorted (seq : list (string * string)) : string :=
  "{" ++ String (ascii_of_nat 10) "" ++
  fold_left (fun acc kv => acc ++ String (ascii_of_nat 9) "" ++ fst kv ++ ": " ++ snd kv ++ "," ++ String (ascii_of_nat 10) "") seq ""
  ++ "}".
(* orderedmap.FromMap(mapVal).Iterate(...): FromMap collects the keys and sorts them *)
Definition formatValue_map (seq : list (string * string)) : string := formatValue_map_unsorted (by_key seq).

(* ---------- veneers/builder/rules.go: ComposeBuilders ----------
   newBuilders = the builders not selected, then for each panel type the builders composed for it.
   `compose` abstracts composeBuilderForType. *)
Definition ComposeBuilders_unsorted {B} (kept : list B) (compose : string * list B -> list B) (seq : list (string * list B)) : list B :=
  (kept ++ append_each compose seq)%list.
(* panelTypes := tools.Keys(composableBuilders); sort.Strings(panelTypes) *)
Definition ComposeBuilders {B} (kept : list B) (compose : string * list B -> list B) (seq : list (string * list B)) : list B :=
  ComposeBuilders_unsorted kept compose (by_key seq).

(* ---------- languages/converter.go: FromBuilder ----------
   converter.Mappings = per-option mappings, then one mapping per entry of listOfDisjunctionOptions
   (map order). *)
Definition FromBuilder_mappings {M O} (direct : list M) (conv : string * list O -> M) (seq : list (string * list O)) : list M :=
  (direct ++ append_each (fun e => [conv e]) seq)%list.

(* ---------- simplecue/referenceresolver.go: packageForToken ---------- *)
Fixpoint contains (sub s : string) : bool :=
  match prefix_drop sub s with
  | Some _ => true
  | None => match s with EmptyString => false | String _ r => contains sub r end
  end.
Definition packageForToken (seq : list (string * string)) (filename default : string) : string :=
  if String.eqb filename "" then default
  else match first_match (fun kv => contains (fst kv) filename) seq with
       | Some kv => snd kv
       | None => default
       end.

(* ---------- keyed writes whose key / value go through a function ----------
   Output.interpolateParameters (TemplatesData[key] = interpolator(value)),
   typescript Config.InterpolateParameters (PackagesImportMap[pkg] = interpolator(path)),
   yaml FieldsSetDefault.AsCompilerPass (defaults[FieldReferenceFromString(ref)] = value),
   RemoveIntersections.processStruct, DeepCopy loops: dst[key k] = val k v *)
Definition keyed_write_loop {V W} (key : string -> string) (val : string -> V -> option W)
  (seq : list (string * V)) (dst : gmap W) : gmap W :=
  write_all (fun kv => key (fst kv)) (fun kv => val (fst kv) (snd kv)) seq dst.

(* ---------- per-entry output merged into a sorted collection ----------
   jennies (java/php Factory.Generate, python Builder.Generate, typescript Index.Generate,
   APIReference.referenceForSchema, RepositoryTemplate.Generate, Pipeline.Run's language loop):
   files = append(files, g(k, v)...), merged into the path-sorted codejen FS;
   parsers / formatScalars / schemaIndex: collect g(k, v), then sort by the (distinct) name. *)
Definition per_entry_files {A} (g : A -> list file) (seq : list A) : list file := emit_files g seq.
Definition collect_then_sort_by {A B} (name : B -> string) (g : A -> B) (seq : list A) : list B :=
  isort (leb_by name) (map g seq).
