(* Specifications for C10 (definitions only).

   The theorems of Props/C10.v speak about the post-chain IR (what the jennies receive) and, for
   `default_not_altered`, about the front-end model fe_value / fe_default of Model/Ctor.v.

   ir_decls fs          : the defaults and constants a struct DECLARES in the IR, as JSON: for every field the
                          constant of a concrete scalar, else Type.Default (dyn_json of it)
   go_field_safe / py_field_safe : the fields for which the constructors are PROVED to hold the declared value:
                          scalar fields (bool, string, integers, floats; not date-time, not `any`) and arrays of
                          strings whose default is `plain` (no json.Number, no map) and FITS the kind.  Everything
                          else (enumerations, references, unions, struct overrides, json.Number defaults, lists of
                          non-strings) is covered by witnesses, by the correspondence, or is a known finding.
   holds_member j f exp : the JSON object j has a member f that is JSON-equal to exp *)
From Coq Require Import List String ZArith Bool Ascii.
From Cog Require Import Model.IR Model.Json Model.GoSemBase Model.GoSemDecode Model.Ctor Model.PySem.
Import ListNotations.
Local Open Scope list_scope.
Local Open Scope string_scope.

Fixpoint dyn_plain (d : dyn) : bool :=
  match d with
  | DBool _ | DInt _ _ | DStr _ => true
  | DFloat t _ => negb (seqb t "json.Number")
  | DList l => forallb dyn_plain l
  | _ => false
  end.

(* the declared value of a field type: the constant of a concrete scalar, else the default *)
Definition declared_dyn (t : ty) : dyn :=
  match t with
  | TScalar _ _ v _ => if dyn_is_nil v then dflt (ty_attrs t) else v
  | _ => dflt (ty_attrs t)
  end.

(* the default FITS the scalar kind: what a schema that accepts its own default guarantees *)
Definition fits_scalar (k : skind) (j : json) : bool :=
  match k, j with
  | KBool, JBool _ => true
  | KString, JStr _ => true
  | (KFloat32 | KFloat64), JNum m e => float_digits_ok k m e
  | (KUint8 | KUint16 | KUint32 | KUint64 | KInt8 | KInt16 | KInt32 | KInt64), JNum m e =>
      (* written without exponent / fraction (1e+06, what %#v prints for the float64 1000000 OpenAPI delivers,
         is covered by the correspondence only) *)
      match int_range k with
      | Some (lo, hi) => (Z.eqb e 0 && dec_integral m e && Z.leb lo (dec_int_value m e) && Z.leb (dec_int_value m e) hi)%bool
      | None => false
      end
  | _, _ => false
  end.

Definition is_str_dyn (d : dyn) : bool := match d with DStr _ => true | _ => false end.

(* a field whose declared value the constructors are proved to hold *)
Definition simple_field (fld : field) : bool :=
  let t := f_type fld in
  let d := declared_dyn t in
  (negb (dyn_is_nil d) && dyn_plain d &&
   match t with
   | TScalar _ k _ _ =>
       (negb (is_datetime t) && (f_required fld || t_nullable t) &&   (* an optional non-pointer zero default is dropped by omitempty *)
        match k with KAny | KNull | KBytes | KOther _ => false | _ => true end &&
        match dyn_json d with Some j => fits_scalar k j | None => false end)%bool
   | TArray _ et =>
       (is_plain_string et &&
        match d with DList l => (forallb is_str_dyn l && (f_required fld || match l with [] => false | _ => true end))%bool | _ => false end)%bool
   | _ => false
   end)%bool.

Definition holds_member (j : json) (f : string) (exp : json) : bool :=
  match j with
  | JObj ms => match find_member f ms with Some v => json_eq v exp | None => false end
  | _ => false
  end.

(* every simple field of the struct holds its declared value in the JSON j *)
Definition simple_fields_hold (fs : list field) (j : json) : bool :=
  forallb (fun fld => (negb (simple_field fld) ||
                       match dyn_json (declared_dyn (f_type fld)) with
                       | Some exp => holds_member j (f_name fld) exp
                       | None => false end)%bool) fs.

(* EVERY declared value (simple or not) is held: the full claim of the property on the IR level *)
Definition all_declared_hold (fs : list field) (j : json) : bool :=
  forallb (fun fld => let d := declared_dyn (f_type fld) in
                      (dyn_is_nil d ||
                       match dyn_json d with
                       | Some exp => holds_member j (f_name fld) exp
                       | None => false end)%bool) fs.

(* a plain struct object: named directly, not nullable, no disjunction hints, distinct field names *)
Definition plain_struct_object (ctx : schemas) (p n : string) : option (list field) :=
  match locate_object ctx p n with
  | Some o =>
      match o_type o with
      | TStruct a [] fs => if (negb (nullable a) && str_nodup (map (@f_name ty) fs))%bool then Some fs else None
      | _ => None
      end
  | None => None
  end.

(* ---------- front-ends ---------- *)
(* the schema file spells a number so that it reads back as the same decimal *)
Definition numtext_ok (numtext : Z -> Z -> string) : Prop :=
  forall m e, parse_decimal (numtext m e) = Some (m, e).

(* the Go value v holds the scalar JSON value j *)
Definition gscalar_holds (v : gval) (j : json) : bool :=
  match v, j with
  | GBool b, JBool b' => Bool.eqb b b'
  | GStr s, JStr s' => seqb s s'
  | GInt z, JNum m e => (dec_integral m e && Z.eqb z (dec_int_value m e))%bool
  | GFloat a b, JNum m e => let '(a', b') := num_norm m e in (Z.eqb a a' && Z.eqb b b')%bool
  | _, _ => false
  end.
