(* The properties C13 / C08 / C01 as decidable predicates over what the REAL generated code printed
   (a `gcase`, see Model/GoSem.v): these are evaluated by the checks on every case to find concrete
   failing inputs (PROPFAIL); the model is only used to attribute a failure to a known cause.
   Definitions only. *)
From Coq Require Import List String ZArith Bool Ascii.
From Cog Require Export Model.GoSem Model.GoSemSpec08 Model.GoSemSpec08F Model.GoSemSpec01 Model.GoSemSpec01F.
Import ListNotations.
Local Open Scope list_scope.
Local Open Scope string_scope.

(* ---------- observed values: [std(d0..dn-1) ; strict(d0..dn-1)] ---------- *)
Definition observed_encs (obs : list docobs) : list (option json) :=
  map ob_enc obs ++ map ob_senc obs.

Definition nth_enc (encs : list (option json)) (i : nat) : option json := nth i encs None.
Definition cell (mat : list (list (option bool))) (i j : nat) : option bool := nth j (nth i mat []) None.

Definition idx (n : nat) : list nat := seq 0 n.
Definition pairs (n : nat) : list (nat * nat) := flat_map (fun i => map (fun j => (i, j)) (idx n)) (idx n).
Definition triples (n : nat) : list (nat * nat * nat) :=
  flat_map (fun ij => map (fun k => (fst ij, snd ij, k)) (idx n)) (pairs n).

(* ---------- C13 on the observed Equals matrix ---------- *)
Definition refl_fails (mat : list (list (option bool))) : list nat :=
  filter (fun i => match cell mat i i with Some false => true | _ => false end) (idx (List.length mat)).

Definition sym_fails (mat : list (list (option bool))) : list (nat * nat) :=
  filter (fun ij => match cell mat (fst ij) (snd ij), cell mat (snd ij) (fst ij) with
                    | Some x, Some y => negb (Bool.eqb x y)
                    | _, _ => false end) (pairs (List.length mat)).

Definition trans_fails (mat : list (list (option bool))) : list (nat * nat * nat) :=
  filter (fun ijk => let '(i, j, k) := ijk in
                     match cell mat i j, cell mat j k, cell mat i k with
                     | Some true, Some true, Some false => true
                     | _, _, _ => false end) (triples (List.length mat)).

(* equal encodings but Equals says false *)
Definition enc_eq_fails (encs : list (option json)) (mat : list (list (option bool))) : list (nat * nat) :=
  filter (fun ij => match nth_enc encs (fst ij), nth_enc encs (snd ij), cell mat (fst ij) (snd ij) with
                    | Some a, Some b, Some false => json_eq a b
                    | _, _, _ => false end) (pairs (List.length mat)).

(* Equals says true but the encodings differ beyond absent/null/empty collections *)
Definition eq_enc_fails (encs : list (option json)) (mat : list (list (option bool))) : list (nat * nat) :=
  filter (fun ij => match nth_enc encs (fst ij), nth_enc encs (snd ij), cell mat (fst ij) (snd ij) with
                    | Some a, Some b, Some true => negb (json_eq_mod_empty a b)
                    | _, _, _ => false end) (pairs (List.length mat)).

Definition nonempty {A} (l : list A) : bool := match l with [] => false | _ => true end.

Definition pf_refl (c : gcase) : bool := let '(_, _, _, _, _, mat) := c in nonempty (refl_fails mat).
Definition pf_sym (c : gcase) : bool := let '(_, _, _, _, _, mat) := c in nonempty (sym_fails mat).
Definition pf_trans (c : gcase) : bool := let '(_, _, _, _, _, mat) := c in nonempty (trans_fails mat).
Definition pf_enc_eq (c : gcase) : bool :=
  let '(_, _, _, _, obs, mat) := c in nonempty (enc_eq_fails (observed_encs obs) mat).
Definition pf_eq_enc (c : gcase) : bool :=
  let '(_, _, _, _, obs, mat) := c in nonempty (eq_enc_fails (observed_encs obs) mat).

(* attribution: the model's values of the two positions have differently keyed maps somewhere *)
Definition model_values (c : gcase) : list (outcome gval) :=
  let '(ctx, p, n, docs, _, _) := c in
  map (decode_object ctx p n) docs ++ map (strict_object ctx p n) docs.
Definition pair_unaligned (vs : list (outcome gval)) (ij : nat * nat) : bool :=
  match nth (fst ij) vs GErr, nth (snd ij) vs GErr with
  | GOk a, GOk b => negb (keys_aligned a b && keys_aligned b a)
  | _, _ => false
  end.
(* every failing pair/triple involves two values whose maps are keyed differently *)
Definition all_by_map_keys (c : gcase) : bool :=
  let '(_, _, _, _, obs, mat) := c in
  let vs := model_values c in
  (forallb (pair_unaligned vs) (sym_fails mat) &&
   forallb (pair_unaligned vs) (eq_enc_fails (observed_encs obs) mat) &&
   forallb (fun ijk => let '(i, j, k) := ijk in
                       (pair_unaligned vs (i, j) || pair_unaligned vs (j, k) || pair_unaligned vs (i, k))%bool)
           (trans_fails mat))%bool.

(* a panic anywhere (decode, encode, Validate, strict decode, Equals) *)
Definition obs_panics (o : docobs) : bool :=
  (seqb (ob_std o) "panic" || seqb (ob_strict o) "panic" ||
   match ob_val o with Some ["<panic>"] => true | _ => false end)%bool.
Definition pf_panic (c : gcase) : bool := let '(_, _, _, _, obs, _) := c in existsb obs_panics obs.

(* ---------- C08 on the observed Validate() paths and strict-decoder verdicts ---------- *)
Fixpoint remove_one (x : string) (l : list string) : option (list string) :=
  match l with
  | [] => None
  | y :: r => if seqb x y then Some r else match remove_one x r with Some r' => Some (y :: r') | None => None end
  end.
(* multiset difference a - b *)
Fixpoint msub (a b : list string) : list string :=
  match a with
  | [] => []
  | x :: r => match remove_one x b with Some b' => msub r b' | None => x :: msub r b end
  end.

(* per document: (violations the spec lists but Validate() did not report, reported paths that are no violation) *)
Definition validate_diff (ctx : schemas) (p n : string) (d : json) (o : docobs) : list string * list string :=
  match decode_object ctx p n d, ob_val o with
  | GOk v, Some reported =>
      let spec := violations_object ctx p n v in (msub spec reported, msub reported spec)
  | _, _ => ([], [])
  end.

Definition pf_val_missed (c : gcase) : bool :=
  let '(ctx, p, n, docs, obs, _) := c in
  existsb (fun dj => nonempty (fst (validate_diff ctx p n (fst dj) (snd dj)))) (combine docs obs).
Definition pf_val_spurious (c : gcase) : bool :=
  let '(ctx, p, n, docs, obs, _) := c in
  existsb (fun dj => nonempty (snd (validate_diff ctx p n (fst dj) (snd dj)))) (combine docs obs).

Definition pf_strict_overaccept (c : gcase) : bool :=
  let '(ctx, p, n, docs, obs, _) := c in
  existsb (fun dj => (seqb (ob_strict (snd dj)) "ok" && negb (strict_ok_object ctx p n (fst dj)))%bool) (combine docs obs).
Definition pf_strict_overreject (c : gcase) : bool :=
  let '(ctx, p, n, docs, obs, _) := c in
  existsb (fun dj => (negb (seqb (ob_strict (snd dj)) "ok") && negb (seqb (ob_strict (snd dj)) "") &&
                      strict_ok_object ctx p n (fst dj))%bool) (combine docs obs).

(* attribution: the context breaks the side condition of validate_iff_partial *)
Definition case_alias_constraints (c : gcase) : bool := let '(ctx, _, _, _, _, _) := c in negb (ctx_alias_free ctx).

(* attribution of strict-decoder disagreements: what the model says happens *)
Definition model_strict_panics (c : gcase) : bool :=
  let '(ctx, p, n, docs, _, _) := c in
  existsb (fun d => match strict_object ctx p n d with GPanic => true | _ => false end) docs.

(* ---------- C01 on the observed decode outcomes and re-encodings (cases hold only documents the
   source schema's reference validator accepted) ---------- *)
Definition pf_decode_std (c : gcase) : bool :=
  let '(_, _, _, _, obs, _) := c in existsb (fun o => negb (seqb (ob_std o) "ok")) obs.
Definition pf_decode_strict (c : gcase) : bool :=
  let '(_, _, _, _, obs, _) := c in existsb (fun o => negb (seqb (ob_strict o) "ok")) obs.
(* the re-encoded document is not JSON-equal to the original modulo omitted null members *)
Definition pf_reencode_std (c : gcase) : bool :=
  let '(_, _, _, docs, obs, _) := c in
  existsb (fun dj => match ob_enc (snd dj) with Some e => negb (json_eq_mod_null (fst dj) e) | None => false end)
          (combine docs obs).
Definition pf_reencode_strict (c : gcase) : bool :=
  let '(_, _, _, docs, obs, _) := c in
  existsb (fun dj => match ob_senc (snd dj) with Some e => negb (json_eq_mod_null (fst dj) e) | None => false end)
          (combine docs obs).

(* the statement of go_roundtrip_nf_partial evaluated on the model for the case's documents: a document
   in the safe fragment on which the conclusion fails (must never happen: the theorem says so) *)
Definition in_safe_fragment (ctx : schemas) (p n : string) (d : json) : bool :=
  (ctx_supported ctx && struct_object ctx p n && ir_valid_object ctx p n d && roundtrip_safeF ctx p n d && json_wf d)%bool.
Definition mm_rt_spec (c : gcase) : bool :=
  let '(ctx, p, n, docs, _, _) := c in
  (negb (case_unmodelled c) &&
   existsb (fun d => (in_safe_fragment ctx p n d && negb (roundtrip_holds ctx p n d))%bool) docs)%bool.
Definition some_doc_safe (c : gcase) : bool :=
  let '(ctx, p, n, docs, _, _) := c in existsb (in_safe_fragment ctx p n) docs.
(* a property failure on the real output for a document of the safe fragment: not explained by the exclusions *)
Definition pf_in_safe_fragment (c : gcase) : bool :=
  let '(ctx, p, n, docs, obs, _) := c in
  existsb (fun dj => let d := fst dj in let o := snd dj in
                     (in_safe_fragment ctx p n d &&
                      (negb (seqb (ob_std o) "ok") || negb (seqb (ob_strict o) "ok") ||
                       match ob_enc o with Some e => negb (json_eq_mod_null d e) | None => false end))%bool)
          (combine docs obs).

(* the statements of Props/C08.v evaluated on the model for the case's documents (must never fail) *)
Definition mm_c08_spec (c : gcase) : bool :=
  let '(ctx, p, n, docs, _, _) := c in
  (negb (case_unmodelled c) && struct_object ctx p n &&
   existsb (fun d =>
     (match decode_object ctx p n d with
      | GOk v =>
          let a := validate_object ctx p n v in let b := violations_object ctx p n v in
          (nonempty (msub a b) || (ctx_alias_free ctx && negb (strings_eqb a b)))%bool
      | _ => false
      end ||
      (json_wf d && json_null_free d &&
       (match strict_object ctx p n d with
        | GOk _ => negb (strict_ok_object ctx p n d)
        | _ => (strict_ok_object ctx p n d && roundtrip_safe ctx p n d)%bool
        end)))%bool) docs)%bool.
