(* Specifications for C01 (definitions only).

   ir_valid ctx t d        : the document meets what the post-chain IR type t asks for (declared
                             members only, required members present, null only where nullable, JSON
                             type / integer-ness / width of every value) = Model/GoSemSpec08.v strict_ok.
   roundtrip_safe ctx t d  : the document avoids the shapes for which the generated Go is KNOWN not to
                             round-trip (each conjunct names one defect; this predicate is the explicit
                             exclusion of `go_roundtrip_nf_partial`, and the causes the known-finding
                             matchers of checks/c01.py use are its negated conjuncts):
        - an optional member holding an empty array / object            (dropped by `omitempty`)
        - a date-time not already in the form time.Time prints          (re-formatted)
        - an integer written with a fraction or exponent                (rejected by both decoders)
        - a float beyond the digits its width prints back               (float32 for OpenAPI `number`)
        - a required member absent because the IR records a default     (re-encoded with the zero value)
        - a nullable reference to a named array of non-scalars, non-empty (nil-pointer append: panic)
        - arrays directly inside arrays / maps directly inside maps of non-scalars (shadowed variable)
   `rts ctx src d t` is the type-directed walk; src tells whether d is an array element / a map value. *)
From Coq Require Import List String ZArith Bool Ascii.
From Cog Require Import Model.IR Model.Json Model.GoSemBase Model.GoSemDecode Model.GoSemEquals
  Model.GoSemValidate Model.GoSemStrict Model.GoSemSpec08.
Import ListNotations.
Local Open Scope list_scope.
Local Open Scope string_scope.

Definition ir_valid (ctx : schemas) (t : ty) (d : json) : bool := strict_ok ctx d t.
Definition ir_valid_object (ctx : schemas) (p n : string) (d : json) : bool := strict_ok_object ctx p n d.

Definition scalar_safe (t : ty) (k : skind) (j : json) : bool :=
  match k, j with
  | KString, JStr s =>
      if is_datetime t then match parse_time s with TOk s' _ => String.eqb s' s | _ => false end else true
  | KFloat32, JNum m e => let '(a, _) := num_norm m e in Z.ltb (Z.abs a) 1000000
  | KFloat64, JNum m e => let '(a, _) := num_norm m e in Z.ltb (Z.abs a) 1000000000000000
  | (KUint8 | KUint16 | KUint32 | KUint64 | KInt8 | KInt16 | KInt32 | KInt64), JNum m e => num_is_int_literal m e
  | _, _ => true
  end.

Definition is_empty_collection (j : json) : bool :=
  match j with JArr [] => true | JObj [] => true | _ => false end.

Fixpoint rts (ctx : schemas) (src : rawsrc) (j : json) (t : ty) {struct j} : bool :=
  match j with
  | JNull => true
  | _ =>
      match payload_type ctx t with
      | PUnm _ => false
      | PTy pt =>
          let simple := fun (src : rawsrc) (pt : ty) =>
            match pt with
            | TScalar _ k _ _ => scalar_safe pt k j
            | TEnum _ vs => match enum_base vs with TScalar _ k _ _ as b => scalar_safe b k j | _ => false end
            | TArray _ et =>
                match j with
                | JArr l =>
                    (forallb (fun x => rts ctx RElem x et) l &&
                     (array_of_scalars ctx 8 pt ||
                      (match src with RElem => false | _ => true end &&
                       (negb (is_ref t && t_nullable t) || match l with [] => true | _ => false end))))%bool
                | _ => true
                end
            | TMap _ _ vt =>
                match j with
                | JObj ms =>
                    (forallb (fun kv => rts ctx RVal (snd kv) vt) ms &&
                     (map_of_scalars ctx 8 pt || match src with RVal => false | _ => true end))%bool
                | _ => true
                end
            | _ => true
            end in
          let struct_safe := fun (fs : list field) (ms : list (string * json)) =>
            (forallb (fun kv =>
                        match find (fun f => seqb (f_name f) (fst kv)) fs with
                        | None => true
                        | Some f =>
                            (rts ctx RField (snd kv) (f_type f) &&
                             (f_required f || negb (is_empty_collection (snd kv))))%bool
                        end) ms &&
             forallb (fun f => (negb (f_required f) || str_in (f_name f) (map fst ms))%bool) fs)%bool in
          match pt with
          | TStruct _ _ fs =>
              match union_scalars pt, union_refs pt with
              | Some _, _ => forallb (fun f => simple RField (non_null (f_type f))) fs
              | None, Some d =>
                  match j with
                  | JObj ms =>
                      match select_branch d (last_member (d_disc d) ms) with
                      | Some n =>
                          match field_by_ref_name fs n with
                          | Some f => match payload_type ctx (f_type f) with
                                      | PTy (TStruct _ _ bfs) => struct_safe bfs ms
                                      | _ => false end
                          | None => false
                          end
                      | None => false
                      end
                  | _ => true
                  end
              | None, None => match j with JObj ms => struct_safe fs ms | _ => true end
              end
          | _ => simple src pt
          end
      end
  end.

Definition roundtrip_safe (ctx : schemas) (p n : string) (d : json) : bool := rts ctx RField d (TRef attrs0 p n).

(* the conclusion of C01 for one document, on the MODEL's outputs *)
Definition roundtrip_holds (ctx : schemas) (p n : string) (d : json) : bool :=
  match decode_object ctx p n d, strict_object ctx p n d with
  | GOk v, GOk _ =>
      let e := encode_object ctx p n v in
      (ir_valid_object ctx p n e && json_eq_mod_null d e)%bool
  | _, _ => false
  end.
