(* C07: decidable checks evaluated by the correspondence on what the real Consolidate returned.
   Definitions only. *)
From Cog Require Export Model.Pipeline.
Local Open Scope list_scope.

Notation A0 := attrs0 (only parsing).

(* a consolidate case: the parsed inputs (in input order) and what the implementation returned *)
Definition ccase := (schemas * res schemas)%type.

Definition sort_pkgs (ss : schemas) : schemas := isort (leb_by s_pkg) ss.

(* model = implementation, INCLUDING the order of the returned packages (first appearance) *)
Definition consolidate_mismatch (c : ccase) : bool :=
  negb (match consolidate (fst c), snd c with
        | Ok a, Ok b => schemas_eqb a b
        | Ok _, _ | _, Ok _ => false
        | _, _ => true
        end).

(* the property, evaluated on the implementation's own result *)
Definition objects_agree (r s : schema) : bool :=
  forallb (fun ko => match objs_get (s_objects r) (fst ko) with
                     | Some o' => object_eqb o' (snd ko)
                     | None => false end) (s_objects s).
Definition object_from_inputs (inputs : schemas) (pkg : string) (ko : string * object) : bool :=
  existsb (fun s => seqb (s_pkg s) pkg &&
                    match objs_get (s_objects s) (fst ko) with Some o => object_eqb o (snd ko) | None => false end) inputs.
Definition is_union (inputs result : schemas) : bool :=
  forallb (fun s => match locate result (s_pkg s) with Some r => objects_agree r s | None => false end) inputs &&
  forallb (fun r => forallb (object_from_inputs inputs (s_pkg r)) (s_objects r)) result.

(* a genuine conflict among the inputs: same package and unequal metadata, or one name defined
   differently twice *)
Definition conflicting (a b : schema) : bool :=
  seqb (s_pkg a) (s_pkg b) &&
  (negb (meta_eqb (s_meta a) (s_meta b)) ||
   existsb (fun ko => match objs_get (s_objects b) (fst ko) with
                      | Some o => negb (object_eqb (snd ko) o) | None => false end) (s_objects a)).
Definition has_conflict (inputs : schemas) : bool :=
  existsb (fun a => existsb (conflicting a) inputs) inputs.

Definition consolidate_propfail (c : ccase) : bool :=
  match snd c with
  | Ok r => negb (is_union (fst c) r)
  | Err _ => negb (has_conflict (fst c))
  | _ => true
  end.

Definition indices {A} (p : A -> bool) (l : list A) : list nat :=
  (fix go (i : nat) (l : list A) : list nat :=
     match l with [] => [] | x :: r => if p x then i :: go (S i) r else go (S i) r end) 0 l.
