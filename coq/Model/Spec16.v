(* C16: the property as a decidable checker over (schemas, builders), independent of how the
   builders were produced. *)
From Cog Require Export Model.BuildersEq.
Local Open Scope list_scope.

Definition forall2b {A B} (e : A -> B -> bool) : list A -> list B -> bool :=
  fix go (a : list A) (b : list B) : bool :=
    match a, b with
    | [], [] => true
    | x :: r, y :: s => e x y && go r s
    | _, _ => false
    end.

(* does the object resolve — directly or through a chain of references — to a struct? *)
Definition resolves_to_struct (ss : schemas) (o : object) : bool :=
  match resolve_to_type (res_fuel ss) ss (o_type o) with
  | Ok (TStruct _ _ _) => true
  | _ => false
  end.
Definition resolved_fields (ss : schemas) (o : object) : list field :=
  match resolve_to_type (res_fuel ss) ss (o_type o) with
  | Ok (TStruct _ _ fs) => fs
  | _ => []
  end.

(* the value the schema fixes for a field, if any: Some (Some v) = constant v set by the builder's
   constructor; Some None = fixed by the field type's own constructor (constant reference) *)
Definition fixed_value (ss : schemas) (f : field) : option (option dyn) :=
  match f_type f with
  | TScalar _ _ DNil _ => None
  | TScalar _ _ v _ => Some (Some v)
  | TConstRef _ _ _ _ => Some None
  | TRef a _ _ =>
      if f_required f && negb (nullable a) then
        match resolve_to_type (res_fuel ss) ss (f_type f) with
        | Ok (TScalar _ _ DNil _) => None
        | Ok (TScalar _ _ v _) => Some (Some v)
        | _ => None
        end
      else None
  | _ => None
  end.

Definition single_path_to (f : field) (p : path) : bool :=
  match p with
  | [it] => seqb (pi_id it) (f_name f) && ty_eqb (pi_type it) (f_type f)
            && match pi_index it with None => true | Some _ => false end
            && match pi_typehint it with None => true | Some _ => false end && negb (pi_root it)
  | _ => false
  end.

Definition option_covers (f : field) (o : boption) : bool :=
  seqb (op_name o) (f_name f) &&
  match op_args o, op_assignments o with
  | [a], [asg] =>
      seqb (a_name a) (f_name f) && ty_eqb (a_type a) (f_type f) &&
      single_path_to f (as_path asg) && seqb (as_method asg) "direct" &&
      match as_value asg with
      | AValue (Some a') DNil None => argument_eqb a' a
      | _ => false
      end &&
      forall2b (fun (c : constraint) (ac : aconstraint) =>
              seqb (c_op c) (ac_op ac) && argument_eqb (ac_arg ac) a &&
              match c_args c with x :: _ => dyn_eqb x (ac_param ac) | [] => false end)
           (scalar_constraints (f_type f)) (as_constraints asg) &&
      match as_nilchecks asg with [] => true | _ => false end
  | _, _ => false
  end &&
  match dflt (ty_attrs (f_type f)), op_default o with
  | DNil, None => true
  | d, Some [d'] => dyn_eqb d d'
  | _, _ => false
  end.

Definition constant_covers (f : field) (v : dyn) (asg : assignment) : bool :=
  single_path_to f (as_path asg) && seqb (as_method asg) "direct" &&
  match as_value asg with AValue None v' None => dyn_eqb v v' | _ => false end &&
  match as_constraints asg, as_nilchecks asg with [], [] => true | _, _ => false end.

(* every field covered exactly once, in order; nothing left over *)
Fixpoint covered (ss : schemas) (fs : list field) (opts : list boption) (consts : list assignment) : bool :=
  match fs with
  | [] => match opts, consts with [], [] => true | _, _ => false end
  | f :: r =>
      match fixed_value ss f with
      | None => match opts with o :: os => option_covers f o && covered ss r os consts | [] => false end
      | Some None => covered ss r opts consts
      | Some (Some v) => match consts with c :: cs => constant_covers f v c && covered ss r opts cs | [] => false end
      end
  end.

Definition check_builder (ss : schemas) (b : builder) : bool :=
  resolves_to_struct ss (b_for b) &&
  covered ss (resolved_fields ss (b_for b)) (b_options b) (ct_assignments (b_ctor b)) &&
  match ct_args (b_ctor b), b_props b, b_factories b with [], [], [] => true | _, _, _ => false end &&
  seqb (b_name b) (o_name (b_for b)).

Definition struct_objects (ss : schemas) : list (string * object) :=
  flat_map (fun s => map (fun ko => (s_pkg s, snd ko)) (filter (fun ko => resolves_to_struct ss (snd ko)) (s_objects s))) ss.

(* exactly the struct objects get a builder, one each, in order, each covering its fields *)
Definition builders_ok (ss : schemas) (bs : list builder) : bool :=
  forall2b (fun po b => seqb (fst po) (b_pkg b) && object_eqb (snd po) (b_for b)) (struct_objects ss) bs &&
  forallb (check_builder ss) bs.

(* the claim concerns schema sets whose references resolve and do not loop, and whose numeric
   constraints carry their argument *)
Definition all_resolvable (ss : schemas) : bool :=
  forallb (fun s => forallb (fun ko =>
     match resolve_to_type (res_fuel ss) ss (o_type (snd ko)) with
     | Ok (TRef _ _ _) => false | Ok _ => true | _ => false end) (s_objects s)) ss.
Definition field_refs_resolvable (ss : schemas) : bool :=
  forallb (fun s => forallb (fun ko =>
     forallb (fun f => match resolve_to_type (res_fuel ss) ss (f_type f) with Ok _ => true | _ => false end
                       && forallb (fun c => match c_args c with [] => false | _ => true end) (scalar_constraints (f_type f)))
             (resolved_fields ss (snd ko))) (s_objects s)) ss.
Definition in_claim (ss : schemas) : bool := all_resolvable ss && field_refs_resolvable ss.

Definition builders_propfail (c : bcase) : bool :=
  in_claim (fst c) && match snd c with Ok bs => negb (builders_ok (fst c) bs) | _ => true end.
Definition builders_in_claim (c : bcase) : bool := in_claim (fst c).
