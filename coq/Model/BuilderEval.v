(* C09 / C14 — what the builder code cog prints MEANS (Go: templates/builders/*.tmpl of
   internal/jennies/golang; Python: internal/jennies/python/templates/builders/*.tmpl), as functions of
   the post-chain context and of the builder IR the jennies generate from (after veneers and
   languages.GenerateBuilderNilChecks).  Definitions only.

   Values are the Go values of coq/Model/GoSemBase.v (`gval`); the same type is used for Python objects
   (GNil = None, GStruct = a generated model object, GSlice = list, GMap = dict, no GPtr).

   The constructors of the generated TYPES (New<T>() in Go, <T>() in Python: C10's subject) are an
   INPUT of this model: `be_defaults` maps an object to the value its constructor returns (the
   correspondence supplies what the real constructors return).

   MODELLED FRAGMENT (anything else is an explicit GUnmodelled outcome): paths made of struct fields with
   an optional trailing map index given by a string argument or constant; assignment values that are an
   argument, a constant or a one-level envelope; methods direct / append / index; argument types whose
   builders sit under arrays and string-keyed maps; no composable slots, no type hints, no root items,
   no factories, no builder properties. *)
From Coq Require Import List String ZArith Bool Ascii.
From Cog Require Import Model.IR Model.Json Model.Builders Model.GoSem.
Import ListNotations.
Local Open Scope list_scope.
Local Open Scope string_scope.

(* ---------- builder programs: what a caller writes against the generated API ---------- *)
Inductive barg :=
| BJson (j : json)                       (* a plain value, given as the JSON text of its Go / Python literal *)
| BVal (v : gval)                        (* a plain value, given directly (converter output) *)
| BBuild (pkg name : string) (ctor : list barg) (calls : list (string * list barg))
                                         (* pkg.New<name>Builder(ctor...).Opt1(args...).Opt2(args...) *)
| BList (l : list barg)                  (* slice literal whose elements contain builders *)
| BMapB (l : list (string * barg)).      (* map literal whose values contain builders *)

Definition bcalls := list (string * list barg).

Record benv := mkBEnv
  { be_ctx : schemas ;
    be_builders : list builder ;
    be_defaults : list (string * string * gval) }.

Fixpoint find_default (l : list (string * string * gval)) (p n : string) : option gval :=
  match l with
  | [] => None
  | (p', n', v) :: r => if (seqb p' p && seqb n' n)%bool then Some v else find_default r p n
  end.
Definition default_of (e : benv) (p n : string) : option gval := find_default (be_defaults e) p n.

(* ast.Builders.LocateByName / LocateAllByRef *)
Definition builder_for_pkg (b : builder) : string := o_selfpkg (b_for b).
Definition builder_for_name (b : builder) : string := o_selfname (b_for b).
Definition locate_builder (bs : list builder) (p n : string) : option builder :=
  find (fun b => (seqb (builder_for_pkg b) p && seqb (b_name b) n)%bool) bs.
Definition builders_for_ref (bs : list builder) (p n : string) : list builder :=
  filter (fun b => (seqb (builder_for_pkg b) p && seqb (builder_for_name b) n)%bool) bs.
Definition option_by_name (b : builder) (n : string) : option boption :=
  find (fun o => seqb (op_name o) n) (b_options b).

(* languages.Context.ResolveToBuilder *)
Fixpoint resolves_to_builder (fuel : nat) (e : benv) (t : ty) {struct fuel} : bool :=
  match fuel with
  | O => false
  | S f =>
      match t with
      | TArray _ v => resolves_to_builder f e v
      | TMap _ _ v => resolves_to_builder f e v
      | TDisj _ d => existsb (resolves_to_builder f e) (d_branches d)
      | TRef _ p n =>
          match resolve (be_ctx e) t with
          | Some (TDisj _ d) => existsb (resolves_to_builder f e) (d_branches d)
          | _ => negb (match builders_for_ref (be_builders e) p n with [] => true | _ => false end)
          end
      | _ => false
      end
  end.
Definition type_has_builder (e : benv) (t : ty) : bool := resolves_to_builder 8 e t.

(* ---------- results ---------- *)
Record bstate := mkBState { bs_obj : gval ; bs_errors : list string }.

(* Build() *)
Inductive bresult :=
| BROk (v : gval)
| BRErr (paths : list string).

(* an evaluated argument *)
Inductive aval :=
| AVal (v : gval)
| AErr                              (* a builder whose Build() returns an error *)
| AList (l : list aval)
| AMap (l : list (string * aval)).

Definition obind {A B} (o : outcome A) (f : A -> outcome B) : outcome B :=
  match o with GOk a => f a | GErr => GErr | GPanic => GPanic | GUnmodelled w => GUnmodelled w end.
Notation "'dob' x <- r ; k" := (obind r (fun x => k)) (at level 200, x name, r at level 100, k at level 200).

Fixpoint omapM {A B} (f : A -> outcome B) (l : list A) : outcome (list B) :=
  match l with
  | [] => GOk []
  | x :: r => dob y <- f x ; dob ys <- omapM f r ; GOk (y :: ys)
  end.

(* ---------- values ---------- *)
Definition const_gval (d : dyn) : outcome gval :=
  match d with
  | DBool b => GOk (GBool b)
  | DStr s => GOk (GStr s)
  | DInt _ z => GOk (GInt z)
  | DFloat _ r => match parse_dec r with
                  | Some (m, e) => let '(a, b) := num_norm m e in GOk (GFloat a b)
                  | None => GUnmodelled "constant"
                  end
  | _ => GUnmodelled "constant"
  end.

(* maybeAsPointer: Nullable and not an array / map / composable slot *)
Definition as_pointer (t : ty) : bool :=
  (t_nullable t && negb (is_array t) && negb (is_map t) && negb (match t with TSlot _ _ => true | _ => false end))%bool.
Definition maybe_ptr (t : ty) (v : gval) : gval := if as_pointer t then GPtr v else v.

(* a plain argument given as JSON, read at the parameter type (`formatType | trimPrefix "*"`) *)
Definition plain_of_json (ctx : schemas) (t : ty) (j : json) : outcome gval :=
  match decode ctx j (non_null t) with
  | DSet v => GOk v
  | DKeep => GOk (zero ctx (non_null t))
  | DErr => GUnmodelled "argument does not have the parameter type"
  | DUnm w => GUnmodelled w
  end.

(* unfold_builders: Some v = every builder built; None = one failed *)
Fixpoint unfold_aval (a : aval) : option gval :=
  match a with
  | AVal v => Some v
  | AErr => None
  | AList l =>
      match (fix go (l : list aval) : option (list gval) :=
               match l with
               | [] => Some []
               | x :: r => match unfold_aval x, go r with Some v, Some vs => Some (v :: vs) | _, _ => None end
               end) l with
      | Some vs => Some (GSlice vs)
      | None => None
      end
  | AMap l =>
      match (fix go (l : list (string * aval)) : option (list (string * gval)) :=
               match l with
               | [] => Some []
               | (k, x) :: r => match unfold_aval x, go r with Some v, Some vs => Some (gmap_set vs k v) | _, _ => None end
               end) l with
      | Some vs => Some (GMap vs)
      | None => None
      end
  end.

(* ---------- paths ---------- *)
Definition arg_env := list (string * aval).
Fixpoint env_find (env : arg_env) (n : string) : option aval :=
  match env with [] => None | (k, v) :: r => if seqb k n then Some v else env_find r n end.

Definition index_key (env : arg_env) (ix : pathindex) : outcome string :=
  match px_arg ix with
  | Some a => match env_find env (a_name a) with
              | Some (AVal (GStr s)) => GOk s
              | _ => GUnmodelled "map index that is not a string argument"
              end
  | None => match px_const ix with DStr s => GOk s | _ => GUnmodelled "map index constant" end
  end.

Fixpoint fields_upd (fs : list (string * gval)) (n : string) (f : gval -> outcome gval) : outcome (list (string * gval)) :=
  match fs with
  | [] => GUnmodelled "path names a field the value does not have"
  | (k, v) :: r =>
      if seqb k n then dob v' <- f v ; GOk ((k, v') :: r)
      else dob r' <- fields_upd r n f ; GOk ((k, v) :: r')
  end.

(* the l-value `<v>.<item>`: update what the item designates with f.  An item is `.Field`, `.Field[key]` or
   (empty identifier: what MapToIndex appends) `[key]`.  A nil pointer / None on the way panics / raises
   (GPanic); a Go pointer to a struct is followed *)
Definition index_upd (env : arg_env) (ix : pathindex) (m : gval) (f : gval -> outcome gval) : outcome gval :=
  dob k <- index_key env ix ;
  match m with
  | GMap kvs => dob nv <- f (match gmap_find kvs k with Some x => x | None => GNil end) ; GOk (GMap (gmap_set kvs k nv))
  | GNil => GPanic          (* assignment to entry in nil map / 'NoneType' object does not support item assignment *)
  | _ => GUnmodelled "index into a value that is not a map"
  end.

Definition item_upd (env : arg_env) (it : pathitem) (v : gval) (f : gval -> outcome gval) : outcome gval :=
  let g := match pi_index it with None => f | Some ix => fun m => index_upd env ix m f end in
  if (pi_root it || match pi_typehint it with Some _ => true | None => false end)%bool
  then GUnmodelled "root item / type hint" else
  if seqb (pi_id it) "" then
    match pi_index it with Some _ => g v | None => GUnmodelled "empty path item" end
  else
  match v with
  | GStruct fs => dob fs' <- fields_upd fs (pi_id it) g ; GOk (GStruct fs')
  | GPtr (GStruct fs) => dob fs' <- fields_upd fs (pi_id it) g ; GOk (GPtr (GStruct fs'))
  | GNil => GPanic                  (* nil pointer dereference / 'NoneType' object has no attribute *)
  | _ => GUnmodelled "path through a value that is not a struct"
  end.

Fixpoint path_upd (env : arg_env) (p : path) (v : gval) (f : gval -> outcome gval) : outcome gval :=
  match p with
  | [] => f v
  | it :: rest => item_upd env it v (fun x => path_upd env rest x f)
  end.

(* reading a path (nil checks): None = not evaluable (nil on the way) *)
Definition index_get (env : arg_env) (ix : pathindex) (m : gval) : option gval :=
  match m, index_key env ix with
  | GMap kvs, GOk k => Some (match gmap_find kvs k with Some y => y | None => GNil end)
  | _, _ => None
  end.
Definition item_get (env : arg_env) (it : pathitem) (v : gval) : option gval :=
  let after := fun x : gval => match pi_index it with None => Some x | Some ix => index_get env ix x end in
  if seqb (pi_id it) "" then after v else
  match v with
  | GStruct fs | GPtr (GStruct fs) =>
      match gmap_find fs (pi_id it) with Some x => after x | None => None end
  | _ => None
  end.
Fixpoint path_get (env : arg_env) (p : path) (v : gval) : option gval :=
  match p with
  | [] => Some v
  | it :: rest => match item_get env it v with Some x => path_get env rest x | None => None end
  end.

Definition path_last_type (p : path) : ty := match List.last p (mkPathItem "" None ty_zero None false) with it => pi_type it end.

(* ---------- Go: emptyValueForGuard ---------- *)
Definition go_empty_value (e : benv) (t : ty) : outcome gval :=
  match t with
  | TRef _ p n =>
      match resolve (be_ctx e) t with
      | Some (TStruct _ _ _) =>
          match default_of e p n with
          | Some v => GOk (GPtr v)                                  (* New<T>() *)
          | None => GUnmodelled "no default object for a nil check"
          end
      | Some (TArray _ _) => GOk (GSlice [])
      | Some (TMap _ _ _) => GOk (GMap [])
      | _ => GUnmodelled "nil check on this kind"
      end
  | TArray _ _ => GOk (GSlice [])
  | TMap _ _ _ => GOk (GMap [])
  | TStruct _ _ _ => GOk (GPtr (zero (be_ctx e) (non_null t)))       (* &struct{...}{} *)
  | _ => GUnmodelled "nil check on this kind"
  end.

(* nilcheck.tmpl *)
Definition go_nil_check (e : benv) (env : arg_env) (obj : gval) (nc : nilcheck) : outcome gval :=
  match path_get env (nc_path nc) obj with
  | None => GPanic                                                  (* nil dereference while evaluating the guard *)
  | Some GNil => dob ev <- go_empty_value e (non_null (nc_empty nc)) ;
                 path_upd env (nc_path nc) obj (fun _ => GOk ev)
  | Some _ => GOk obj
  end.

(* ---------- Go: assignment_setup + assignment_value ----------
   Some v: the value expression; None: a nested builder failed (the option records the error and returns) *)
Definition arg_value (e : benv) (env : arg_env) (a : argument) : outcome (option gval) :=
  match env_find env (a_name a) with
  | None => GUnmodelled "assignment uses an argument the option does not have"
  | Some av =>
      if type_has_builder e (a_type a) then
        match a_type a with
        | TArray _ _ | TMap _ _ _ | TRef _ _ _ => GOk (unfold_aval av)
        | _ => GUnmodelled "builder argument kind"
        end
      else match av with AVal v => GOk (Some v) | _ => GUnmodelled "builder given for a plain parameter" end
  end.

Definition go_simple_value (e : benv) (env : arg_env) (into : ty) (arg : option argument) (c : dyn) : outcome (option gval) :=
  match arg, c with
  | Some a, DNil => dob ov <- arg_value e env a ;
                    GOk (match ov with Some v => Some (maybe_ptr into v) | None => None end)
  | None, DNil => GUnmodelled "assignment without value"
  | _, _ => dob v <- const_gval c ;
            GOk (Some (if (t_nullable into && negb (is_array into))%bool then GPtr v else v))
  end.

Definition set_struct_field (v : gval) (n : string) (x : gval) : outcome gval :=
  match v with
  | GStruct fs => dob fs' <- fields_upd fs n (fun _ => GOk x) ; GOk (GStruct fs')
  | _ => GUnmodelled "envelope type"
  end.

Definition go_value (e : benv) (env : arg_env) (a : assignment) : outcome (option gval) :=
  match as_value a with
  | AValue arg c None => go_simple_value e env (path_last_type (as_path a)) arg c
  | AValue None DNil (Some (et, vals)) =>
      (* value_envelope: T{ Field: value, ... } *)
      (fix go (vals : list (path * avalue)) (acc : gval) : outcome (option gval) :=
         match vals with
         | [] => GOk (Some acc)
         | (p, AValue arg c None) :: r =>
             match p with
             | it :: _ =>
                 dob ov <- go_simple_value e env (path_last_type p) arg c ;
                 match ov with
                 | None => GOk None
                 | Some v => dob acc' <- set_struct_field acc (pi_id it) v ; go r acc'
                 end
             | [] => GUnmodelled "envelope path"
             end
         | _ => GUnmodelled "envelope in envelope"
         end) vals (zero (be_ctx e) (non_null et))
  | _ => GUnmodelled "assignment value"
  end.

Definition assign_method (m : string) (v : gval) : gval -> outcome gval :=
  if seqb m "append" then
    (fun old => match old with
                | GNil => GOk (GSlice [v])
                | GSlice l => GOk (GSlice (l ++ [v]))
                | _ => GUnmodelled "append to a value that is not a slice"
                end)
  else (fun _ => GOk v).

(* one `assignment` block; None in the second component = `return builder` after recording the error *)
Definition go_assignment (e : benv) (env : arg_env) (st : bstate) (a : assignment) : outcome (bstate * bool) :=
  dob obj <- (fix go (ncs : list nilcheck) (obj : gval) : outcome gval :=
                match ncs with [] => GOk obj | nc :: r => dob o' <- go_nil_check e env obj nc ; go r o' end)
             (as_nilchecks a) (bs_obj st) ;
  dob ov <- go_value e env a ;
  match ov with
  | None => GOk (mkBState obj (bs_errors st ++ [String.concat "." (map pi_id (as_path a))]), false)
  | Some v => dob obj' <- path_upd env (as_path a) obj (assign_method (as_method a) v) ;
              GOk (mkBState obj' (bs_errors st), true)
  end.

Fixpoint go_assignments (e : benv) (env : arg_env) (st : bstate) (l : list assignment) : outcome bstate :=
  match l with
  | [] => GOk st
  | a :: r => dob sr <- go_assignment e env st a ;
              if snd sr then go_assignments e env (fst sr) r else GOk (fst sr)
  end.

(* Build(): only Validate() decides *)
Definition go_build (e : benv) (b : builder) (st : bstate) : bresult :=
  match validate_object (be_ctx e) (builder_for_pkg b) (builder_for_name b) (bs_obj st) with
  | [] => BROk (bs_obj st)
  | ps => BRErr ps
  end.

Definition bind_args (params : list argument) (vals : list aval) : outcome arg_env :=
  if Nat.eqb (List.length params) (List.length vals)
  then GOk (combine (map a_name params) vals) else GUnmodelled "argument count".

Definition go_new_builder (e : benv) (b : builder) (cargs : list aval) : outcome bstate :=
  match b_props b, b_factories b, default_of e (builder_for_pkg b) (builder_for_name b) with
  | [], _, Some d =>
      dob env <- bind_args (ct_args (b_ctor b)) cargs ;
      go_assignments e env (mkBState d []) (ct_assignments (b_ctor b))
  | _ :: _, _, _ => GUnmodelled "builder properties"
  | _, _, None => GUnmodelled "no default object"
  end.

Definition go_option (e : benv) (o : boption) (st : bstate) (args : list aval) : outcome bstate :=
  dob env <- bind_args (op_args o) args ;
  go_assignments e env st (op_assignments o).

(* ---------- evaluation of programs (fuel: nesting depth of builders inside arguments) ---------- *)
Fixpoint go_arg (fuel : nat) (e : benv) (t : ty) (a : barg) {struct fuel} : outcome aval :=
  match fuel with
  | O => GUnmodelled "fuel"
  | S f =>
      match a with
      | BJson j => dob v <- plain_of_json (be_ctx e) t j ; GOk (AVal v)
      | BVal v => GOk (AVal v)
      | BBuild p n ctor calls =>
          match locate_builder (be_builders e) p n with
          | None => GUnmodelled "unknown builder"
          | Some b =>
              dob cargs <- omapM (fun ta => go_arg f e (a_type (fst ta)) (snd ta)) (combine (ct_args (b_ctor b)) ctor) ;
              if negb (Nat.eqb (List.length ctor) (List.length (ct_args (b_ctor b)))) then GUnmodelled "argument count" else
              dob st0 <- go_new_builder e b cargs ;
              dob st <- (fix run (calls : bcalls) (st : bstate) : outcome bstate :=
                           match calls with
                           | [] => GOk st
                           | (on, args) :: r =>
                               match option_by_name b on with
                               | None => GUnmodelled "unknown option"
                               | Some o =>
                                   if negb (Nat.eqb (List.length args) (List.length (op_args o))) then GUnmodelled "argument count" else
                                   dob avs <- omapM (fun ta => go_arg f e (a_type (fst ta)) (snd ta)) (combine (op_args o) args) ;
                                   dob st' <- go_option e o st avs ;
                                   run r st'
                               end
                           end) calls st0 ;
              GOk (match go_build e b st with BROk v => AVal v | BRErr _ => AErr end)
          end
      | BList l =>
          match t with
          | TArray _ et => dob avs <- omapM (go_arg f e et) l ; GOk (AList avs)
          | _ => GUnmodelled "list argument for a parameter that is not an array"
          end
      | BMapB l =>
          match t with
          | TMap _ _ vt => dob avs <- omapM (fun ka => dob x <- go_arg f e vt (snd ka) ; GOk (fst ka, x)) l ; GOk (AMap avs)
          | _ => GUnmodelled "map argument for a parameter that is not a map"
          end
      end
  end.

Definition go_args (fuel : nat) (e : benv) (params : list argument) (args : list barg) : outcome (list aval) :=
  if negb (Nat.eqb (List.length args) (List.length params)) then GUnmodelled "argument count" else
  omapM (fun ta => go_arg fuel e (a_type (fst ta)) (snd ta)) (combine params args).

(* the states of builder b after its constructor and after every call, in order *)
Fixpoint go_run (fuel : nat) (e : benv) (b : builder) (st : bstate) (calls : bcalls) : outcome (list bstate) :=
  match calls with
  | [] => GOk []
  | (on, args) :: r =>
      match option_by_name b on with
      | None => GUnmodelled "unknown option"
      | Some o =>
          dob avs <- go_args fuel e (op_args o) args ;
          dob st' <- go_option e o st avs ;
          dob rest <- go_run fuel e b st' r ;
          GOk (st' :: rest)
      end
  end.

Definition default_fuel : nat := 6.

Definition go_trace (e : benv) (p n : string) (ctor : list barg) (calls : bcalls) : outcome (list bstate) :=
  match locate_builder (be_builders e) p n with
  | None => GUnmodelled "unknown builder"
  | Some b =>
      dob cargs <- go_args default_fuel e (ct_args (b_ctor b)) ctor ;
      dob st0 <- go_new_builder e b cargs ;
      dob rest <- go_run default_fuel e b st0 calls ;
      GOk (st0 :: rest)
  end.

Definition last_state (l : list bstate) : bstate := List.last l (mkBState GNil []).

(* builder_eval: the object under construction after the program, and what Build() returns *)
Definition builder_eval (e : benv) (p n : string) (ctor : list barg) (calls : bcalls) : outcome (bstate * bresult) :=
  match locate_builder (be_builders e) p n with
  | None => GUnmodelled "unknown builder"
  | Some b => dob tr <- go_trace e p n ctor calls ; GOk (last_state tr, go_build e b (last_state tr))
  end.
