(* The construct grammar `Src` (the quantifier of C01 and of the other generated-code properties)
   and its validity `src_valid`: what each schema language says a document must look like, on this
   grammar.  Mirrors the python dictionaries of gen/srcgen.py (src_to_gallina).  Definitions only.
   `src_valid` is NOT what the checks use as "accepted by the source schema" (that is always the
   verdict of python jsonschema / kin-openapi / CUE); it is validated against those validators by the
   src_valid stream of checks/c01.py. *)
From Coq Require Import List String ZArith Bool Ascii.
From Cog Require Import Model.IR Model.Json Model.GoSemBase Model.GoSemValidate.
Import ListNotations.
Local Open Scope list_scope.
Local Open Scope string_scope.

(* sf_null: the member may be null.  sf_nullta: (JSON Schema only) that nullable SCALAR member is written as a
   type array, {"type": ["integer","null"], "minimum": 1}, instead of oneOf [T, null]; same meaning. *)
Record sfield_ (T : Type) := mkSField
  { sf_name : string ; sf_type : T ; sf_req : bool ; sf_null : bool ; sf_nullta : bool }.
Arguments mkSField {T}. Arguments sf_name {T}. Arguments sf_type {T}. Arguments sf_req {T}. Arguments sf_null {T}.
Arguments sf_nullta {T}.

Inductive src_ty :=
| SBool
| SInt (w : string) (ge gt le lt : option Z)
| SFloat (w : string) (ge gt le lt : option (Z * Z))
| SString (minlen maxlen : option Z)
| SDateTime
| SAny
| SConst (v : json)
| SEnum (vals : list json)
| SArray (of : src_ty)
| SMap (of : src_ty)
| SRef (name : string)
| SStruct (fs : list (sfield_ src_ty))
| SUnion (bs : list src_ty)
| SDUnion (disc : string) (names : list string).

Definition sfield := sfield_ src_ty.
Record src_schema := mkSrc { src_pkg : string ; src_root : string ; src_defs : list (string * src_ty) }.

Fixpoint src_lookup (defs : list (string * src_ty)) (n : string) : option src_ty :=
  match defs with [] => None | (k, t) :: r => if seqb k n then Some t else src_lookup r n end.

Fixpoint src_resolve (defs : list (string * src_ty)) (fuel : nat) (t : src_ty) : option src_ty :=
  match t with
  | SRef n => match fuel with
              | O => None
              | S f => match src_lookup defs n with Some t' => src_resolve defs f t' | None => None end
              end
  | _ => Some t
  end.

Definition width_range (fmt w : string) : option (Z * Z) :=
  let k := if seqb w "int8" then KInt8 else if seqb w "int16" then KInt16 else if seqb w "int32" then KInt32
           else if seqb w "int64" then KInt64 else if seqb w "uint8" then KUint8 else if seqb w "uint16" then KUint16
           else if seqb w "uint32" then KUint32 else KUint64 in
  if seqb fmt "jsonschema" then None           (* `integer` has no width *)
  else if seqb fmt "openapi" then (if seqb w "int32" then int_range KInt32 else None)
  else int_range k.

Definition opt_ok (b : option (Z * Z)) (f : comparison -> bool) (x : Z * Z) : bool :=
  match b with None => true | Some lim => f (dec_compare x lim) end.
Definition zopt (o : option Z) : option (Z * Z) := match o with Some z => Some (z, 0%Z) | None => None end.
Definition bounds_ok (ge gt le lt : option (Z * Z)) (x : Z * Z) : bool :=
  (opt_ok ge (fun c => match c with Lt => false | _ => true end) x &&
   opt_ok gt (fun c => match c with Gt => true | _ => false end) x &&
   opt_ok le (fun c => match c with Gt => false | _ => true end) x &&
   opt_ok lt (fun c => match c with Lt => true | _ => false end) x)%bool.

Definition is_integral (m e : Z) : bool := let '(_, b) := num_norm m e in Z.leb 0 b.
Definition int_value (m e : Z) : Z := let '(a, b) := num_norm m e in (a * 10 ^ b)%Z.

Definition in_list (j : json) (l : list json) : bool := existsb (fun x => json_eq x j) l.

Fixpoint src_valid (fmt : string) (defs : list (string * src_ty)) (j : json) (t : src_ty) {struct j} : bool :=
  let fuel := S (List.length defs) in
  match src_resolve defs fuel t with
  | None => false
  | Some rt =>
      let simple := fun rt : src_ty =>
        match rt, j with
        | SBool, JBool _ => true
        | SInt w ge gt le lt, JNum m e =>
            ((if seqb fmt "cue" then num_is_int_literal m e else is_integral m e) &&
             match width_range fmt w with
             | Some (lo, hi) => (Z.leb lo (int_value m e) && Z.leb (int_value m e) hi)%bool
             | None => true end &&
             bounds_ok (zopt ge) (zopt gt) (zopt le) (zopt lt) (m, e))%bool
        | SFloat _ ge gt le lt, JNum m e =>
            ((if seqb fmt "cue" then Z.ltb e 0 else true) && bounds_ok ge gt le lt (m, e))%bool
        | SString mn mx, JStr s =>
            (match mn with Some n => Z.leb n (rune_count s) | None => true end &&
             match mx with Some n => Z.leb (rune_count s) n | None => true end)%bool
        | SDateTime, JStr s => match parse_time s with TBadTime => false | _ => true end
        | SAny, _ => true
        | SConst v, _ => json_eq v j
        | SEnum vals, _ => in_list j vals
        | SArray et, JArr l => forallb (fun x => src_valid fmt defs x et) l
        | SMap vt, JObj ms => forallb (fun kv => src_valid fmt defs (snd kv) vt) ms
        | _, _ => false
        end in
      let struct_ok := fun (fs : list sfield) (ms : list (string * json)) =>
        (str_nodup (map fst ms) &&
         forallb (fun kv => match find (fun f => seqb (sf_name f) (fst kv)) fs with
                            | None => false
                            | Some f =>
                                match snd kv with
                                | JNull => (sf_null f ||
                                            match src_resolve defs fuel (sf_type f) with Some SAny => true | _ => false end)%bool
                                | _ => src_valid fmt defs (snd kv) (sf_type f)
                                end
                            end) ms &&
         forallb (fun f => (negb (sf_req f) || str_in (sf_name f) (map fst ms))%bool) fs)%bool in
      match rt with
      | SStruct fs => match j with JObj ms => struct_ok fs ms | _ => false end
      | SUnion bs =>
          existsb (fun b => match src_resolve defs fuel b with Some rb => simple rb | None => false end) bs
      | SDUnion disc names =>
          match j with
          | JObj ms =>
              existsb (fun n => match src_resolve defs fuel (SRef n) with
                                | Some (SStruct fs) => struct_ok fs ms
                                | _ => false end) names
          | _ => false
          end
      | _ => simple rt
      end
  end.

Definition src_valid_doc (fmt : string) (s : src_schema) (tname : string) (j : json) : bool :=
  match j with JNull => false | _ => src_valid fmt (src_defs s) j (SRef tname) end.

(* one element of the src_valid stream: (schema, format, type, document, verdict of the reference validator) *)
Definition src_valid_disagrees (c : src_schema * string * string * json * bool) : bool :=
  let '(s, fmt, tname, j, verdict) := c in negb (Bool.eqb (src_valid_doc fmt s tname j) verdict).
