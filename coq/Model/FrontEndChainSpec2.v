(* Second round of specifications for the theorems across the Go compiler-pass chain (definitions only).

   ty_sup_pre / ctx_sup_pre : what, on a plain PRE-chain context (Model/FrontEndChainSpec.v ctx_plain), makes the
                              post-chain context `nrfn_only ctx` satisfy GoSem.ctx_supported: every constraint is
                              one the emitted Go comparison type-checks for, every reference names an object, every
                              map is string-keyed.
   src_safe s tname d       : (G2) the source-level safety predicate, see below. *)
From Coq Require Import List String ZArith Bool Ascii.
From Cog Require Import Model.IR Model.Json Model.GoSemBase Model.GoSemDecode Model.GoSemValidate Model.GoSemStrict
  Model.GoSem Model.GoSemSpec08 Model.GoSemSpec01 Model.GoSemSpec01F
  Model.Src Model.FrontEnd Model.FrontEndSpec Model.Passes Model.FrontEndChainSpec.
Import ListNotations.
Local Open Scope string_scope.
Local Open Scope list_scope.

Fixpoint ty_sup_pre (ctx : schemas) (t : ty) : bool :=
  match t with
  | TScalar _ k _ cs => forallb (constraint_supported k) cs
  | TRef _ p n => match locate_object ctx p n with Some _ => true | None => false end
  | TArray _ v => ty_sup_pre ctx v
  | TMap _ i v => (match i with TScalar _ KString _ _ => true | _ => false end && ty_sup_pre ctx v)%bool
  | TStruct _ _ fs => forallb (fun f => ty_sup_pre ctx (f_type f)) fs
  | _ => false
  end.
Definition ctx_sup_pre (ctx : schemas) : bool :=
  forallb (fun s => forallb (fun ko => ty_sup_pre ctx (o_type (snd ko))) (s_objects s)) ctx.

(* ---------- G2: the source-level safety predicate ----------
   src_safe s tname d walks the document along the SOURCE type and mirrors the conjuncts of roundtrip_safeF
   (Model/GoSemSpec01F.v) that can fire on the plain fragment:
     - an optional member holding an empty array / object                      (omitempty drops it)
     - a date-time not in the form time.Time prints                            (re-formatted)
     - an integer not written as an integer literal                            (rejected by the decoders)
     - a float64 beyond 15 significant digits                                  (not printed back)
     - an array directly inside an array / a map directly inside a map, unless of scalars (depth <= 8)
     - a required member absent; a null anywhere (src_valid rejects both on the fragment: src_safe is
       deliberately conservative there, it is a SUFFICIENT condition for roundtrip_safeF) *)
Definition s_is_scalar (t : src_ty) : bool :=
  match t with SBool | SInt _ _ _ _ _ | SFloat _ _ _ _ _ | SString _ _ | SDateTime => true | _ => false end.
Fixpoint s_arr_scalars (fuel : nat) (t : src_ty) : bool :=
  match fuel with
  | O => false
  | S f => match t with
           | SArray et => match et with SArray _ => s_arr_scalars f et | _ => s_is_scalar et end
           | _ => false
           end
  end.
Fixpoint s_map_scalars (fuel : nat) (t : src_ty) : bool :=
  match fuel with
  | O => false
  | S f => match t with
           | SMap vt => match vt with SMap _ => s_map_scalars f vt | _ => s_is_scalar vt end
           | _ => false
           end
  end.
Definition s_scalar_safe (t : src_ty) (j : json) : bool :=
  match t, j with
  | SDateTime, JStr s => match parse_time s with TOk s' _ => String.eqb s' s | _ => false end
  | SFloat _ _ _ _ _, JNum m e => let '(a, _) := num_norm m e in Z.ltb (Z.abs a) 1000000000000000
  | SInt _ _ _ _ _, JNum m e => num_is_int_literal m e
  | _, _ => true
  end.

Fixpoint src_safe_ty (defs : list (string * src_ty)) (src : rawsrc) (j : json) (t : src_ty) {struct j} : bool :=
  match j with
  | JNull => false
  | _ =>
      match t with
      | SRef n =>
          match src_lookup defs n with
          | Some (SStruct fs) =>
              match j with
              | JObj ms =>
                  (forallb (fun kv => match find (fun f => seqb (sf_name f) (fst kv)) fs with
                                      | None => true
                                      | Some f => (src_safe_ty defs RField (snd kv) (sf_type f) &&
                                                   (sf_req f || negb (is_empty_collection (snd kv))))%bool
                                      end) ms &&
                   forallb (fun f => (negb (sf_req f) || str_in (sf_name f) (map fst ms))%bool) fs)%bool
              | _ => true
              end
          | _ => false
          end
      | SArray et =>
          match j with
          | JArr l => (forallb (fun x => src_safe_ty defs RElem x et) l &&
                       (s_arr_scalars 8 t || match src with RElem => false | _ => true end))%bool
          | _ => true
          end
      | SMap vt =>
          match j with
          | JObj ms => (forallb (fun kv => src_safe_ty defs RVal (snd kv) vt) ms &&
                        (s_map_scalars 8 t || match src with RVal => false | _ => true end))%bool
          | _ => true
          end
      | _ => s_scalar_safe t j
      end
  end.
Definition src_safe (s : src_schema) (tname : string) (d : json) : bool :=
  src_safe_ty (src_defs s) RField d (SRef tname).

(* ---------- G3 (b): the fragment widened with string constants in member position ----------
   {"type": "string", "const": "x"} parses to the scalar TScalar attrs0 KString (DStr "x") []: a leaf every pass
   of chain_go leaves alone (ctx_leafy still holds), accepted before the chain iff the document is that
   string, after the chain iff it is a string (ir_valid does not look at constants). *)
Definition kindv_plain (k : skind) (v : dyn) : bool :=
  ((dyn_is_nil v && kind_plain k) || match k, v with KString, DStr _ => true | _, _ => false end)%bool.
Fixpoint ty_plainc (t : ty) : bool :=
  match t with
  | TScalar a k v _ => (attrs_plain a && kindv_plain k v)%bool
  | TRef a _ _ => attrs_plain a
  | TArray a v => (attrs_plain a && ty_plainc v)%bool
  | TMap a i v => (attrs_plain a && ty_plainc i && ty_plainc v)%bool
  | _ => false
  end.
Definition obj_plainc (ko : string * object) : bool :=
  (seqb (fst ko) (o_name (snd ko)) &&
   match o_type (snd ko) with
   | TStruct a dh fs =>
       (attrs_plain a && match dh with [] => true | _ => false end && forallb (fun f => ty_plainc (f_type f)) fs)%bool
   | _ => false
   end)%bool.
Definition schema_plainc (s : schema) : bool :=
  (str_nodup (map fst (s_objects s)) && forallb obj_plainc (s_objects s) && ty_plainc (s_entrytype s))%bool.
Definition ctx_plainc (ctx : schemas) : bool := forallb schema_plainc ctx.

Fixpoint sty_plainc (t : src_ty) : bool :=
  match t with
  | SBool | SInt _ _ _ _ _ | SFloat _ _ _ _ _ | SString _ _ | SDateTime | SRef _ => true
  | SConst (JStr _) => true
  | SArray et => sty_plainc et
  | SMap vt => sty_plainc vt
  | _ => false
  end.
Definition sfield_plainc (f : sfield) : bool :=
  (negb (sf_null f) && negb (sf_nullta f) && sty_plainc (sf_type f))%bool.
Definition sdef_plainc (t : src_ty) : bool :=
  match t with
  | SStruct (f :: fs) => forallb sfield_plainc (f :: fs)
  | _ => false
  end.
Definition chain_plain2 (s : src_schema) : bool :=
  (src_wf s && forallb (fun d => sdef_plainc (snd d)) (src_defs s))%bool.
