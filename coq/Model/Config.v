(* C20: strict decoding of cog's three YAML configuration files and the JSON Schemas published
   for them.  DEFINITIONS ONLY (lemmas: Proofs/ConfigProofs.v, statements: Props/C20.v).

   The key forests, conversion tables, union registry and decoder table this model is applied
   to are regenerated from /repo on every run (Gen/ConfigKeys_gen.v):
     loader side   reflection over codegen.Pipeline / yaml.Compiler / yaml.Veneers with yaml.v3's
                   naming rules (harness/verifh_c20/keys.go), go/parser over the As… methods;
     schema side   schemas/pipeline.json, compiler_passes.json, veneers.json (checks/c20.py). *)
From Coq Require Export List String Bool Arith.
Export ListNotations.
Local Open Scope list_scope.

(* ------------------------------------------------------------------ key forests *)
Inductive skind := KString | KBool | KInt | KFloat.

(* What a position of a configuration file may hold.  Every struct / JSON-Schema object with
   declared properties is NAMED (NObj r, looked up in a definition table), which is also how
   recursive types (ast.Type) are represented.
     NMap n      free-form keys, every value shaped like n   (Go map[string]T; schema: object
                 with additionalProperties only)          -- NOT part of the configuration language
     NAny        anything (Go `any`; schema `true`)       -- NOT part of the configuration language
     NUnknown    something the translator does not understand (custom UnmarshalYAML, oneOf, …):
                 decoding is free-form, and no comparison involving it ever succeeds. *)
Inductive node :=
| NObj (r : string)
| NSeq (e : node)
| NMap (e : node)
| NScalar (k : skind)
| NAny
| NUnknown (why : string).

(* o_extra = None: only the declared keys are part of the language (KnownFields(true) /
   additionalProperties: false);  Some n: any other key is accepted with a value shaped like n
   (yaml `,inline` map / additionalProperties: <schema>). *)
Record objdef := { o_fields : list (string * node); o_extra : option node }.
Definition defs_t := list (string * objdef).

Fixpoint assoc {A} (l : list (string * A)) (k : string) : option A :=
  match l with
  | [] => None
  | (k', a) :: r => if String.eqb k' k then Some a else assoc r k
  end.

Fixpoint mem (k : string) (l : list string) : bool :=
  match l with [] => false | x :: r => String.eqb x k || mem k r end.

(* ------------------------------------------------------------------ documents *)
(* YAML after parsing: mappings with string keys (in document order, duplicates representable),
   sequences, scalars.  Scalars carry what yaml.v3 resolves them to. *)
Inductive scalar := SNull | SStr (s : string) | SInt | SBool.
Inductive doc :=
| DMap (kvs : list (string * doc))
| DSeq (ds : list doc)
| DScalar (s : scalar).

Definition keys_of (kvs : list (string * doc)) : list string := map fst kvs.

Fixpoint nodupb (l : list string) : bool :=
  match l with [] => true | x :: r => negb (mem x r) && nodupb r end.

(* yaml.v3 refuses a mapping that defines a key twice, whatever it is decoded into
   (decoder.uniqueKeys, checked in d.mapping and d.mappingStruct). *)
Fixpoint unique_keys (d : doc) : bool :=
  match d with
  | DMap kvs => nodupb (keys_of kvs) && forallb (fun kv => unique_keys (snd kv)) kvs
  | DSeq ds => forallb unique_keys ds
  | DScalar _ => true
  end.

(* yaml.v3 decoder.scalar: which resolved scalars fit which Go kind (null fits everything:
   the zero value is kept).  Strings are always quoted in generated documents. *)
Definition scalar_fits (k : skind) (s : scalar) : bool :=
  match s, k with
  | SNull, _ => true
  | SStr _, KString => true
  | SStr _, _ => false
  | SInt, KBool => false
  | SInt, _ => true
  | SBool, KString => true
  | SBool, KBool => true
  | SBool, _ => false
  end.

(* ------------------------------------------------------------------ decoding (yaml.v3) *)
(* decode kf D n d: does yaml.Decoder.Decode with KnownFields(kf) succeed when a value of the
   shape n is filled from d?   Mirrors decoder.unmarshal / mapping / mappingStruct / sequence /
   scalar restricted to what decides success:
     - a mapping key that is not a declared field of the struct is an error iff kf
       (with kf = false the key AND its whole value are skipped unseen);
     - mappings only into structs / maps / any, sequences only into slices / any, scalars only
       into matching scalar kinds / any; null into anything;
     - duplicate keys are an error. *)
Fixpoint decode (kf : bool) (D : defs_t) (n : node) (d : doc) {struct d} : bool :=
  match d with
  | DScalar s =>
      match s with
      | SNull => true
      | _ => match n with NScalar k => scalar_fits k s | NAny | NUnknown _ => true | _ => false end
      end
  | DSeq ds =>
      match n with
      | NSeq e => forallb (decode kf D e) ds
      | NAny | NUnknown _ => forallb unique_keys ds
      | _ => false
      end
  | DMap kvs =>
      match n with
      | NObj r =>
          match assoc D r with
          | None => false
          | Some o =>
              nodupb (keys_of kvs) &&
              forallb (fun kv =>
                         match assoc (o_fields o) (fst kv) with
                         | Some c => decode kf D c (snd kv)
                         | None => match o_extra o with
                                   | Some e => decode kf D e (snd kv)
                                   | None => negb kf
                                   end
                         end) kvs
          end
      | NMap e => nodupb (keys_of kvs) && forallb (fun kv => decode kf D e (snd kv)) kvs
      | NAny | NUnknown _ => nodupb (keys_of kvs) && forallb (fun kv => unique_keys (snd kv)) kvs
      | _ => false
      end
  end.

Definition decode_strict := decode true.

(* ------------------------------------------------------------------ conversion (As… methods) *)
(* After decoding, the loaders convert the decoded structs:
     CompilerLoader.Load      for every entry of `passes`:   CompilerPass.AsCompilerPass
     VeneersLoader.load       `package` must not be empty; for every entry of `builders` /
                              `options`: BuilderRule.AsRewriteRule / OptionRule.AsRewriteRule
   and those methods dispatch on the first non-nil member, recursively (AsSelector, …).
   A conversion table gives, per struct, what its conversion checks:
     CUnion keys rej    if-chain over nil-able members in THIS order: the first member present with
                        a non-null value is converted (its own table entry applies to its value);
                        when none is set the conversion fails iff rej ("empty rule", "empty
                        selector", "empty compiler pass")
     CNonEmpty keys     fails unless one of the keys holds a non-empty string
     CEach key          every element of the sequence under key is converted. *)
Inductive constr :=
| CUnion (keys : list string) (reject_empty : bool)
| CNonEmpty (keys : list string)
| CEach (key : string).
Definition conv_t := list (string * list constr).

Definition is_null (d : doc) : bool := match d with DScalar SNull => true | _ => false end.

(* the value a nil-able member holds: first entry with that key (decoding has already refused
   duplicates), nil when null *)
Fixpoint member_set (kvs : list (string * doc)) (k : string) : bool :=
  match kvs with
  | [] => false
  | (k', v) :: r => if String.eqb k' k then negb (is_null v) else member_set r k
  end.

(* the member the if-chain dispatches to *)
Fixpoint first_set (keys : list string) (kvs : list (string * doc)) : option string :=
  match keys with
  | [] => None
  | k :: r => if member_set kvs k then Some k else first_set r kvs
  end.

Definition nonempty_scalar (d : doc) : bool :=
  match d with
  | DScalar SNull => false
  | DScalar (SStr s) => negb (String.eqb s "")
  | DScalar _ => true
  | _ => false
  end.

Fixpoint holds_nonempty (kvs : list (string * doc)) (k : string) : bool :=
  match kvs with
  | [] => false
  | (k', v) :: r => if String.eqb k' k then nonempty_scalar v else holds_nonempty r k
  end.

Definition constrs_of (C : conv_t) (r : string) : list constr :=
  match assoc C r with Some cs => cs | None => [] end.

Definition opt_eqb (a : option string) (k : string) : bool :=
  match a with Some x => String.eqb x k | None => false end.

Definition elem_node (n : option node) : option node :=
  match n with Some (NSeq e) => Some e | _ => None end.

(* convert D C n d: do the As… conversions succeed on the value decoded from d?  (Only called on
   documents that decoded; shapes that do not fit are decode's business and count as fine.) *)
Fixpoint convert (D : defs_t) (C : conv_t) (n : node) (d : doc) {struct d} : bool :=
  match d with
  | DMap kvs =>
      match n with
      | NObj r =>
          match assoc D r with
          | None => true
          | Some o =>
              forallb (fun c =>
                match c with
                | CUnion keys rej =>
                    match first_set keys kvs with
                    | None => negb rej
                    | Some m =>
                        forallb (fun kv =>
                                   if String.eqb (fst kv) m
                                   then match assoc (o_fields o) m with
                                        | Some cn => convert D C cn (snd kv)
                                        | None => true
                                        end
                                   else true) kvs
                    end
                | CNonEmpty keys => existsb (holds_nonempty kvs) keys
                | CEach k =>
                    forallb (fun kv =>
                               if String.eqb (fst kv) k
                               then match elem_node (assoc (o_fields o) k), snd kv with
                                    | Some e, DSeq ds => forallb (convert D C e) ds
                                    | _, _ => true
                                    end
                               else true) kvs
                end) (constrs_of C r)
          end
      | _ => true
      end
  | _ =>
      (* null where a struct is expected leaves the zero value: no member set, nothing non-empty
         (anything else than null does not decode in the first place) *)
      match n with
      | NObj r => forallb (fun c => match c with
                                    | CUnion _ rej => negb rej
                                    | CNonEmpty _ => false
                                    | CEach _ => true
                                    end) (constrs_of C r)
      | _ => true
      end
  end.

(* One configuration language: shapes + conversion table + the decoder flag found in the source *)
Record forest := { f_root : node; f_defs : defs_t; f_conv : conv_t; f_known_fields : bool }.

(* PipelineFromFile / CompilerLoader.Load / VeneersLoader.load: accept = no error *)
Definition load (F : forest) (d : doc) : bool :=
  decode (f_known_fields F) (f_defs F) (f_root F) d && convert (f_defs F) (f_conv F) (f_root F) d.

(* ------------------------------------------------------------------ paths and injection *)
(* A path addresses a node of a document: at a mapping, i = the i-th entry (its value); at a
   sequence, the i-th element. *)
Definition path := list nat.

Fixpoint update_nth {A} (l : list A) (i : nat) (f : A -> A) : list A :=
  match l, i with
  | [], _ => []
  | x :: r, O => f x :: r
  | x :: r, S j => x :: update_nth r j f
  end.

(* inject d p k v: add the entry k: v to the mapping that p leads to (a path that does not lead
   to a mapping leaves the document unchanged) *)
Fixpoint inject (d : doc) (p : path) (k : string) (v : doc) : doc :=
  match p with
  | [] => match d with DMap kvs => DMap (kvs ++ [(k, v)]) | _ => d end
  | i :: q =>
      match d with
      | DMap kvs => DMap (update_nth kvs i (fun kv => (fst kv, inject (snd kv) q k v)))
      | DSeq ds => DSeq (update_nth ds i (fun e => inject e q k v))
      | DScalar _ => d
      end
  end.

(* strict_at D n d p = Some r: p leads, through declared keys of closed-or-open structs and
   through sequence elements ONLY (never through a free-form map, `any`, an extra key or an
   unknown node), to a mapping of d that is decoded into struct r.  This is "a mapping node
   that is part of the configuration language". *)
Fixpoint strict_at (D : defs_t) (n : node) (d : doc) (p : path) : option string :=
  match p with
  | [] => match n, d with NObj r, DMap _ => Some r | _, _ => None end
  | i :: q =>
      match n, d with
      | NObj r, DMap kvs =>
          match assoc D r, nth_error kvs i with
          | Some o, Some (k, v) =>
              match assoc (o_fields o) k with
              | Some c => strict_at D c v q
              | None => None
              end
          | _, _ => None
          end
      | NSeq e, DSeq ds =>
          match nth_error ds i with Some v => strict_at D e v q | None => None end
      | _, _ => None
      end
  end.

(* k is not part of the configuration language at struct r *)
Definition undeclared (D : defs_t) (r : string) (k : string) : bool :=
  match assoc D r with
  | Some o => match assoc (o_fields o) k, o_extra o with None, None => true | _, _ => false end
  | None => false
  end.

(* ------------------------------------------------------------------ key acceptance only *)
(* keys_ok D n d: every mapping key of d is one the shape allows there.  Shapes that do not fit
   and scalar types are NOT judged (they are not about keys). *)
Fixpoint keys_ok (D : defs_t) (n : node) (d : doc) {struct d} : bool :=
  match d with
  | DScalar _ => true
  | DSeq ds => match n with NSeq e => forallb (keys_ok D e) ds | _ => true end
  | DMap kvs =>
      match n with
      | NObj r =>
          match assoc D r with
          | None => false
          | Some o =>
              forallb (fun kv =>
                         match assoc (o_fields o) (fst kv) with
                         | Some c => keys_ok D c (snd kv)
                         | None => match o_extra o with
                                   | Some e => keys_ok D e (snd kv)
                                   | None => false
                                   end
                         end) kvs
          end
      | NMap e => forallb (fun kv => keys_ok D e (snd kv)) kvs
      | _ => true
      end
  end.

(* ------------------------------------------------------------------ JSON Schema validation *)
(* schema_accepts D n d: validation of d against the published schema, for the keywords the
   published schemas use ($ref, properties, additionalProperties, items, type).  Unlike yaml.v3
   it is exact about types (null only where anything goes, an integer is not a string). *)
Definition scalar_is (k : skind) (s : scalar) : bool :=
  match s, k with
  | SStr _, KString => true
  | SBool, KBool => true
  | SInt, KInt => true
  | SInt, KFloat => true
  | _, _ => false
  end.

Fixpoint schema_accepts (D : defs_t) (n : node) (d : doc) {struct d} : bool :=
  match n with
  | NAny | NUnknown _ => true
  | _ =>
    match d with
    | DScalar s => match n with NScalar k => scalar_is k s | _ => false end
    | DSeq ds => match n with NSeq e => forallb (schema_accepts D e) ds | _ => false end
    | DMap kvs =>
        match n with
        | NObj r =>
            match assoc D r with
            | None => false
            | Some o =>
                forallb (fun kv =>
                           match assoc (o_fields o) (fst kv) with
                           | Some c => schema_accepts D c (snd kv)
                           | None => match o_extra o with
                                     | Some e => schema_accepts D e (snd kv)
                                     | None => false
                                     end
                           end) kvs
            end
        | NMap e => forallb (fun kv => schema_accepts D e (snd kv)) kvs
        | _ => false
        end
    end
  end.

(* ------------------------------------------------------------------ comparing two forests *)
(* A finite candidate relation between struct names of the loader side and definition names of
   the schema side; rel_ok checks that it is a simulation in both directions: related structs
   declare the same keys, with related shapes under every key (scalar KINDS are not compared:
   the property is about keys). *)
Definition rel_t := list (string * string).

Fixpoint mem_pair (a b : string) (l : rel_t) : bool :=
  match l with [] => false | (x, y) :: r => (String.eqb x a && String.eqb y b) || mem_pair a b r end.

Fixpoint node_sim (R : rel_t) (a b : node) : bool :=
  match a, b with
  | NObj r, NObj s => mem_pair r s R
  | NSeq x, NSeq y => node_sim R x y
  | NMap x, NMap y => node_sim R x y
  | NScalar _, NScalar _ => true
  | NAny, NAny => true
  | _, _ => false
  end.

Definition extra_sim (R : rel_t) (a b : option node) : bool :=
  match a, b with
  | None, None => true
  | Some x, Some y => node_sim R x y
  | _, _ => false
  end.

Definition fields_sim (R : rel_t) (fa fb : list (string * node)) : bool :=
  forallb (fun kn => match assoc fb (fst kn) with Some m => node_sim R (snd kn) m | None => false end) fa &&
  forallb (fun kn => match assoc fa (fst kn) with Some _ => true | None => false end) fb.

Definition rel_ok (R : rel_t) (D1 D2 : defs_t) : bool :=
  forallb (fun rs => match assoc D1 (fst rs), assoc D2 (snd rs) with
                     | Some o1, Some o2 => fields_sim R (o_fields o1) (o_fields o2) &&
                                           extra_sim R (o_extra o1) (o_extra o2)
                     | _, _ => false
                     end) R.

(* same_keys: the whole obligation for one configuration file *)
Definition same_keys (R : rel_t) (L S : forest) : bool :=
  rel_ok R (f_defs L) (f_defs S) && node_sim R (f_root L) (f_root S).

(* ------------------------------------------------------------------ union registry *)
(* One entry per As… method that is an if-chain over nil-able members of its receiver:
   declared = yaml keys of ALL nil-able members of the struct, dispatched = keys the chain tests
   (in order), rejected = the chain ends in an error when no member is set. *)
Record union := { u_struct : string; u_method : string; u_declared : list string;
                  u_dispatched : list string; u_empty_rejected : bool }.

Definition union_total (u : union) : bool :=
  forallb (fun k => mem k (u_dispatched u)) (u_declared u) && u_empty_rejected u.

(* the struct's conversion table must carry exactly this union's dispatch *)
Definition union_enforced (C : conv_t) (r : string) (u : union) : bool :=
  existsb (fun c => match c with
                    | CUnion keys rej => rej && forallb (fun k => mem k (u_dispatched u)) keys &&
                                         forallb (fun k => mem k keys) (u_dispatched u)
                    | _ => false
                    end) (constrs_of C r).

(* decoder table: every yaml decoder the loader packages create *)
Record decoder_site := { d_file : string; d_func : string; d_call : string; d_known_fields : bool }.

Definition strict_decoders (l : list decoder_site) : bool :=
  match l with [] => false | _ => forallb d_known_fields l end.

(* the dispatch a struct's conversion runs when an empty one is refused *)
Fixpoint union_keys (cs : list constr) : option (list string) :=
  match cs with
  | [] => None
  | CUnion keys true :: _ => Some keys
  | _ :: r => union_keys r
  end.

(* a rule site: the root struct converts every element of the sequence under `key`, the elements
   are structs e, and e's conversion is a union dispatch that refuses the empty case *)
Definition rule_site_ok (F : forest) (key e : string) : bool :=
  match f_root F with
  | NObj r =>
      match assoc (f_defs F) r with
      | Some o =>
          existsb (fun c => match c with CEach k => String.eqb k key | _ => false end) (constrs_of (f_conv F) r) &&
          match assoc (o_fields o) key with Some (NSeq (NObj e')) => String.eqb e' e | _ => false end &&
          match assoc (f_defs F) e with Some _ => true | None => false end &&
          match union_keys (constrs_of (f_conv F) e) with Some _ => true | None => false end
      | None => false
      end
  | _ => false
  end.

Definition rule_keys (F : forest) (e : string) : list string :=
  match union_keys (constrs_of (f_conv F) e) with Some keys => keys | None => [] end.

(* ------------------------------------------------------------------ correspondence cases *)
(* One case = one document given to a real loader and (optionally) to python jsonschema.
     c_base      the document before injection (for KBase/KEmpty/KOther it is the document)
     c_doc       the document as sent (Coq recomputes it from c_base for KInject)
     c_impl      the loader accepted
     c_editor    0 rejected / 1 accepted / 2 not evaluated   (python jsonschema on schemas/*.json) *)
Inductive ckind :=
| KBase                                   (* minimal valid document for one key path *)
| KInject (p : path) (k : string) (v : doc) (* one unknown key added at the mapping p leads to *)
| KEmpty                                  (* a rule entry with no recognised action *)
| KOther.                                 (* wrong value types, duplicates, … : model agreement only *)
Record ccase := { c_file : nat; c_kind : ckind; c_base : doc; c_doc : doc; c_impl : bool; c_editor : nat }.

Definition scalar_eqb (a b : scalar) : bool :=
  match a, b with
  | SNull, SNull | SInt, SInt | SBool, SBool => true
  | SStr x, SStr y => String.eqb x y
  | _, _ => false
  end.

Fixpoint doc_eqb (a b : doc) {struct a} : bool :=
  match a, b with
  | DScalar x, DScalar y => scalar_eqb x y
  | DSeq xs, DSeq ys =>
      (fix go (xs ys : list doc) : bool :=
         match xs, ys with
         | [], [] => true
         | x :: xr, y :: yr => doc_eqb x y && go xr yr
         | _, _ => false
         end) xs ys
  | DMap xs, DMap ys =>
      (fix go (xs ys : list (string * doc)) : bool :=
         match xs, ys with
         | [], [] => true
         | (k, x) :: xr, (k', y) :: yr => String.eqb k k' && doc_eqb x y && go xr yr
         | _, _ => false
         end) xs ys
  | _, _ => false
  end.

Definition case_doc (c : ccase) : doc :=
  match c_kind c with KInject p k v => inject (c_base c) p k v | _ => c_base c end.

Section Cases.
  Variable loaders : list forest.   (* indexed by c_file *)
  Variable schemas : list forest.

  Definition forest_of (fs : list forest) (i : nat) : forest :=
    nth i fs {| f_root := NUnknown "no such file"; f_defs := []; f_conv := []; f_known_fields := true |}.

  (* MISMATCH: the model of the loader predicts another verdict than the real loader gave, or the
     document python sent differs from the one `inject` builds *)
  Definition loader_mismatch (c : ccase) : bool :=
    negb (Bool.eqb (load (forest_of loaders (c_file c)) (case_doc c)) (c_impl c)) ||
    negb (doc_eqb (case_doc c) (c_doc c)).

  (* MISMATCH (schema reader): the model of the published schema predicts another verdict than
     python jsonschema gave *)
  Definition schema_mismatch (c : ccase) : bool :=
    let S := forest_of schemas (c_file c) in
    match c_editor c with
    | 0 => schema_accepts (f_defs S) (f_root S) (case_doc c)
    | 1 => negb (schema_accepts (f_defs S) (f_root S) (case_doc c))
    | _ => false
    end.

  (* PROPFAIL, evaluated on the IMPLEMENTATION's verdicts:
       base document            must load, and must validate in the editor
       unknown key at a node that is part of the language
                                must be refused by the loader AND by the editor
       unknown key elsewhere    loader and editor must agree
       rule without action      must be refused by the loader *)
  Definition injected_strict (c : ccase) : bool :=
    let L := forest_of loaders (c_file c) in
    match c_kind c with
    | KInject p k _ =>
        match strict_at (f_defs L) (f_root L) (c_base c) p with
        | Some r => undeclared (f_defs L) r k
        | None => false
        end
    | _ => false
    end.

  Definition prop_fails (c : ccase) : bool :=
    match c_kind c with
    | KBase => negb (c_impl c) || Nat.eqb (c_editor c) 0
    | KInject _ _ _ =>
        if injected_strict c then c_impl c || Nat.eqb (c_editor c) 1
        else match c_editor c with
             | 0 => c_impl c
             | 1 => negb (c_impl c)
             | _ => false
             end
    | KEmpty => c_impl c
    | KOther => false
    end.

  Fixpoint indices_from {A} (f : A -> bool) (l : list A) (i : nat) : list nat :=
    match l with
    | [] => []
    | x :: r => if f x then i :: indices_from f r (S i) else indices_from f r (S i)
    end.
  Definition indices {A} (f : A -> bool) (l : list A) : list nat := indices_from f l 0.
End Cases.
