(* placeholder, replaced below *)
From Cog Require Import Model.IR.
