(* C02: the declarations of Model/GoDecl.v against what go/parser finds in the generated types_gen.go
   (drivers/go/godecls), evaluated by checks/c02_decls.py.  Definitions only. *)
From Coq Require Import List String ZArith Bool Ascii.
From Cog Require Export Model.IR Model.Names Model.Json Model.GoSemBase Model.GoDecl.
Import ListNotations.
Local Open Scope list_scope.
Local Open Scope string_scope.

Definition struct_field_strings (name : string) (t : gotype) : list string :=
  match t with
  | GTStruct fs _ => map (fun nf => "field:" ++ name ++ "." ++ fst nf) fs
  | _ => []
  end.

Definition decl_strings (ds : list godecl) : list string :=
  flat_map (fun d => match d with
                     | DType n t => ("type:" ++ n) :: struct_field_strings n t
                     | DConst n _ => ["const:" ++ n]
                     | DFunc n => ["func:" ++ n]
                     | DMethod r m => ["method:" ++ r ++ "." ++ m]
                     | DBroken x => ["broken:" ++ x]
                     end) ds.

Definition subset (a b : list string) : bool := forallb (fun x => str_in x b) a.
Definition same_set (a b : list string) : bool := (subset a b && subset b a)%bool.

(* one case: context of the Go jenny, the option vector, the package, the declarations found in its types_gen.go *)
Definition dcase := (schemas * go_flags * string * list string)%type.

Definition dcase_decls (c : dcase) : option (list string) :=
  let '(ctx, fl, pkg, _) := c in
  match locate ctx pkg with
  | Some s => Some (decl_strings (decls_of_schema fl ctx s))
  | None => None
  end.

(* the model declares something the file does not, or the other way round *)
Definition mm_decls (c : dcase) : bool :=
  let '(_, _, _, observed) := c in
  match dcase_decls c with
  | Some model => negb (same_set model observed)
  | None => true
  end.

(* the model's verdict on the context: decls_wf is false although the package compiled, or true although it did not *)
(* the verdict on the package of the case (another package of the context may be ill-formed on its own) *)
Definition model_wf (c : dcase) : bool :=
  let '(ctx, fl, pkg, _) := c in
  match locate ctx pkg with Some s => report_ok (report fl ctx s) | None => decls_wf fl ctx end.
Definition model_run_err (c : dcase) : bool :=
  let '(ctx, fl, _, _) := c in match go_run fl ctx with Ok _ => false | _ => true end.
