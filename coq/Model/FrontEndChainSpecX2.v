(* Second round of specifications for the OpenAPI / CUE theorems across the Go compiler-pass chain (definitions only);
   see Model/FrontEndChainSpec2.v for the JSON Schema counterparts (ty_sup_pre / ctx_sup_pre and src_safe are reused).

   ty_no_bytes / ctx_no_bytes : no array whose element type is the scalar uint8 (Go's []byte, which encoding/json reads and
                                writes as a base64 string: GoSem.ty_supported excludes it).  With ctx_plain_x and
                                ctx_sup_pre this is what makes the post-chain context satisfy GoSem.ctx_supported; the
                                OpenAPI front-end never produces uint8, the CUE front-end does (`[...uint8]`).
   cue_no_bytes s             : the same, read off the source schema through cue_ty.
   src_safe_oa / src_safe_cue : the source-level safety predicate: src_safe of Model/FrontEndChainSpec2.v (the walk is along
                                the SOURCE type and does not depend on the format) with the float digit limit of the WIDTH:
                                a float32 member is printed back only up to 6 significant digits (|a| < 10^6 in
                                GoSemSpec01F.scalar_safe), a float64 member up to 15. *)
From Coq Require Import List String ZArith Bool Ascii.
From Cog Require Import Model.IR Model.Json Model.GoSemBase Model.GoSemDecode Model.GoSemValidate Model.GoSemStrict
  Model.GoSem Model.GoSemSpec08 Model.GoSemSpec01 Model.GoSemSpec01F
  Model.Src Model.FrontEnd Model.FrontEndSpec Model.FrontEndCue Model.Passes Model.FrontEndChainSpec Model.FrontEndChainSpec2
  Model.FrontEndChainSpecX.
Import ListNotations.
Local Open Scope string_scope.
Local Open Scope list_scope.

Definition is_u8_scalar (t : ty) : bool := match t with TScalar _ KUint8 _ _ => true | _ => false end.
Fixpoint ty_no_bytes (t : ty) : bool :=
  match t with
  | TArray _ v => (negb (is_u8_scalar v) && ty_no_bytes v)%bool
  | TMap _ _ v => ty_no_bytes v
  | TStruct _ _ fs => forallb (fun f => ty_no_bytes (f_type f)) fs
  | _ => true
  end.
Definition ctx_no_bytes (ctx : schemas) : bool :=
  forallb (fun s => forallb (fun ko => ty_no_bytes (o_type (snd ko))) (s_objects s)) ctx.

Definition cue_no_bytes (s : src_schema) : bool :=
  forallb (fun d => ty_no_bytes (cue_ty (src_pkg s) (snd d))) (src_defs s).

(* ---------- the source-level safety predicate with the digit limit of the float width ---------- *)
Definition sx_scalar_safe (t : src_ty) (j : json) : bool :=
  match t, j with
  | SDateTime, JStr s => match parse_time s with TOk s' _ => String.eqb s' s | _ => false end
  | SFloat w _ _ _ _, JNum m e =>
      let '(a, _) := num_norm m e in
      Z.ltb (Z.abs a) (if seqb w "float32" then 1000000 else 1000000000000000)
  | SInt _ _ _ _ _, JNum m e => num_is_int_literal m e
  | _, _ => true
  end.

Fixpoint src_safe_ty_x (defs : list (string * src_ty)) (src : rawsrc) (j : json) (t : src_ty) {struct j} : bool :=
  match j with
  | JNull => false
  | _ =>
      match t with
      | SRef n =>
          match src_lookup defs n with
          | Some (SStruct fs) =>
              match j with
              | JObj ms =>
                  (forallb (fun kv => match find (fun f => seqb (sf_name f) (fst kv)) fs with
                                      | None => true
                                      | Some f => (src_safe_ty_x defs RField (snd kv) (sf_type f) &&
                                                   (sf_req f || negb (is_empty_collection (snd kv))))%bool
                                      end) ms &&
                   forallb (fun f => (negb (sf_req f) || str_in (sf_name f) (map fst ms))%bool) fs)%bool
              | _ => true
              end
          | _ => false
          end
      | SArray et =>
          match j with
          | JArr l => (forallb (fun x => src_safe_ty_x defs RElem x et) l &&
                       (s_arr_scalars 8 t || match src with RElem => false | _ => true end))%bool
          | _ => true
          end
      | SMap vt =>
          match j with
          | JObj ms => (forallb (fun kv => src_safe_ty_x defs RVal (snd kv) vt) ms &&
                        (s_map_scalars 8 t || match src with RVal => false | _ => true end))%bool
          | _ => true
          end
      | _ => sx_scalar_safe t j
      end
  end.
Definition src_safe_oa (s : src_schema) (tname : string) (d : json) : bool :=
  src_safe_ty_x (src_defs s) RField d (SRef tname).
Definition src_safe_cue (s : src_schema) (tname : string) (d : json) : bool :=
  src_safe_ty_x (src_defs s) RField d (SRef tname).
