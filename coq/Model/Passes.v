(* Models of the user-configurable schema transformations of internal/ast/compiler (C15, C05).
   One definition per Go pass, named after it.  Definitions only. *)
From Cog Require Export Model.IR Model.Names.
Local Open Scope list_scope.



(* ---------- the pass language ---------- *)
Definition objref := (string * string)%type.             (* package, object *)
Definition fieldref := (string * string * string)%type.  (* package, object, field *)

Inductive pass :=
| PRenameObject (pkg obj to : string)
| POmit (refs : list objref)
| POmitFields (refs : list fieldref)
| PAddFields (pkg obj : string) (fields : list field)
| PAddObject (pkg obj : string) (as_ : ty) (comments : list string)
| PDuplicateObject (pkg obj aspkg asobj : string) (omit : list string)
| PRetypeObject (pkg obj : string) (as_ : ty) (comments : option (list string))
| PRetypeField (pkg obj fld : string) (as_ : ty) (comments : option (list string))
| PFieldsSetRequired (refs : list fieldref)
| PFieldsSetNotRequired (refs : list fieldref)
| PFieldsSetDefault (defs : list (string * string * string * dyn))
| PReplaceReference (fpkg fobj tpkg tobj : string)
| PConstantToEnum (refs : list objref)
| PTrimEnumValues
| PHintObject (pkg obj : string) (hs : list (string * dyn))
| PSchemaSetIdentifier (pkg id : string)
| PSchemaSetEntrypoint (pkg ep : string)
| PPrefixObjectNames (prefix : string)
| PAppendCommentObjects (comment : string)
| PAnonymousStructsToNamed
| PNotRequiredFieldAsNullableType
| PDisjunctionWithNullToOptional
| PDisjunctionOfConstantsToEnum
| PAnonymousEnumToExplicitType
| PPrefixEnumValues
| PFlattenDisjunctions
| PDisjunctionOfAnonymousStructsToExplicit
| PDisjunctionInferMapping
| PUndiscriminatedDisjunctionToAny
| PDisjunctionToType
| PRemoveIntersections
| PSanitizeEnumMemberNames
| PInlineObjectsWithTypes (kinds : list string)
| PRenameNumericEnumValues
| PInferEntrypoint
| PUnspec
| PNameAnonymousStruct (pkg obj fld as_ : string)
| PDisjunctionWithConstantToDefault
| PDataqueryIdentification
| PFilterSchemas (allowed : list objref)
| PUnknown (name : string).

(* ---------- selectors (types.go) ---------- *)
Definition objref_matches_ref (r : objref) (pkg name : string) : bool :=
  seqb pkg (fst r) && equal_fold name (snd r).
Definition objref_matches (r : objref) (o : object) : bool :=
  objref_matches_ref r (o_selfpkg o) (o_selfname o).
Definition objrefs_match (rs : list objref) (o : object) : bool := existsb (fun r => objref_matches r o) rs.
Definition fieldref_matches (r : fieldref) (o : object) (f : field) : bool :=
  let '(pkg, obj, fld) := r in
  seqb (o_selfpkg o) pkg && equal_fold (o_name o) obj && equal_fold (f_name f) fld.

(* ---------- the default traversal of compiler.Visitor ----------
   Visits array values, map index and value types, struct field types, disjunction
   and intersection branches; calls `leaf` on enums, scalars, refs and constant refs.
   Enum member types, hint payloads and slot/unknown kinds are never visited. *)
Fixpoint tmap (leaf : ty -> ty) (t : ty) : ty :=
  match t with
  | TArray a v => TArray a (tmap leaf v)
  | TMap a i v => TMap a (tmap leaf i) (tmap leaf v)
  | TStruct a dh fs =>
      TStruct a dh (map (fun f => mkField (f_name f) (f_comments f) (tmap leaf (f_type f)) (f_required f)) fs)
  | TDisj a d => TDisj a (mkDisj (map (tmap leaf) (d_branches d)) (d_disc d) (d_mapping d))
  | TInter a bs => TInter a (map (tmap leaf) bs)
  | TEnum _ _ | TScalar _ _ _ _ | TRef _ _ _ | TConstRef _ _ _ _ => leaf t
  | TSlot _ _ | TBad _ _ => t
  end.

Definition set_otype (o : object) (t : ty) : object :=
  mkObject (o_name o) (o_comments o) t (o_selfpkg o) (o_selfname o).
Definition set_ocomments (o : object) (c : list string) : object :=
  mkObject (o_name o) c (o_type o) (o_selfpkg o) (o_selfname o).
Definition rename_o (o : object) (n : string) : object :=
  mkObject n (o_comments o) (o_type o) (o_selfpkg o) n.

Definition set_objects (s : schema) (objs : list (string * object)) : schema :=
  mkSchema (s_pkg s) (s_meta s) (s_entry s) (s_entrytype s) objs.

(* VisitSchema without OnSchema: entry-point type first, then every object in order, each
   result stored with AddObject (ordered-map Set keyed by the object's NEW name), then the
   objects registered during the visit. *)
Definition visit_schema (on_type : ty -> res ty) (on_obj : object -> res object)
           (s : schema) : res schema :=
  do et <- on_type (s_entrytype s) ;
  do objs <- (fix go (l : list (string * object)) (acc : list (string * object)) : res (list (string * object)) :=
                match l with
                | [] => Ok acc
                | (_, o) :: r => do o' <- on_obj o ; go r (add_object acc o')
                end) (s_objects s) [] ;
  Ok (mkSchema (s_pkg s) (s_meta s) (s_entry s) et objs).

(* total variant *)
Definition visit_schema_t (on_type : ty -> ty) (on_obj : object -> object) (s : schema) : schema :=
  mkSchema (s_pkg s) (s_meta s) (s_entry s) (on_type (s_entrytype s))
           (fold_left (fun acc ko => add_object acc (on_obj (snd ko))) (s_objects s) []).

(* VisitSchema with OnSchema returning the schema unchanged plus registered objects *)
Definition register_objects (s : schema) (news : list object) : schema :=
  set_objects s (fold_left add_object news (s_objects s)).

(* ---------- rename_object.go ---------- *)
Definition rename_ref_leaf (pkg obj to : string) (t : ty) : ty :=
  match t with
  | TRef a p n => if objref_matches_ref (pkg, obj) p n then TRef a p to else t
  | TConstRef a p n v => if objref_matches_ref (pkg, obj) p n then TConstRef a p to v else t
  | _ => t
  end.
Definition rename_object_obj (pkg obj to : string) (o : object) : object :=
  let o1 := if objref_matches (pkg, obj) o then rename_o o to else o in
  set_otype o1 (tmap (rename_ref_leaf pkg obj to) (o_type o1)).
Definition rename_entry (pkg obj to : string) (s : schema) : schema :=
  match s_entry s with
  | EmptyString => s
  | e => if objref_matches_ref (pkg, obj) (s_pkg s) e
         then mkSchema (s_pkg s) (s_meta s) to (s_entrytype s) (s_objects s) else s
  end.
Definition rename_object (pkg obj to : string) (ss : schemas) : schemas :=
  map (fun s => rename_entry pkg obj to
                  (visit_schema_t (tmap (rename_ref_leaf pkg obj to)) (rename_object_obj pkg obj to) s)) ss.

(* ---------- omit.go ---------- *)
Definition omit (refs : list objref) (ss : schemas) : schemas :=
  map (fun s => set_objects s (filter (fun ko => negb (objrefs_match refs (snd ko))) (s_objects s))) ss.

(* ---------- omit_fields.go ---------- *)
Definition omit_fields_obj (refs : list fieldref) (o : object) : object :=
  match o_type o with
  | TStruct a dh fs =>
      set_otype o (TStruct a dh (filter (fun f => negb (existsb (fun r => fieldref_matches r o f) refs)) fs))
  | _ => o
  end.
Definition omit_fields (refs : list fieldref) (ss : schemas) : schemas :=
  map (visit_schema_t (fun t => t) (omit_fields_obj refs)) ss.

(* ---------- add_fields.go ---------- *)
Definition has_field (fs : list field) (n : string) : bool := existsb (fun f => seqb (f_name f) n) fs.
Definition add_fields_obj (pkg obj : string) (news : list field) (o : object) : res object :=
  if negb (objref_matches (pkg, obj) o) then Ok o else
  match o_type o with
  | TStruct a dh fs =>
      Ok (set_otype o (TStruct a dh (fold_left (fun acc f => if has_field acc (f_name f) then acc else acc ++ [f]) news fs)))
  | _ => Err "cannot add fields to a non-struct object"
  end.
Definition add_fields (pkg obj : string) (news : list field) (ss : schemas) : res schemas :=
  mapM (visit_schema (fun t => Ok t) (add_fields_obj pkg obj news)) ss.

(* ---------- add_object.go ---------- *)
Definition add_object_pass (pkg obj : string) (as_ : ty) (comments : list string) (ss : schemas) : schemas :=
  map (fun s => if seqb (s_pkg s) pkg
                then register_objects s [mkObject obj comments as_ pkg obj]
                else s) ss.

(* ---------- duplicate_object.go ---------- *)
Definition in_list_fold (n : string) (l : list string) : bool := existsb (fun x => equal_fold x n) l.
Definition duplicate_object (pkg obj aspkg asobj : string) (omitf : list string) (ss : schemas) : schemas :=
  match locate_object ss pkg obj with          (* exact, case-sensitive lookup *)
  | None => ss
  | Some src =>
      let t := match o_type src with
               | TStruct a dh fs =>
                   match omitf with
                   | [] => o_type src
                   | _ => TStruct a dh (filter (fun f => negb (in_list_fold (f_name f) omitf)) fs)
                   end
               | t => t
               end in
      let dup := mkObject asobj (o_comments src) t aspkg asobj in
      map (fun s => if seqb (s_pkg s) aspkg then register_objects s [dup] else s) ss
  end.

(* ---------- retype_object.go / retype_field.go ---------- *)
Definition retype_object_obj (pkg obj : string) (as_ : ty) (comments : option (list string)) (o : object) : object :=
  if objref_matches (pkg, obj) o then
    let o1 := set_otype o as_ in
    match comments with Some c => set_ocomments o1 c | None => o1 end
  else o.
Definition retype_object pkg obj as_ comments (ss : schemas) : schemas :=
  map (visit_schema_t (fun t => t) (retype_object_obj pkg obj as_ comments)) ss.

Fixpoint retype_first (o : object) (r : fieldref) (as_ : ty) (comments : option (list string))
         (fs : list field) : list field :=
  match fs with
  | [] => []
  | f :: rest =>
      if fieldref_matches r o f
      then mkField (f_name f) (match comments with Some c => c | None => f_comments f end) as_ (f_required f) :: rest
      else f :: retype_first o r as_ comments rest
  end.
Definition retype_field_obj (r : fieldref) (as_ : ty) (comments : option (list string)) (o : object) : object :=
  match o_type o with
  | TStruct a dh fs => set_otype o (TStruct a dh (retype_first o r as_ comments fs))
  | _ => o
  end.
Definition retype_field pkg obj fld as_ comments (ss : schemas) : schemas :=
  map (visit_schema_t (fun t => t) (retype_field_obj (pkg, obj, fld) as_ comments)) ss.

(* ---------- fields_set_required.go / fields_set_not_required.go ---------- *)
Definition fields_set_req_obj (req : bool) (refs : list fieldref) (o : object) : object :=
  match o_type o with
  | TStruct a dh fs =>
      set_otype o (TStruct a dh (map (fun f =>
        if existsb (fun r => fieldref_matches r o f) refs
        then mkField (f_name f) (f_comments f) (set_nullable (f_type f) (negb req)) req
        else f) fs))
  | _ => o
  end.
Definition fields_set_required refs (ss : schemas) : schemas :=
  map (visit_schema_t (fun t => t) (fields_set_req_obj true refs)) ss.
Definition fields_set_not_required refs (ss : schemas) : schemas :=
  map (visit_schema_t (fun t => t) (fields_set_req_obj false refs)) ss.

(* ---------- fields_set_default.go: `defs` is a Go map; iterated here in the given order.
   When two keys match one field the last one iterated wins (map-order dependent, see C03). *)
Definition fields_set_default_obj (defs : list (string * string * string * dyn)) (o : object) : object :=
  match o_type o with
  | TStruct a dh fs =>
      set_otype o (TStruct a dh (map (fun f =>
        fold_left (fun f' d => let '(r, v) := d in
                     if fieldref_matches r o f'
                     then mkField (f_name f') (f_comments f') (set_default (f_type f') v) (f_required f')
                     else f') defs f) fs))
  | _ => o
  end.
Definition fields_set_default defs (ss : schemas) : schemas :=
  map (visit_schema_t (fun t => t) (fields_set_default_obj defs)) ss.

(* ---------- replace_reference.go: a new reference carrying over nullability, default and
   hints of the replaced one ---------- *)
Definition replace_ref_leaf (fpkg fobj tpkg tobj : string) (t : ty) : ty :=
  match t with
  | TRef a p n => if objref_matches_ref (fpkg, fobj) p n then TRef a tpkg tobj else t
  | _ => t
  end.
Definition replace_reference fpkg fobj tpkg tobj (ss : schemas) : schemas :=
  let f := tmap (replace_ref_leaf fpkg fobj tpkg tobj) in
  map (visit_schema_t f (fun o => set_otype o (f (o_type o)))) ss.

(* ---------- constant_to_enum.go ---------- *)
Definition constant_to_enum_obj (refs : list objref) (o : object) : res object :=
  if negb (objrefs_match refs o) then Ok o else
  match o_type o with
  | TScalar a KString v cs =>
      match v with
      | DNil => Ok o
      | DStr s => Ok (set_otype o (TEnum A0 [mkEnumVal (TScalar A0 KString DNil []) s (DStr s)]))
      | _ => Panic "interface conversion: value is not a string"
      end
  | _ => Ok o
  end.
Definition constant_to_enum refs (ss : schemas) : res schemas :=
  mapM (visit_schema (fun t => Ok t) (constant_to_enum_obj refs)) ss.

(* ---------- trim_enum_values.go ---------- *)
Definition trim_enum_leaf (t : ty) : ty :=
  match t with
  | TEnum a vs => TEnum a (map (fun v => match ev_value v with
                                         | DStr s => mkEnumVal (ev_type v) (ev_name v) (DStr (trim_space s))
                                         | _ => v end) vs)
  | _ => t
  end.
Definition trim_enum_values (ss : schemas) : schemas :=
  let f := tmap trim_enum_leaf in
  map (visit_schema_t f (fun o => set_otype o (f (o_type o)))) ss.

(* ---------- hint_object.go ---------- *)
Definition hint_object_obj (pkg obj : string) (hs : list (string * dyn)) (o : object) : object :=
  if objref_matches (pkg, obj) o
  then set_otype o (set_hints (o_type o) (fold_left (fun acc kv => alist_set acc (fst kv) (snd kv)) hs (hints (ty_attrs (o_type o)))))
  else o.
Definition hint_object pkg obj hs (ss : schemas) : schemas :=
  map (visit_schema_t (fun t => t) (hint_object_obj pkg obj hs)) ss.

(* ---------- schema_set_identifier.go / schema_set_entrypoint.go ---------- *)
Definition schema_set_identifier (pkg id : string) (ss : schemas) : schemas :=
  map (fun s => if seqb (s_pkg s) pkg
                then mkSchema (s_pkg s) {| m_kind := m_kind (s_meta s) ; m_variant := m_variant (s_meta s) ; m_identifier := id |}
                              (s_entry s) (s_entrytype s) (s_objects s)
                else s) ss.
Definition schema_set_entrypoint (pkg ep : string) (ss : schemas) : schemas :=
  map (fun s => if seqb (s_pkg s) pkg
                then mkSchema (s_pkg s) (s_meta s) ep (TRef A0 (s_pkg s) ep) (s_objects s)
                else s) ss.

(* ---------- prefix_objects_names.go ---------- *)
Definition prefix_mapping (p : string) (m : list (string * string)) : list (string * string) :=
  map (fun kv => (fst kv, p ++ snd kv)%string) m.
Definition prefix_dh (p : string) (dh : list (string * disj)) : list (string * disj) :=
  map (fun kd => if seqb (fst kd) "disjunction_of_refs"
                 then (fst kd, mkDisj (d_branches (snd kd)) (d_disc (snd kd)) (prefix_mapping p (d_mapping (snd kd))))
                 else kd) dh.
Fixpoint prefix_ty (p : string) (t : ty) : ty :=
  match t with
  | TArray a v => TArray a (prefix_ty p v)
  | TMap a i v => TMap a (prefix_ty p i) (prefix_ty p v)
  | TStruct a dh fs =>
      TStruct a (prefix_dh p dh)
              (map (fun f => mkField (f_name f) (f_comments f) (prefix_ty p (f_type f)) (f_required f)) fs)
  | TDisj a d => TDisj a (mkDisj (map (prefix_ty p) (d_branches d)) (d_disc d) (prefix_mapping p (d_mapping d)))
  | TInter a bs => TInter a (map (prefix_ty p) bs)
  | TRef a pkg n => TRef a pkg (p ++ n)%string
  | TConstRef a pkg n v => TConstRef a pkg (p ++ n)%string v
  | TEnum a vs => TEnum a (map (fun v => mkEnumVal (ev_type v) (upper_camel_case p ++ upper_camel_case (ev_name v))%string (ev_value v)) vs)
  | TScalar _ _ _ _ | TSlot _ _ | TBad _ _ => t
  end.
Definition prefix_object_names (p : string) (ss : schemas) : schemas :=
  match p with
  | EmptyString => ss
  | _ => map (fun s =>
                let s' := visit_schema_t (prefix_ty p)
                            (fun o => set_otype (rename_o o (p ++ o_name o)%string) (prefix_ty p (o_type o))) s in
                match s_entry s' with
                | EmptyString => s'
                | e => mkSchema (s_pkg s') (s_meta s') (p ++ e)%string (s_entrytype s') (s_objects s')
                end) ss
  end.

(* ---------- append_comment_objects.go ---------- *)
Definition append_comment_objects (c : string) (ss : schemas) : schemas :=
  map (visit_schema_t (fun t => t) (fun o => set_ocomments o (o_comments o ++ [c]))) ss.

(* ---------- unspec.go ---------- *)
Definition unspec_schema (s : schema) : schema :=
  let kept := filter (fun ko => negb (equal_fold (o_name (snd ko)) "metadata")) (s_objects s) in
  let newname := match m_identifier (s_meta s) with EmptyString => s_pkg s | id => id end in
  set_objects s (fold_left (fun acc ko =>
     let o := snd ko in
     add_object acc (if equal_fold (o_name o) "spec" && is_struct (o_type o) then rename_o o newname else o))
     kept []).
Definition unspec (ss : schemas) : schemas := map unspec_schema ss.

(* ---------- infer_entrypoint.go ---------- *)
Definition infer_entrypoint_schema (s : schema) : schema :=
  match s_entry s with
  | EmptyString =>
      let ep := fold_left (fun acc ko => if equal_fold (s_pkg s) (o_name (snd ko)) then o_name (snd ko) else acc)
                          (s_objects s) EmptyString in
      match ep with
      | EmptyString => s
      | _ => match objs_get (s_objects s) ep with
             | Some o => mkSchema (s_pkg s) (s_meta s) ep (TRef A0 (o_selfpkg o) (o_selfname o)) (s_objects s)
             | None => mkSchema (s_pkg s) (s_meta s) ep (TRef A0 "" "") (s_objects s)  (* zero Object *)
             end
      end
  | _ => s
  end.
Definition infer_entrypoint (ss : schemas) : schemas := map infer_entrypoint_schema ss.

(* ---------- name_anonymous_struct.go ---------- *)
Definition name_anonymous_struct_schema (r : fieldref) (as_ : string) (s : schema) : schema :=
  let step (o : object) : object * option object :=
      match o_type o with
      | TStruct a dh fs =>
          let pkg := o_selfpkg o in
          let '(fs', created) :=
              fold_left (fun acc f =>
                 let '(done, cr) := acc in
                 if fieldref_matches r o f && is_struct (f_type f)
                 then (done ++ [mkField (f_name f) (f_comments f) (TRef A0 pkg as_) (f_required f)],
                       Some (mkObject as_ [] (f_type f) pkg as_))
                 else (done ++ [f], cr)) fs ([], None) in
          (set_otype o (TStruct a dh fs'), created)
      | _ => (o, None)
      end in
  let '(objs, created) :=
      fold_left (fun acc ko =>
         let '(done, cr) := acc in
         let '(o', c) := step (snd ko) in
         (objs_set done (fst ko) o', match c with Some x => if seqb (o_name x) "" then cr else Some x | None => cr end))
        (s_objects s) ([], None) in
  match created with
  | Some x => set_objects s (add_object objs x)
  | None => set_objects s objs
  end.
Definition name_anonymous_struct pkg obj fld as_ (ss : schemas) : schemas :=
  map (name_anonymous_struct_schema (pkg, obj, fld) as_) ss.
