(* Specifications for the first theorems ACROSS the Go compiler-pass chain (definitions only):
   JSON Schema front-end model (Model/FrontEnd.v) -> chain_go (Gen/Chains_gen.v, Model/Process.v)
   -> post-chain acceptance `ir_valid_object` (Model/GoSemSpec01.v), on the fragment of source schemas
   whose parsed IR is already in Go normal form ("plain" schemas).

   chain_plain s               : every definition is a non-empty struct; every member is neither nullable nor
                                 a type array and its type is built from bool / integer / number / string /
                                 date-time / array / map / reference only; and src_wf s.
   chain_plain_unconstrained s : moreover no bound, no length and no date-time.
   ctx_leafy / ctx_plain       : the same fragment read off the IR (what the pass lemmas quantify over).
   nrfn_only ctx               : ctx with `nullable` set on the type of every non-required field: the
                                 explicit output of chain_go on the fragment. *)
From Coq Require Import List String ZArith Bool Ascii.
From Cog Require Import Model.IR Model.Json Model.GoSemBase Model.GoSemValidate Model.Src Model.FrontEnd
  Model.FrontEndSpec Model.Passes Model.GoSemSpec08.
Import ListNotations.
Local Open Scope list_scope.
Local Open Scope string_scope.

(* ---------- the fragment, on the construct grammar ---------- *)
Fixpoint sty_plain (t : src_ty) : bool :=
  match t with
  | SBool | SInt _ _ _ _ _ | SFloat _ _ _ _ _ | SString _ _ | SDateTime | SRef _ => true
  | SArray et => sty_plain et
  | SMap vt => sty_plain vt
  | _ => false
  end.
Definition sfield_plain (f : sfield) : bool :=
  (negb (sf_null f) && negb (sf_nullta f) && sty_plain (sf_type f))%bool.
Definition sdef_plain (t : src_ty) : bool :=
  match t with
  | SStruct (f :: fs) => forallb sfield_plain (f :: fs)
  | _ => false
  end.
Definition chain_plain (s : src_schema) : bool :=
  (src_wf s && forallb (fun d => sdef_plain (snd d)) (src_defs s))%bool.

Fixpoint sty_unconstrained (t : src_ty) : bool :=
  match t with
  | SInt _ None None None None | SFloat _ None None None None | SString None None => true
  | SInt _ _ _ _ _ | SFloat _ _ _ _ _ | SString _ _ | SDateTime => false
  | SArray et => sty_unconstrained et
  | SMap vt => sty_unconstrained vt
  | SStruct fs => forallb (fun f => sty_unconstrained (sf_type f)) fs
  | _ => true
  end.
Definition chain_plain_unconstrained (s : src_schema) : bool :=
  (chain_plain s && forallb (fun d => sty_unconstrained (snd d)) (src_defs s))%bool.

(* ---------- the fragment, on the IR ---------- *)
(* shape only: no disjunction, struct, enum, intersection below (what makes every pass but
   NotRequiredFieldAsNullableType the identity) *)
Fixpoint ty_leafy (t : ty) : bool :=
  match t with
  | TScalar _ _ _ _ | TRef _ _ _ => true
  | TArray _ v => ty_leafy v
  | TMap _ i v => (ty_leafy i && ty_leafy v)%bool
  | _ => false
  end.
Definition obj_leafy (ko : string * object) : bool :=
  (seqb (fst ko) (o_name (snd ko)) &&
   match o_type (snd ko) with
   | TStruct _ _ fs => forallb (fun f => ty_leafy (f_type f)) fs
   | _ => false
   end)%bool.
Definition schema_leafy (s : schema) : bool :=
  (str_nodup (map fst (s_objects s)) && forallb obj_leafy (s_objects s) && ty_leafy (s_entrytype s))%bool.
Definition ctx_leafy (ctx : schemas) : bool := forallb schema_leafy ctx.

(* shape + attributes + kinds: what the acceptance lemmas quantify over (constraints and hints are free here;
   ty_bare below says there are none) *)
Definition attrs_plain (a : attrs) : bool := (negb (nullable a) && dyn_is_nil (dflt a))%bool.
Definition kind_plain (k : skind) : bool :=
  match k with KBool | KString | KInt64 | KFloat64 => true | _ => false end.
Fixpoint ty_plain (t : ty) : bool :=
  match t with
  | TScalar a k v _ => (attrs_plain a && kind_plain k && dyn_is_nil v)%bool
  | TRef a _ _ => attrs_plain a
  | TArray a v => (attrs_plain a && ty_plain v)%bool
  | TMap a i v => (attrs_plain a && ty_plain i && ty_plain v)%bool
  | _ => false
  end.
Definition obj_plain (ko : string * object) : bool :=
  (seqb (fst ko) (o_name (snd ko)) &&
   match o_type (snd ko) with
   | TStruct a dh fs =>
       (attrs_plain a && match dh with [] => true | _ => false end && forallb (fun f => ty_plain (f_type f)) fs)%bool
   | _ => false
   end)%bool.
Definition schema_plain (s : schema) : bool :=
  (str_nodup (map fst (s_objects s)) && forallb obj_plain (s_objects s) && ty_plain (s_entrytype s))%bool.
Definition ctx_plain (ctx : schemas) : bool := forallb schema_plain ctx.

(* no constraint, no hint (no date-time format) anywhere *)
Fixpoint ty_bare (t : ty) : bool :=
  match t with
  | TScalar a _ _ cs => (match cs with [] => true | _ => false end && match hints a with [] => true | _ => false end)%bool
  | TArray _ v => ty_bare v
  | TMap _ i v => (ty_bare i && ty_bare v)%bool
  | TStruct _ _ fs => forallb (fun f => ty_bare (f_type f)) fs
  | TRef _ _ _ => true
  | _ => false
  end.
Definition ctx_bare (ctx : schemas) : bool :=
  forallb (fun s => forallb (fun ko => ty_bare (o_type (snd ko))) (s_objects s)) ctx.

(* ---------- the explicit output of chain_go on the fragment ---------- *)
Definition nrfn_field (f : field) : field :=
  mkField (f_name f) (f_comments f)
          (if (negb (f_required f) && negb (nullable (ty_attrs (f_type f))))%bool
           then set_nullable (f_type f) true else f_type f)
          (f_required f).
Definition nrfn_only_obj (o : object) : object :=
  match o_type o with
  | TStruct a dh fs => set_otype o (TStruct a dh (map nrfn_field fs))
  | _ => o
  end.
Definition nrfn_only (ctx : schemas) : schemas :=
  map (fun s => set_objects s (map (fun ko => (fst ko, nrfn_only_obj (snd ko))) (s_objects s))) ctx.
