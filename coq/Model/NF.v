(* C06: the normal forms each language's generators assume, as decidable predicates over the IR
   shown by `cog inspect --language L` (hint payloads keep the original union on purpose and are
   not part of the claim). *)
From Cog Require Export Model.IR Model.Names.
Local Open Scope list_scope.

(* generic "some sub-type (visible position) satisfies p", and "some sub-type strictly below the
   root"; `under_inter` tells whether the position is inside an allOf composition *)
Fixpoint any_sub (p : bool -> ty -> bool) (inter : bool) (t : ty) : bool :=
  p inter t ||
  match t with
  | TDisj _ d => existsb (any_sub p inter) (d_branches d)
  | TArray _ v => any_sub p inter v
  | TMap _ i v => any_sub p inter i || any_sub p inter v
  | TStruct _ _ fs => existsb (fun f => any_sub p inter (f_type f)) fs
  | TInter _ bs => existsb (any_sub p true) bs
  | _ => false      (* enum member types are scalar types in every front-end: not a position *)
  end.

Definition children (t : ty) : list (bool * ty) :=   (* (inside allOf?, child) *)
  match t with
  | TDisj _ d => map (fun b => (false, b)) (d_branches d)
  | TArray _ v => [(false, v)]
  | TMap _ i v => [(false, i); (false, v)]
  | TStruct _ _ fs => map (fun f => (false, f_type f)) fs
  | TInter _ bs => map (fun b => (true, b)) bs
  | _ => []
  end.
Definition any_below (p : bool -> ty -> bool) (t : ty) : bool :=
  existsb (fun c => any_sub p (fst c) (snd c)) (children t).

Definition objects_of (ss : schemas) : list object := flat_map (fun s => map snd (s_objects s)) ss.

(* no union type remains anywhere *)
Definition has_union (ss : schemas) : bool :=
  existsb (fun o => any_sub (fun _ t => is_disj t) false (o_type o)) (objects_of ss).
(* every enum is a named object: no enum below the root of an object type *)
Definition has_anonymous_enum (ss : schemas) : bool :=
  existsb (fun o => any_below (fun _ t => is_enum t) (o_type o)) (objects_of ss).
(* every struct outside an allOf composition is a named object *)
Definition has_anonymous_struct (ss : schemas) : bool :=
  existsb (fun o => any_below (fun inter t => negb inter && is_struct t) (o_type o)) (objects_of ss).
(* every non-required field is nullable *)
Definition has_optional_not_nullable (ss : schemas) : bool :=
  existsb (fun o => any_sub (fun _ t => match t with
                                        | TStruct _ _ fs => existsb (fun f => negb (f_required f) && negb (nullable (ty_attrs (f_type f)))) fs
                                        | _ => false end) false (o_type o)) (objects_of ss).
(* no two-branch `T | null` union remains *)
Definition has_t_or_null (ss : schemas) : bool :=
  existsb (fun o => any_sub (fun _ t => match t with
                                        | TDisj _ d => Nat.eqb (List.length (d_branches d)) 2 && existsb is_null (d_branches d)
                                        | _ => false end) false (o_type o)) (objects_of ss).

(* enum member names *)
Fixpoint prefix_of (p s : string) : bool :=
  match p, s with
  | EmptyString, _ => true
  | String a p', String b s' => Ascii.eqb a b && prefix_of p' s'
  | _, _ => false
  end.
Definition all_digits (s : string) : bool :=
  (fix go (s : string) : bool := match s with EmptyString => true | String c r => is_digit c && go r end) s.
Definition is_numeric_name (s : string) : bool :=   (* strconv.Atoi succeeds (sizes aside) *)
  match s with
  | String c r => if (Ascii.eqb c "-" || Ascii.eqb c "+")%bool
                  then (match r with EmptyString => false | _ => all_digits r end)
                  else all_digits s
  | EmptyString => false
  end.
Definition enum_members (o : object) : list (enumval_ ty) := match o_type o with TEnum _ vs => vs | _ => [] end.
Definition go_unprefixed_member (ss : schemas) : bool :=
  existsb (fun o => existsb (fun v => negb (prefix_of (upper_camel_case (o_name o)) (ev_name v))) (enum_members o)) (objects_of ss).
Definition numeric_member (ss : schemas) : bool :=
  existsb (fun o => existsb (fun v => is_numeric_name (ev_name v)) (enum_members o)) (objects_of ss).
Definition php_unsanitised_member (ss : schemas) : bool :=
  existsb (fun o => any_sub (fun _ t => match t with
      | TEnum _ vs => existsb (fun v => match ev_name v with
                                        | EmptyString => true
                                        | String c _ => (Ascii.eqb c "-" || Ascii.eqb c "+")%bool end) vs
      | _ => false end) false (o_type o)) (objects_of ss).

(* the list of normal-form violations of a language's context, by name *)
Local Open Scope string_scope.
Definition nf_violations (lang : string) (ss : schemas) : list string :=
  let chk (applies : bool) (bad : bool) (name : string) : list string := if applies && bad then [name] else [] in
  let is l := existsb (seqb lang) l in
  List.concat
  [chk (is ["go"; "java"]) (has_union ss) "union-remains";
   chk (is ["go"; "java"; "php"]) (has_anonymous_enum ss) "anonymous-enum";
   chk (is ["go"; "java"; "php"; "python"]) (has_anonymous_struct ss) "anonymous-struct";
   chk (is ["go"; "java"; "php"; "python"]) (has_optional_not_nullable ss) "optional-field-not-nullable";
   chk (is ["go"; "java"; "php"; "python"]) (has_t_or_null ss) "T-or-null-union";
   chk (is ["go"]) (go_unprefixed_member ss) "go-enum-member-not-prefixed";
   chk (is ["typescript"; "python"]) (numeric_member ss) "numeric-enum-member";
   chk (is ["php"]) (php_unsanitised_member ss) "php-enum-member-not-sanitised"].

(* diagnosis: which object carries which violation *)
Definition nf_offenders (lang : string) (ss : schemas) : list (string * string * string) :=
  flat_map (fun s => flat_map (fun ko =>
     map (fun v => (s_pkg s, o_name (snd ko), v))
         (nf_violations lang [mkSchema (s_pkg s) (s_meta s) "" ty_zero [ko]])) (s_objects s)) ss.
