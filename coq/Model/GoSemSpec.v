(* Specifications the theorems about the Go semantics are stated against.  Definitions only.

   wt ctx t v      : v is a value of the Go type cog prints for the IR type t (what decoding yields)
   vsim a b        : the reference equality on values: structural, a nil collection equals an empty
                     one, maps compared entry by entry on the SAME key set
   keys_aligned a b: at every pair of corresponding map positions the two maps have the same key
                     list (maps are kept key-sorted, so: the same key set).  This is the side
                     condition under which the generated Equals agrees with vsim; the known-finding
                     matcher of checks/c13.py uses its negation. *)
From Coq Require Import List String ZArith Bool Ascii.
From Cog Require Import Model.IR Model.Json Model.GoSemBase Model.GoSemDecode Model.GoSemEquals.
Import ListNotations.
Local Open Scope list_scope.
Local Open Scope string_scope.

(* ---------- typing of values ---------- *)
Definition wt_scalar (t : ty) (k : skind) (v : gval) : bool :=
  match k, v with
  | KBool, GBool _ => true
  | KString, GStr _ => negb (is_datetime t)
  | KString, GTime _ _ => is_datetime t
  | (KFloat32 | KFloat64), GFloat _ _ => true
  | (KUint8 | KUint16 | KUint32 | KUint64 | KInt8 | KInt16 | KInt32 | KInt64), GInt _ => true
  | _, _ => false
  end.

Fixpoint wt (ctx : schemas) (t : ty) (v : gval) {struct v} : bool :=
  if is_any t then match v with GNil => true | GAny j => negb (json_eqb j JNull) | _ => false end else
  match payload_type ctx t with
  | PUnm _ => false
  | PTy pt =>
      match v with
      | GNil => (is_ptr t || match pt with TArray _ _ | TMap _ _ _ => true | _ => false end)%bool
      | GPtr x =>
          (is_ptr t &&
           match x with
           | GNil | GPtr _ => false
           | _ => wt ctx (non_null t) x
           end)%bool
      | GSlice l =>
          (negb (is_ptr t) && match pt with TArray _ et => forallb (wt ctx et) l | _ => false end)%bool
      | GMap kvs =>
          (negb (is_ptr t) &&
           match pt with
           | TMap _ _ vt => (str_nodup (map fst kvs) && forallb (fun kv => wt ctx vt (snd kv)) kvs)%bool
           | _ => false
           end)%bool
      | GStruct fvs =>
          (negb (is_ptr t) &&
           match pt with
           | TStruct _ _ fs =>
               (* a disjunction struct holds at most one branch *)
               (match union_scalars pt, union_refs pt with
                | None, None => true
                | _, _ => Nat.leb (List.length (filter (fun nv => negb (is_nil (snd nv))) fvs)) 1
                end &&
               (fix go (fs : list field) (fvs : list (string * gval)) {struct fvs} : bool :=
                  match fs, fvs with
                  | [], [] => true
                  | f :: fr, (n, fv) :: vr => (seqb n (f_name f) && wt ctx (f_type f) fv && go fr vr)%bool
                  | _, _ => false
                  end) fs fvs)%bool
           | _ => false
           end)%bool
      | GAny _ => false
      | _ =>
          (negb (is_ptr t) &&
           match pt with
           | TScalar _ k _ _ => wt_scalar pt k v
           | TEnum _ vs => match enum_base vs with TScalar _ k _ _ as b => wt_scalar b k v | _ => false end
           | _ => false
           end)%bool
      end
  end.

(* ---------- reference equality ---------- *)
Fixpoint vsim (a b : gval) {struct a} : bool :=
  match a, b with
  | GNil, GNil => true
  | GNil, GSlice [] | GNil, GMap [] => true
  | GSlice [], GNil | GMap [], GNil => true
  | GPtr x, GPtr y => vsim x y
  | GAny x, GAny y => json_eqb x y
  | GSlice la, GSlice lb =>
      (fix go (la lb : list gval) {struct la} : bool :=
         match la, lb with
         | [], [] => true
         | x :: r, y :: s => (vsim x y && go r s)%bool
         | _, _ => false
         end) la lb
  | GMap la, GMap lb =>
      (fix go (la lb : list (string * gval)) {struct la} : bool :=
         match la, lb with
         | [], [] => true
         | (k, x) :: r, (k', y) :: s => (seqb k k' && vsim x y && go r s)%bool
         | _, _ => false
         end) la lb
  | GStruct fa, GStruct fb =>
      (fix go (fa fb : list (string * gval)) {struct fa} : bool :=
         match fa, fb with
         | [], [] => true
         | (n, x) :: r, (n', y) :: s => (seqb n n' && vsim x y && go r s)%bool
         | _, _ => false
         end) fa fb
  | _, _ => leaf_eq a b
  end.

(* ---------- the side condition: corresponding maps have the same keys ---------- *)
Fixpoint keys_aligned (a b : gval) {struct a} : bool :=
  match a, b with
  | GPtr x, GPtr y => keys_aligned x y
  | GSlice la, GSlice lb =>
      (fix go (la lb : list gval) {struct la} : bool :=
         match la, lb with
         | x :: r, y :: s => (keys_aligned x y && go r s)%bool
         | _, _ => true
         end) la lb
  | GMap la, GMap lb =>
      (fix go (la lb : list (string * gval)) {struct la} : bool :=
         match la, lb with
         | [], [] => true
         | (k, x) :: r, (k', y) :: s => (seqb k k' && keys_aligned x y && go r s)%bool
         | _, _ => false
         end) la lb
  | GMap la, GNil => match la with [] => true | _ => false end
  | GNil, GMap lb => match lb with [] => true | _ => false end
  | GStruct fa, GStruct fb =>
      (fix go (fa fb : list (string * gval)) {struct fa} : bool :=
         match fa, fb with
         | (_, x) :: r, (_, y) :: s => (keys_aligned x y && go r s)%bool
         | _, _ => true
         end) fa fb
  | _, _ => true
  end.
