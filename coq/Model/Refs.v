(* C05: every place of the IR that names an object, and what "resolves" means. *)
From Cog Require Export Model.IR.
Local Open Scope list_scope.

(* ALL reference sites of a type: references and constant references anywhere, including map
   index types, enum member types and the disjunctions kept in struct hints *)
Fixpoint all_refs (t : ty) : list (string * string) :=
  match t with
  | TDisj _ d => flat_map all_refs (d_branches d)
  | TArray _ v => all_refs v
  | TEnum _ vs => flat_map (fun v => all_refs (ev_type v)) vs
  | TMap _ i v => all_refs i ++ all_refs v
  | TStruct _ dh fs =>
      flat_map (fun kd => flat_map all_refs (d_branches (snd kd))) dh ++
      flat_map (fun f => all_refs (f_type f)) fs
  | TRef _ p n => [(p, n)]
  | TConstRef _ p n _ => [(p, n)]
  | TInter _ bs => flat_map all_refs bs
  | TScalar _ _ _ _ | TSlot _ _ | TBad _ _ => []
  end.

(* discriminator-mapping targets: each must be the name of one of the branches *)
Definition branch_names (bs : list ty) : list string :=
  flat_map (fun b => match b with TRef _ _ n => [n] | _ => [] end) bs.
Definition mapping_dangling (d : disj_ ty) : list string :=
  filter (fun n => negb (existsb (seqb n) (branch_names (d_branches d)))) (map snd (d_mapping d)).
Fixpoint bad_mappings (t : ty) : list string :=
  match t with
  | TDisj _ d => mapping_dangling d ++ flat_map bad_mappings (d_branches d)
  | TArray _ v => bad_mappings v
  | TMap _ i v => bad_mappings i ++ bad_mappings v
  | TStruct _ dh fs =>
      flat_map (fun kd => mapping_dangling (snd kd) ++ flat_map bad_mappings (d_branches (snd kd))) dh ++
      flat_map (fun f => bad_mappings (f_type f)) fs
  | TInter _ bs => flat_map bad_mappings bs
  | _ => []
  end.

Definition loaded (ss : schemas) (p : string) : bool :=
  match locate ss p with Some _ => true | None => false end.
Definition object_exists (ss : schemas) (p n : string) : bool :=
  match locate_object ss p n with Some _ => true | None => false end.

(* a dangling site: points into a LOADED package at an object that is not there
   (references into packages that were not loaded are outside the claim) *)
Definition dangling_refs (ss : schemas) (rs : list (string * string)) : list (string * string) :=
  filter (fun r => loaded ss (fst r) && negb (object_exists ss (fst r) (snd r))) rs.

Definition schema_refs (s : schema) : list (string * string) :=
  all_refs (s_entrytype s) ++ flat_map (fun ko => all_refs (o_type (snd ko))) (s_objects s).
Definition schema_bad_entry (s : schema) : list (string * string) :=
  match s_entry s with
  | EmptyString => []
  | e => if objs_has (s_objects s) e then [] else [(s_pkg s, e)]
  end.
Definition schema_bad_mappings (s : schema) : list string :=
  bad_mappings (s_entrytype s) ++ flat_map (fun ko => bad_mappings (o_type (snd ko))) (s_objects s).

(* everything that does not resolve, as (package, name) *)
Definition dangling (ss : schemas) : list (string * string) :=
  dangling_refs ss (flat_map schema_refs ss) ++ flat_map schema_bad_entry ss
  ++ map (fun n => ("<mapping>"%string, n)) (flat_map schema_bad_mappings ss).
Definition resolves (ss : schemas) : bool := match dangling ss with [] => true | _ => false end.

(* ---- reachability (the reference for allowed_objects): least fixpoint over ALL reference sites ---- *)
Definition key_eqb (a b : string * string) : bool := seqb (fst a) (fst b) && seqb (snd a) (snd b).
Definition kmem (k : string * string) (l : list (string * string)) : bool := existsb (key_eqb k) l.

Fixpoint reach (fuel : nat) (ss : schemas) (work seen : list (string * string)) : list (string * string) :=
  match fuel with
  | O => seen
  | S f =>
      match work with
      | [] => seen
      | k :: rest =>
          if kmem k seen then reach f ss rest seen
          else match locate_object ss (fst k) (snd k) with
               | None => reach f ss rest seen
               | Some o => reach f ss (rest ++ all_refs (o_type o)) (seen ++ [k])
               end
      end
  end.

Definition total_refs (ss : schemas) : nat :=
  fold_left (fun n s => n + List.length (schema_refs s) + List.length (s_objects s)) ss 0.

(* the objects (package, name) a selection must keep: the existing selected ones and
   everything they reference, directly or indirectly *)
Definition closure (ss : schemas) (roots : list (string * string)) : list (string * string) :=
  reach (S (List.length roots + total_refs ss) * 2) ss roots [].
