(* What the Go code cog prints MEANS, part 2: json.Unmarshal into the generated types and
   json.Marshal of their values.  Definitions only.

   decode  mirrors encoding/json's decoder driven by the generated type declarations (types.go:
   formatField gives the tag `json:"<field name>[,omitempty]"`) and the custom UnmarshalJSON of the
   two disjunction structs (templates/types/disjunction_of_{scalars,refs}.json_unmarshal.tmpl).
   encode  mirrors the encoder (omitempty) and the custom MarshalJSON of the disjunction structs.

   encoding/json behaviours that are in the model because documents hit them: unknown members are
   ignored; object keys match fields by exact name, else case-insensitively (ASCII folding here);
   a later duplicate overrides an earlier one; `null` sets pointers, slices, maps and interfaces to
   nil and leaves any other target untouched; integers must be written without fraction/exponent
   and fit the width.  Known abstraction: a duplicate key whose value is a container REPLACES the
   earlier value (Go merges into it); the generators only duplicate scalar-valued members. *)
From Coq Require Import List String ZArith Bool Ascii.
From Cog Require Import Model.IR Model.Json Model.GoSemBase.
Import ListNotations.
Local Open Scope list_scope.
Local Open Scope string_scope.

Inductive dres :=
| DSet (v : gval)        (* the target now holds v *)
| DKeep                  (* the target is left as it was (null into a non-nil-able target) *)
| DErr                   (* json.Unmarshal returns an error *)
| DUnm (why : string).   (* outside the modelled fragment *)

(* the non-reference type describing the payload of a (field / element) type *)
Inductive payload :=
| PTy (t : ty)
| PUnm (why : string).

Definition payload_type (ctx : schemas) (t : ty) : payload :=
  let via := fun (p n : string) =>
    match resolve ctx (TRef attrs0 p n) with
    | None => PUnm "reference cycle"
    | Some (TRef _ _ _) => PUnm "dangling reference"
    | Some rt => if t_nullable rt then PUnm "nullable object type"
                 else if is_concrete_scalar rt then PUnm "reference to a constant"
                 else PTy rt
    end in
  match t with
  | TRef _ p n => via p n
  | TConstRef _ p n _ => via p n
  | _ => PTy t
  end.

Definition decode_scalar (t : ty) (k : skind) (j : json) : dres :=
  match k with
  | KAny => DSet (GAny (canon j))   (* map[string]any / []any / float64: key order and duplicates are gone *)
  | KBool => match j with JBool b => DSet (GBool b) | _ => DErr end
  | KString =>
      match j with
      | JStr s =>
          if is_datetime t then
            match parse_time s with
            | TOk x l => DSet (GTime x l)
            | TBadTime => DErr
            | TUnmodelled => DUnm "time zone offset outside the modelled fragment"
            end
          else DSet (GStr s)
      | _ => DErr
      end
  | KFloat32 | KFloat64 =>
      (* strconv.ParseFloat is the identity on decimals the width represents exactly enough to print back;
         beyond 6 (float32) / 15 (float64) significant digits binary rounding shows: outside the model *)
      match j with
      | JNum m e =>
          let '(a, b) := num_norm m e in
          if Z.ltb (Z.abs a) (match k with KFloat32 => 1000000 | _ => 1000000000000000 end)%Z
          then DSet (GFloat a b)
          else DUnm "float beyond the significant digits its width prints back"
      | _ => DErr
      end
  | KNull | KBytes | KOther _ => DUnm "scalar kind"
  | _ =>
      match j, int_range k with
      | JNum m e, Some (lo, hi) =>
          if (num_is_int_literal m e && Z.leb lo m && Z.leb m hi)%bool then DSet (GInt m) else DErr
      | _, _ => DErr
      end
  end.

(* results of a list of element decodes *)
Fixpoint first_bad (rs : list dres) : option dres :=
  match rs with
  | [] => None
  | DUnm w :: _ => Some (DUnm w)
  | DErr :: r => match first_bad r with Some (DUnm w) => Some (DUnm w) | _ => Some DErr end
  | _ :: r => first_bad r
  end.
Definition dval (z : gval) (r : dres) : gval := match r with DSet v => v | _ => z end.

Fixpoint gmap_set (l : list (string * gval)) (k : string) (v : gval) : list (string * gval) :=
  match l with
  | [] => [(k, v)]
  | (k', v') :: r =>
      match String.compare k k' with
      | Eq => (k, v) :: r
      | Lt => (k, v) :: (k', v') :: r
      | Gt => (k', v') :: gmap_set r k v
      end
  end.

(* encoding/json: exact name first, else the first field whose name folds to the same string *)
Definition field_for_key (fs : list field) (k : string) : option field :=
  match find (fun f => seqb (f_name f) k) fs with
  | Some f => Some f
  | None => find (fun f => equal_fold (f_name f) k) fs
  end.

(* a plain struct from the members of a JSON object: every member is decoded with the type of the
   field its key selects; per field the members apply in document order *)
Definition decode_members (dec : json -> ty -> dres) (zr : ty -> gval) (fs : list field)
           (ms : list (string * json)) : dres :=
  let rs := map (fun kv => match field_for_key fs (fst kv) with
                           | Some f => Some (f_name f, dec (snd kv) (f_type f))
                           | None => None
                           end) ms in
  match first_bad (map (fun r => match r with Some (_, d) => d | None => DKeep end) rs) with
  | Some bad => bad
  | None =>
      DSet (GStruct (map (fun f =>
        (f_name f,
         fold_left (fun cur r => match r with
                                 | Some (n, DSet v) => if seqb n (f_name f) then v else cur
                                 | _ => cur
                                 end) rs (zr (f_type f)))) fs))
  end.

Definition last_member (k : string) (ms : list (string * json)) : option json :=
  fold_left (fun acc kv => if seqb (fst kv) k then Some (snd kv) else acc) ms None.

Definition catch_all : string := "cog_discriminator_catch_all".

(* the type name the discriminator value selects in the generated `switch` *)
Definition select_branch (d : disj) (dv : option json) : option string :=
  match dv with
  | None => None
  | Some v =>
      match (match v with JStr s => alist_find (d_mapping d) s | _ => None end) with
      | Some n => Some n
      | None => alist_find (d_mapping d) catch_all
      end
  end.

Definition all_nil (fs : list field) : gval := GStruct (map (fun f => (f_name f, GNil)) fs).
Definition set_field (fs : list field) (n : string) (v : gval) : gval :=
  GStruct (map (fun f => (f_name f, if seqb (f_name f) n then v else GNil)) fs).

(* what `null` does to a target of type t *)
Definition decode_null (ctx : schemas) (t : ty) : dres :=
  if is_ptr t then DSet GNil else
  match payload_type ctx t with
  | PUnm w => DUnm w
  | PTy pt =>
      match pt with
      | TScalar _ KAny _ _ => DSet GNil
      | TArray _ _ | TMap _ _ _ => DSet GNil
      | TStruct _ _ fs =>
          match union_scalars pt with
          | Some _ =>
              (* UnmarshalJSON is called with `null`: the first branch "decodes" *)
              match fs with
              | f :: _ =>
                  match f_type f with
                  | TArray _ _ | TMap _ _ _ => DSet (all_nil fs)
                  | bt => DSet (set_field fs (f_name f) (GPtr (zero ctx (non_null bt))))
                  end
              | [] => DErr
              end
          | None => DKeep
          end
      | _ => DKeep
      end
  end.

Fixpoint decode (ctx : schemas) (j : json) (t : ty) {struct j} : dres :=
  match j with
  | JNull => decode_null ctx t
  | _ =>
      let wrap := fun r : dres => if is_ptr t then match r with DSet v => DSet (GPtr v) | x => x end else r in
      (* decoding j into a non-struct payload type *)
      let simple := fun pt : ty =>
        match pt with
        | TScalar _ k _ _ => decode_scalar pt k j
        | TEnum _ vs => match enum_base vs with TScalar _ k _ _ as b => decode_scalar b k j | _ => DUnm "enum base" end
        | TArray _ et =>
            match j with
            | JArr l =>
                let rs := map (fun x => decode ctx x et) l in
                match first_bad rs with
                | Some bad => bad
                | None => DSet (GSlice (map (dval (zero ctx et)) rs))
                end
            | _ => DErr
            end
        | TMap _ _ vt =>
            match j with
            | JObj ms =>
                let rs := map (fun kv => (fst kv, decode ctx (snd kv) vt)) ms in
                match first_bad (map snd rs) with
                | Some bad => bad
                | None => DSet (GMap (fold_left (fun acc kr => gmap_set acc (fst kr) (dval (zero ctx vt) (snd kr))) rs []))
                end
            | _ => DErr
            end
        | _ => DUnm "type kind"
        end in
      match payload_type ctx t with
      | PUnm w => DUnm w
      | PTy pt =>
          wrap
            match pt with
            | TStruct _ _ fs =>
                match union_scalars pt, union_refs pt with
                | Some _, _ =>
                    (* disjunction_of_scalars.json_unmarshal.tmpl: first branch that decodes *)
                    (fix try (bs : list field) : dres :=
                       match bs with
                       | [] => DErr
                       | f :: r =>
                           match simple (non_null (f_type f)) with
                           | DSet v =>
                               DSet (set_field fs (f_name f)
                                       match f_type f with TArray _ _ | TMap _ _ _ => v | _ => GPtr v end)
                           | DKeep => DErr
                           | DErr => try r
                           | DUnm w => DUnm w
                           end
                       end) fs
                | None, Some d =>
                    (* disjunction_of_refs.json_unmarshal.tmpl *)
                    match j with
                    | JObj ms =>
                        match select_branch d (last_member (d_disc d) ms) with
                        | None => DSet (all_nil fs)
                        | Some n =>
                            match field_by_ref_name fs n with
                            | None => DUnm "mapping target is not a branch"
                            | Some f =>
                                match payload_type ctx (f_type f) with
                                | PTy (TStruct _ [] bfs) =>
                                    match decode_members (decode ctx) (zero ctx) bfs ms with
                                    | DSet v => DSet (set_field fs (f_name f) (GPtr v))
                                    | x => x
                                    end
                                | PTy _ => DUnm "union branch is not a plain struct"
                                | PUnm w => DUnm w
                                end
                            end
                        end
                    | _ => DErr
                    end
                | None, None =>
                    match j with
                    | JObj ms => decode_members (decode ctx) (zero ctx) fs ms
                    | _ => DErr
                    end
                end
            | _ => simple pt
            end
      end
  end.

(* json.Unmarshal(doc, new(T)) for the object named n of package p *)
Definition decode_object (ctx : schemas) (p n : string) (j : json) : outcome gval :=
  let t := TRef attrs0 p n in
  match decode ctx j t with
  | DSet v => GOk v
  | DKeep => GOk (zero ctx t)
  | DErr => GErr
  | DUnm w => GUnmodelled w
  end.

(* ---------- json.Marshal ---------- *)
Definition is_empty_value (v : gval) : bool :=
  match v with
  | GNil => true
  | GBool b => negb b
  | GInt z => Z.eqb z 0
  | GFloat m _ => Z.eqb m 0
  | GStr s => String.eqb s ""
  | GSlice [] => true
  | GMap [] => true
  | _ => false
  end.

Definition payload_or_self (ctx : schemas) (t : ty) : ty :=
  match payload_type ctx t with PTy pt => pt | PUnm _ => t end.

Fixpoint encode (ctx : schemas) (t : ty) (v : gval) {struct v} : json :=
  match v with
  | GNil => JNull
  | GPtr x => encode ctx (non_null t) x
  | GBool b => JBool b
  | GInt z => JNum z 0
  | GFloat m e => JNum m e
  | GStr s => JStr s
  | GTime s _ => JStr s
  | GAny j => j
  | GSlice l =>
      match payload_or_self ctx t with
      | TArray _ et => JArr (map (encode ctx et) l)
      | _ => JNull
      end
  | GMap kvs =>
      match payload_or_self ctx t with
      | TMap _ _ vt => JObj (map (fun kv => (fst kv, encode ctx vt (snd kv))) kvs)
      | _ => JNull
      end
  | GStruct fvs =>
      match payload_or_self ctx t with
      | TStruct _ dh fs as pt =>
          match union_scalars pt, union_refs pt with
          | None, None =>
              JObj ((fix go (fs : list field) (fvs : list (string * gval)) {struct fvs} : list (string * json) :=
                       match fs, fvs with
                       | f :: fr, (_, fv) :: vr =>
                           if (negb (f_required f) && is_empty_value fv)%bool then go fr vr
                           else (f_name f, encode ctx (f_type f) fv) :: go fr vr
                       | _, _ => []
                       end) fs fvs)
          | _, _ =>
              (* disjunction_of_*.json_marshal.tmpl: the first non-nil branch, else null *)
              (fix go (fs : list field) (fvs : list (string * gval)) {struct fvs} : json :=
                 match fs, fvs with
                 | f :: fr, (_, fv) :: vr =>
                     match fv with GNil => go fr vr | _ => encode ctx (f_type f) fv end
                 | _, _ => JNull
                 end) fs fvs
          end
      | _ => JNull
      end
  end.

Definition encode_object (ctx : schemas) (p n : string) (v : gval) : json := encode ctx (TRef attrs0 p n) v.
