(* C14 — vocabulary of the end-to-end theorem `convert_then_build_partial_whole` (Props/C14.v): the decidable
   side condition `conv_safe` under which converting a value and executing the emitted expression gives the
   value back.  Definitions only (new file: Model/Converter.v is untouched). *)
From Coq Require Import List String ZArith Bool Ascii.
From Cog Require Import Model.IR Model.Json Model.Builders Model.GoSem Model.BuilderEval Model.BuilderSpec
  Model.Converter.
Import ListNotations.
Local Open Scope string_scope.
Local Open Scope list_scope.

(* equality test on scalar-like values (nil, booleans, numbers, strings, times, pointers to those); false on
   collections, structs and `any` values: the theorem is about builders whose fields are scalar-like *)
Fixpoint gval_same (a b : gval) : bool :=
  match a, b with
  | GNil, GNil => true
  | GBool x, GBool y => Bool.eqb x y
  | GInt x, GInt y => Z.eqb x y
  | GFloat m e, GFloat m' e' => (Z.eqb m m' && Z.eqb e e')%bool
  | GStr x, GStr y => String.eqb x y
  | GTime x l, GTime y l' => (String.eqb x y && Bool.eqb l l')%bool
  | GPtr x, GPtr y => gval_same x y
  | _, _ => false
  end.

Definition field_item (f : field) : pathitem := mkPathItem (f_name f) None (f_type f) None false.
Definition field_guards (b : builder) (o : boption) : list mguard :=
  guard_for_assignments (input_root b) (op_assignments o).
Definition field_argmap (e : benv) (b : builder) (f : field) : argmap :=
  argument_for_type arg_fuel e "arg1" (input_root b ++ [field_item f]) (f_type f).

(* what the converter does for the option of field f on the value v:
   None = outside the theorem; Some None = the option is not emitted; Some (Some y) = emitted with argument y *)
Definition field_emitted (e : benv) (b : builder) (v : gval) (f : field) (o : boption) : option (option gval) :=
  let env := [("input", v)] in
  match field_argmap e b f with
  | AMDirect vp t =>
      match eval_guards env (field_guards b o) with
      | GOk true =>
          match (if is_any t then read_path env vp else read_deref env vp t) with
          | PRVal y => Some (Some (formatted t y))
          | _ => None
          end
      | GOk false => Some None
      | _ => None
      end
  | _ => None
  end.

(* the field is reproduced: an emitted argument, stored by the derived option, is the value that was read;
   a field whose option is not emitted already holds the constructor's value.  This is what excludes the open
   findings: an empty string / a value equal to a different default (guard false, value <> default), an absent
   value against a populated default, nested objects and collections (not AMDirect or not scalar-like), values
   printed through cog.Dump that do not denote themselves *)
Definition field_safe (e : benv) (b : builder) (v d : gval) (f : field) (o : boption) : bool :=
  (negb (type_has_builder e (f_type f)) &&
   match field_emitted e b v f o, obj_field v (f_name f), obj_field d (f_name f) with
   | Some (Some y), Some x, Some _ => gval_same (maybe_ptr (f_type f) y) x
   | Some None, Some x, Some x' => gval_same x' x
   | _, _, _ => false
   end)%bool.

Fixpoint conv_safe (e : benv) (b : builder) (fs : list field) (opts : list boption) (v d : gval) : bool :=
  match fs, opts with
  | [], [] => true
  | f :: fr, o :: r => (field_safe e b v d f o && conv_safe e b fr r v d)%bool
  | _, _ => false
  end.

(* the calls the theorem predicts *)
Fixpoint emitted_calls (e : benv) (b : builder) (v : gval) (fs : list field) (opts : list boption) : list (string * gval) :=
  match fs, opts with
  | f :: fr, o :: r =>
      match field_emitted e b v f o with
      | Some (Some y) => (op_name o, y) :: emitted_calls e b v fr r
      | _ => emitted_calls e b v fr r
      end
  | _, _ => []
  end.
