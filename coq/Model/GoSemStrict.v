(* What the Go code cog prints MEANS, part 5: the generated UnmarshalJSONStrict methods
   (internal/jennies/golang/strictjson.go, templates/types/struct.strict.json_unmarshal.tmpl with its
   block "strict_unmarshal_field_type", disjunction_of_{scalars,refs}.strict.json_unmarshal.tmpl).
   Definitions only.

   The template accumulates errors (`errs = append(...)`) and keeps going, except that a failed
   decoding of the raw array / raw map of NON-scalar elements does `return err`; and the code emitted
   for a nullable reference to a named array type dereferences a nil pointer.  These three ways of
   leaving are kept apart (SErrAcc / SAbort / SPanic) because their order decides the outcome. *)
From Coq Require Import List String ZArith Bool Ascii.
From Cog Require Import Model.IR Model.Json Model.GoSemBase Model.GoSemDecode.
Import ListNotations.
Local Open Scope list_scope.
Local Open Scope string_scope.

Inductive sres :=
| SOk (v : gval)          (* the target holds v, no error recorded *)
| SErrAcc (v : gval)      (* an error was appended to errs; execution continues *)
| SAbort                  (* `return err` *)
| SPanic                  (* run-time panic *)
| SUnm (why : string).

(* languages.Context.IsArrayOfKinds / IsMapOfKinds (scalar, enum) *)
Fixpoint array_of_scalars (ctx : schemas) (fuel : nat) (t : ty) : bool :=
  match fuel with
  | O => false
  | S f =>
      match resolve ctx t with
      | Some (TArray _ et) =>
          match resolve ctx et with
          | Some (TArray _ _ as a) => array_of_scalars ctx f a
          | Some (TScalar _ _ _ _) | Some (TEnum _ _) => true
          | _ => false
          end
      | _ => false
      end
  end.
Fixpoint map_of_scalars (ctx : schemas) (fuel : nat) (t : ty) : bool :=
  match fuel with
  | O => false
  | S f =>
      match resolve ctx t with
      | Some (TMap _ _ vt) =>
          match resolve ctx vt with
          | Some (TMap _ _ _ as m) => map_of_scalars ctx f m
          | Some (TScalar _ _ _ _) | Some (TEnum _ _) => true
          | _ => false
          end
      | _ => false
      end
  end.

(* run element/field results in program order *)
Fixpoint seq_results (rs : list sres) (acc : list gval) (err : bool) : sres + (list gval * bool) :=
  match rs with
  | [] => inr (rev acc, err)
  | SOk v :: r => seq_results r (v :: acc) err
  | SErrAcc v :: r => seq_results r (v :: acc) true
  | SAbort :: _ => inl SAbort
  | SPanic :: _ => inl SPanic
  | SUnm w :: _ => inl (SUnm w)
  end.

Definition has_default (t : ty) : bool := negb (dyn_is_nil (dflt (ty_attrs t))).

(* the body of struct.strict.json_unmarshal.tmpl over the member list of the raw object *)
Definition strict_members (sv : json -> ty -> sres) (zr : ty -> gval) (fs : list field)
           (ms : list (string * json)) : sres :=
  let rs := map (fun kv =>
                   (fst kv,
                    match find (fun f => seqb (f_name f) (fst kv)) fs with
                    | Some f => Some (match snd kv with
                                      | JNull => None
                                      | _ => Some (sv (snd kv) (f_type f))
                                      end)
                    | None => None
                    end)) ms in
  let unknown := existsb (fun r => match snd r with None => true | Some _ => false end) rs in
  (* fields[name] of the Go map: the last member with that name *)
  let last := fun n : string =>
    fold_left (fun acc r => if seqb (fst r) n then Some (snd r) else acc) rs None in
  let per_field := map (fun f =>
      let t := f_type f in
      match last (f_name f) with
      | Some (Some (Some r)) => r
      | Some (Some None) =>       (* present, null *)
          if (f_required f && negb (t_nullable t))%bool then SErrAcc (zr t) else SOk (zr t)
      | _ =>                      (* absent *)
          if (f_required f && negb (has_default t))%bool then SErrAcc (zr t) else SOk (zr t)
      end) fs in
  match seq_results per_field [] false with
  | inl stop => stop
  | inr (vals, err) =>
      if (err || unknown)%bool then SAbort
      else SOk (GStruct (combine (map (fun f => f_name f) fs) vals))
  end.

(* where the raw input of "strict_unmarshal_field_type" comes from: fields[...], partialArray[i], partialMap[key].
   The template declares `partialArray` / `partialMap` anew at every nesting level and only then reads its
   input: when the input is itself `partialArray[i]` (resp. `partialMap[key]`) it reads the NEW, empty
   variable: index out of range (resp. json.Unmarshal(nil): error, `return err`). *)
Inductive rawsrc := RField | RElem | RVal.

Fixpoint strict_val (ctx : schemas) (src : rawsrc) (j : json) (t : ty) {struct j} : sres :=
  let std := match decode ctx j t with
             | DSet v => SOk v
             | DKeep => SOk (zero ctx t)
             | DErr => SErrAcc (zero ctx t)
             | DUnm w => SUnm w
             end in
  match payload_type ctx t with
  | PUnm w => SUnm w
  | PTy pt =>
      match pt with
      | TScalar _ _ _ _ | TEnum _ _ => std
      | TArray _ et =>
          if array_of_scalars ctx 8 pt then std else
          match src with RElem => SPanic | _ =>
          match j with
          | JArr l =>
              let rs := map (fun x => strict_val ctx RElem x et) l in
              if (is_ref t && t_nullable t)%bool then
                (* cog.ToPtr(append( *resource.F, result)) with resource.F still nil *)
                match rs with
                | [] => SOk GNil
                | SAbort :: _ => SAbort
                | SUnm w :: _ => SUnm w
                | _ :: _ => SPanic
                end
              else
                match seq_results rs [] false with
                | inl stop => stop
                | inr (vals, err) =>
                    let v := match vals with [] => GNil | _ => GSlice vals end in
                    if err then SErrAcc v else SOk v
                end
          | JNull => SOk GNil
          | _ => SAbort
          end
          end
      | TMap _ _ vt =>
          if map_of_scalars ctx 8 pt then std else
          let wrap := fun m : gval => if is_ptr t then GPtr m else m in
          match src with RVal => SAbort | _ =>
          match j with
          | JObj ms =>
              let rs := map (fun kv => strict_val ctx RVal (snd kv) vt) ms in
              match seq_results rs [] false with
              | inl stop => stop
              | inr (vals, err) =>
                  let v := wrap (GMap (fold_left (fun acc kv => gmap_set acc (fst kv) (snd kv))
                                                 (combine (map fst ms) vals) [])) in
                  if err then SErrAcc v else SOk v
              end
          | JNull => SOk (wrap (GMap []))
          | _ => SAbort
          end
          end
      | TStruct _ _ fs =>
          if negb (is_ref t) then SUnm "inline struct: the template has no case for it" else
          let wrap := fun v : gval => if is_ptr t then GPtr v else v in
          let body : sres :=
            match union_scalars pt, union_refs pt with
            | Some _, _ =>
                (fix try (bs : list field) : sres :=
                   match bs with
                   | [] => SAbort
                   | f :: r =>
                       let bt := non_null (f_type f) in
                       let hold := fun v : gval =>
                         set_field fs (f_name f) match f_type f with TArray _ _ | TMap _ _ _ => v | _ => GPtr v end in
                       match decode ctx j bt with
                       | DSet v => SOk (hold v)
                       | DKeep => SOk (hold (zero ctx bt))
                       | DErr => try r
                       | DUnm w => SUnm w
                       end
                   end) fs
            | None, Some d =>
                match j with
                | JObj ms =>
                    match select_branch d (last_member (d_disc d) ms) with
                    | None => SAbort
                    | Some n =>
                        match field_by_ref_name fs n with
                        | None => SUnm "mapping target is not a branch"
                        | Some f =>
                            match payload_type ctx (f_type f) with
                            | PTy (TStruct _ [] bfs) =>
                                match strict_members (strict_val ctx RField) (zero ctx) bfs ms with
                                | SOk v => SOk (set_field fs (f_name f) (GPtr v))
                                | SErrAcc _ => SAbort
                                | x => x
                                end
                            | PTy _ => SUnm "union branch is not a plain struct"
                            | PUnm w => SUnm w
                            end
                        end
                    end
                | _ => SAbort
                end
            | None, None =>
                match j with
                | JObj ms => strict_members (strict_val ctx RField) (zero ctx) fs ms
                | JNull => strict_members (strict_val ctx RField) (zero ctx) fs []
                | _ => SAbort
                end
            end in
          match body with
          | SOk v => SOk (wrap v)
          | SErrAcc _ | SAbort => SErrAcc (wrap (zero ctx (non_null t)))
          | x => x
          end
      | _ => SUnm "type kind"
      end
  end.

(* new(T).UnmarshalJSONStrict(doc) for the struct object n of package p *)
Definition strict_object (ctx : schemas) (p n : string) (j : json) : outcome gval :=
  match strict_val ctx RField j (TRef attrs0 p n) with
  | SOk v => GOk v
  | SErrAcc _ | SAbort => GErr
  | SPanic => GPanic
  | SUnm w => GUnmodelled w
  end.
