(* C12: comparisons of the model of Model/JsonSchemaOut.v with what the real jennies wrote, and the
   property's decidable predicates, as evaluated by checks/c12.py (vm_compute over generated cases).
   Definitions only. *)
From Coq Require Import List String ZArith Bool Ascii.
From Cog Require Export Model.IR Model.Json Model.GoSemBase Model.JsonSchemaOut.
Import ListNotations.
Local Open Scope list_scope.
Local Open Scope string_scope.

(* one case: the context the jsonschema/openapi jenny received, the package, the two emitted documents
   as read back from disk (None: not produced), and verdicts of the reference validator (python
   jsonschema on the REAL emitted file) for documents against the definition of a type *)
Definition ocase := (schemas * string * option json * option json * list (string * json * bool))%type.

Fixpoint ty_dyn_modelled (t : ty) : bool :=
  (dyn_modelled (dflt (ty_attrs t)) &&
   match t with
   | TStruct _ _ fs => forallb (fun f => ty_dyn_modelled (f_type f)) fs
   | TScalar _ _ v cs => dyn_modelled v && forallb (fun c => forallb dyn_modelled (c_args c)) cs
   | TEnum _ vs => forallb (fun ev => dyn_modelled (ev_value ev)) vs
   | TArray _ v => ty_dyn_modelled v
   | TMap _ _ v => ty_dyn_modelled v
   | TDisj _ d => forallb ty_dyn_modelled (d_branches d)
   | _ => true
   end)%bool.

Definition ctx_modelled (ctx : schemas) : bool :=
  forallb (fun s => forallb (fun ko => ty_dyn_modelled (o_type (snd ko))) (s_objects s)) ctx.

Definition model_doc (ctx : schemas) (pkg : string) : option (schema * res jdoc) :=
  match locate ctx pkg with
  | Some s => Some (s, emit_schema ctx (emit_fuel ctx) s)
  | None => None
  end.

Definition ocase_unmodelled (c : ocase) : bool :=
  let '(ctx, pkg, _, _, _) := c in
  (negb (ctx_modelled ctx) || match model_doc ctx pkg with None => true | Some _ => false end)%bool.

(* the model's JSON Schema document differs from the emitted one *)
Definition mm_emit_js (c : ocase) : bool :=
  let '(ctx, pkg, js, _, _) := c in
  (negb (ocase_unmodelled c) &&
   match model_doc ctx pkg, js with
   | Some (_, Ok jd), Some real => negb (json_eq (render_jsonschema jd) real)
   | Some (_, Ok _), None => false              (* not produced (e.g. another language failed the run) *)
   | Some (_, _), Some _ => true                (* the model does not terminate / fails, the jenny wrote a file *)
   | Some (_, _), None => false
   | None, _ => false
   end)%bool.

Definition mm_emit_oapi (c : ocase) : bool :=
  let '(ctx, pkg, _, oa, _) := c in
  (negb (ocase_unmodelled c) &&
   match model_doc ctx pkg, oa with
   | Some (s, Ok jd), Some real => negb (json_eq (render_openapi s jd) real)
   | Some (_, Ok _), None => false
   | Some (_, _), Some _ => true
   | Some (_, _), None => false
   | None, _ => false
   end)%bool.

(* js_valid on the model's document disagrees with the reference validator on the real document *)
Definition mm_valid (c : ocase) : bool :=
  let '(ctx, pkg, _, _, vs) := c in
  (negb (ocase_unmodelled c) &&
   match model_doc ctx pkg with
   | Some (_, Ok jd) =>
       existsb (fun tdv => let '(tn, d, verdict) := tdv in
                           match doc_valid jd tn d with
                           | Some b => negb (Bool.eqb b verdict)
                           | None => false
                           end) vs
   | _ => false
   end)%bool.

(* documents the model's validator gives up on (keyword outside the subset / dangling $ref) *)
Definition unm_valid (c : ocase) : bool :=
  let '(ctx, pkg, _, _, vs) := c in
  match model_doc ctx pkg with
  | Some (_, Ok jd) => existsb (fun tdv => let '(tn, d, _) := tdv in
                                           match doc_valid jd tn d with None => true | Some _ => false end) vs
  | _ => false
  end.

(* ---------- the property's structural predicates, on the model's document ---------- *)
Definition m_refs_dangle (c : ocase) : bool :=
  let '(ctx, pkg, _, _, _) := c in
  match model_doc ctx pkg with Some (_, Ok jd) => negb (refs_resolve_b jd) | _ => false end.

(* an object of the schema whose definition, looked up under its own name, is not its own *)
Fixpoint jschema_eqb (a b : jschema) {struct a} : bool :=
  match a, b with
  | JSAnyObj, JSAnyObj => true
  | JSEmpty, JSEmpty => true
  | JSScalar x, JSScalar y => json_eqb (JObj x) (JObj y)
  | JSRef p n, JSRef q m => (seqb p q && seqb n m)%bool
  | JSEnum x, JSEnum y => json_eqb (JArr x) (JArr y)
  | JSArray x, JSArray y => jschema_eqb x y
  | JSMap x, JSMap y => jschema_eqb x y
  | JSStruct r ps, JSStruct r' ps' =>
      (json_eqb (JArr (map JStr r)) (JArr (map JStr r')) &&
       (fix go (x y : list (string * jprop)) {struct x} : bool :=
          match x, y with
          | [], [] => true
          | (n, (s, de, df)) :: xr, (n', (s', de', df')) :: yr =>
              (seqb n n' && jschema_eqb s s' && seqb de de' &&
               match df, df' with Some u, Some v => json_eqb u v | None, None => true | _, _ => false end &&
               go xr yr)%bool
          | _, _ => false
          end) ps ps')%bool
  | JSAnyOf x, JSAnyOf y =>
      (fix go (x y : list jschema) {struct x} : bool :=
         match x, y with
         | [], [] => true
         | u :: xr, v :: yr => (jschema_eqb u v && go xr yr)%bool
         | _, _ => false
         end) x y
  | _, _ => false
  end.

Definition object_present (jd : jdoc) (o : object) : bool :=
  match om_get (jd_defs jd) (o_name o) with
  | Some (s, de) => (jschema_eqb s (emit_type (o_type o)) && seqb de (join_lines (o_comments o)))%bool
  | None => false
  end.

Definition objects_present_b (s : schema) (jd : jdoc) : bool :=
  forallb (fun ko => object_present jd (snd ko)) (s_objects s).

Definition m_object_missing (c : ocase) : bool :=
  let '(ctx, pkg, _, _, _) := c in
  match model_doc ctx pkg with Some (s, Ok jd) => negb (objects_present_b s jd) | _ => false end.

Definition m_out_of_fuel (c : ocase) : bool :=
  let '(ctx, pkg, _, _, _) := c in
  match model_doc ctx pkg with Some (_, OutOfFuel) => true | _ => false end.
