(* Specifications for the front-end theorems (definitions only).

   ir_accepts ctx d t : what a PRE-chain IR type says about a document: JSON type / integer-ness / width of
     scalars, every ast.TypeConstraint, constants, enum membership, arrays, string-keyed maps, structs
     (declared members only, required members present), disjunctions (some branch accepts; the `null`
     scalar accepts exactly null), references through any chain of objects.  This is the IR-level meaning
     "the schema forbids" is compared with: parse_preserves_acceptance says src_valid = ir_accepts o parse.
   field facts        : the constraint / required / nullable information of one struct member, read off the
     Src schema (src_...) and off the IR (ir_...): parse_jsonschema_keeps_constraints says they coincide.
   src_wf             : the decidable well-formedness of the construct grammar the theorems quantify over. *)
From Coq Require Import List String ZArith Bool Ascii.
From Cog Require Import Model.IR Model.Json Model.GoSemBase Model.GoSemValidate Model.Src Model.FrontEnd.
Import ListNotations.
Local Open Scope list_scope.
Local Open Scope string_scope.

(* ---------- constraints on JSON values ---------- *)
Definition cstr_holds_json (c : constraint) (j : json) : bool :=
  match c_args c with
  | arg :: _ =>
      match dyn_num arg with
      | None => false
      | Some b =>
          let op := c_op c in
          match j with
          | JStr s =>
              if seqb op "minLength" then negb (match dec_compare (rune_count s, 0%Z) b with Lt => true | _ => false end)
              else if seqb op "maxLength" then negb (match dec_compare (rune_count s, 0%Z) b with Gt => true | _ => false end)
              else false
          | JNum m e =>
              let c := dec_compare (m, e) b in
              if seqb op ">=" then match c with Lt => false | _ => true end
              else if seqb op ">" then match c with Gt => true | _ => false end
              else if seqb op "<=" then match c with Gt => false | _ => true end
              else if seqb op "<" then match c with Lt => true | _ => false end
              else false
          | _ => false
          end
      end
  | [] => false
  end.

Definition const_matches (v : dyn) (j : json) : bool :=
  match v, j with
  | DStr s, JStr s' => String.eqb s s'
  | DBool b, JBool b' => Bool.eqb b b'
  | DInt _ z, JNum m e => num_eqb z 0 m e
  | DFloat _ r, JNum m e => match parse_dec r with Some (a, b) => num_eqb a b m e | None => false end
  | _, _ => false
  end.

Definition scalar_accepts (t : ty) (a : attrs) (k : skind) (value : dyn) (cs : list constraint) (j : json) : bool :=
  match k with
  | KNull => match j with JNull => true | _ => false end
  | KAny => true
  | _ =>
      if negb (dyn_is_nil value) then const_matches value j else
      (match k, j with
       | KBool, JBool _ => true
       | KString, JStr s =>
           if alist_has (hints a) "string_format_datetime"
           then match parse_time s with TBadTime => false | _ => true end else true
       | (KFloat32 | KFloat64), JNum _ _ => true
       | _, JNum m e =>
           match int_range k with
           | Some (lo, hi) => (is_integral m e && Z.leb lo (int_value m e) && Z.leb (int_value m e) hi)%bool
           | None => false
           end
       | _, _ => false
       end && forallb (fun c => cstr_holds_json c j) cs)%bool
  end.

(* the alternatives a type stands for: references followed, disjunctions flattened *)
Fixpoint alternatives (ctx : schemas) (fuel : nat) (t : ty) : list ty :=
  match fuel with
  | O => []
  | S f =>
      match t with
      | TRef _ p n => match locate_object ctx p n with Some o => alternatives ctx f (o_type o) | None => [] end
      | TDisj _ d => flat_map (alternatives ctx f) (d_branches d)
      | _ => [t]
      end
  end.
Definition alt_fuel (ctx : schemas) : nat := (2 * count_objects ctx + 8)%nat.

Fixpoint ir_accepts (ctx : schemas) (j : json) (t : ty) {struct j} : bool :=
  existsb (fun alt =>
    match alt with
    | TScalar a k v cs => scalar_accepts alt a k v cs j
    | TEnum _ vs => existsb (fun ev => const_matches (ev_value ev) j) vs
    | TArray _ et => match j with JArr l => forallb (fun x => ir_accepts ctx x et) l | _ => false end
    | TMap _ _ vt => match j with JObj ms => forallb (fun kv => ir_accepts ctx (snd kv) vt) ms | _ => false end
    | TStruct _ _ fs =>
        match j with
        | JObj ms =>
            (str_nodup (map fst ms) &&
             forallb (fun kv => match find (fun f => seqb (f_name f) (fst kv)) fs with
                                | Some f => ir_accepts ctx (snd kv) (f_type f)
                                | None => false
                                end) ms &&
             forallb (fun f => (negb (f_required f) || str_in (f_name f) (map fst ms))%bool) fs)%bool
        | _ => false
        end
    | _ => false
    end) (alternatives ctx (alt_fuel ctx) t).

Definition ir_accepts_doc (ctx : schemas) (p n : string) (j : json) : bool :=
  match j with JNull => false | _ => ir_accepts ctx j (TRef attrs0 p n) end.

(* every integral number of the document fits int64 (JSON Schema's `integer` has no width, cog's IR says int64) *)
Fixpoint json_ints_int64 (j : json) : bool :=
  match j with
  | JNum m e => (negb (is_integral m e) ||
                 (Z.leb (-9223372036854775808) (int_value m e) && Z.leb (int_value m e) 9223372036854775807))%bool
  | JArr l => forallb json_ints_int64 l
  | JObj ms => forallb (fun kv => json_ints_int64 (snd kv)) ms
  | _ => true
  end.

(* ---------- the grammar the theorems quantify over ---------- *)
Definition is_simple_branch (t : src_ty) : bool :=
  match t with
  | SBool | SInt _ _ _ _ _ | SFloat _ _ _ _ _ | SString _ _ => true
  | SArray (SBool | SInt _ _ _ _ _ | SFloat _ _ _ _ _ | SString _ _) => true
  | _ => false
  end.

Fixpoint ty_wf (defs : list (string * src_ty)) (t : src_ty) : bool :=
  match t with
  | SArray et => ty_wf defs et
  | SMap vt => ty_wf defs vt
  | SStruct fs =>
      (negb (match fs with [] => true | _ => false end) &&
       forallb (fun f => ty_wf defs (sf_type f)) fs)%bool
  | SUnion bs => forallb is_simple_branch bs
  | SDUnion _ names =>
      forallb (fun n => match src_lookup defs n with Some (SStruct _) => true | _ => false end) names
  | _ => true
  end.

Definition src_wf (s : src_schema) : bool :=
  (js_schema_supported s && forallb (fun d => ty_wf (src_defs s) (snd d)) (src_defs s) &&
   forallb (fun d => str_in (fst d) (reachable s)) (src_defs s))%bool.

(* ---------- parse_preserves_acceptance, as a boolean on one document (evaluated by the correspondence) ---------- *)
Definition parse_ctx (s : src_schema) : schemas := match parse_jsonschema s with FOk c => c | _ => [] end.

(* no nullable member is written as a constrained type array (the shape whose constraints the front-end drops) *)
Fixpoint no_constrained_typearray (t : src_ty) : bool :=
  match t with
  | SArray et => no_constrained_typearray et
  | SMap vt => no_constrained_typearray vt
  | SStruct fs =>
      forallb (fun f => (no_constrained_typearray (sf_type f) &&
                         (negb (sf_nullta f) ||
                          match sf_type f with
                          | SInt _ None None None None | SFloat _ None None None None | SString None None | SBool => true
                          | _ => false end))%bool) fs
  | _ => true
  end.
Definition schema_no_constrained_typearray (s : src_schema) : bool :=
  forallb (fun d => no_constrained_typearray (snd d)) (src_defs s).

Definition acceptance_agrees (s : src_schema) (tname : string) (d : json) : bool :=
  Bool.eqb (src_valid_doc "jsonschema" s tname d) (ir_accepts_doc (parse_ctx s) (src_pkg s) tname d).

(* one element of the stream of checks/c01.py: (schema, format, type, document, reference verdict): the document is in the
   theorem's domain and the two sides differ *)
Definition fe_accept_disagrees (c : src_schema * string * string * json * bool) : bool :=
  let '(s, fmt, tname, j, _) := c in
  (seqb fmt "jsonschema" && src_wf s && schema_no_constrained_typearray s && json_ints_int64 j && json_wf j &&
   negb (acceptance_agrees s tname j))%bool.
Definition fe_accept_in_domain (c : src_schema * string * string * json * bool) : bool :=
  let '(s, fmt, tname, j, _) := c in
  (seqb fmt "jsonschema" && src_wf s && schema_no_constrained_typearray s && json_ints_int64 j && json_wf j)%bool.

(* ---------- field facts (parse_jsonschema_keeps_constraints) ---------- *)
(* what the Src schema says about one member *)
Definition src_constraints (t : src_ty) : list constraint :=
  match t with
  | SInt _ ge gt le lt => js_bounds (zb ge) (zb gt) (zb le) (zb lt)
  | SFloat _ ge gt le lt => js_bounds ge gt le lt
  | SString mn mx => js_lengths mn mx
  | _ => []
  end.
(* what the IR field says: its required flag, whether a `null` branch is offered, the constraints of its scalar *)
Definition ir_offers_null (t : ty) : bool :=
  match t with
  | TDisj _ d => existsb (fun b => match b with TScalar _ KNull _ _ => true | _ => false end) (d_branches d)
  | _ => false
  end.
Definition ir_core (t : ty) : ty :=
  match t with
  | TDisj _ d => match filter (fun b => negb (match b with TScalar _ KNull _ _ => true | _ => false end)) (d_branches d) with
                 | [b] => b
                 | _ => t
                 end
  | _ => t
  end.
Definition ir_constraints (t : ty) : list constraint :=
  match ir_core t with TScalar _ _ _ cs => cs | _ => [] end.
Definition constraints_eqv (a b : list constraint) : bool := leqv constraint_eqv a b.

Definition ir_field (ctx : schemas) (p obj fname : string) : option field :=
  match locate_object ctx p obj with
  | Some o => match o_type o with TStruct _ _ fs => find (fun f => seqb (f_name f) fname) fs | _ => None end
  | None => None
  end.

(* the member f of the struct definition `obj` keeps its facts in the parsed IR *)
Definition field_kept (s : src_schema) (obj : string) (f : sfield) : bool :=
  match ir_field (parse_ctx s) (src_pkg s) obj (sf_name f) with
  | Some fld =>
      (Bool.eqb (f_required fld) (sf_req f) && Bool.eqb (ir_offers_null (f_type fld)) (sf_null f) &&
       constraints_eqv (ir_constraints (f_type fld)) (src_constraints (sf_type f)))%bool
  | None => false
  end.
Definition schema_fields_kept (s : src_schema) : bool :=
  forallb (fun d => match snd d with
                    | SStruct fs => forallb (field_kept s (fst d)) fs
                    | _ => true end) (src_defs s).

(* ---------- the extra decidable hypotheses of the proved (weak) theorems ---------- *)
Definition bound_small (p : Z * Z) : bool :=
  (Z.leb (-10000) (fst p) && Z.leb (fst p) 10000 && Z.leb (-3) (snd p) && Z.leb (snd p) 0)%bool.
Definition obound_small (o : option (Z * Z)) : bool := match o with Some p => bound_small p | None => true end.
Definition const_plain (v : json) : bool := match v with JNum _ e => Z.eqb e 0 | _ => true end.
(* every numeric bound (m, e) has -10000 <= m <= 10000 and -3 <= e <= 0; numeric constants / enum values are
   written without exponent *)
Fixpoint ty_small (t : src_ty) : bool :=
  match t with
  | SInt _ ge gt le lt => (obound_small (zb ge) && obound_small (zb gt) && obound_small (zb le) && obound_small (zb lt))%bool
  | SFloat _ ge gt le lt => (obound_small ge && obound_small gt && obound_small le && obound_small lt)%bool
  | SConst v => const_plain v
  | SEnum vals => forallb const_plain vals
  | SArray et => ty_small et
  | SMap vt => ty_small vt
  | SStruct fs => forallb (fun f => ty_small (sf_type f)) fs
  | SUnion bs => forallb ty_small bs
  | _ => true
  end.
Definition schema_bounds_small (s : src_schema) : bool := forallb (fun d => ty_small (snd d)) (src_defs s).
(* every definition name resolves through aliases within src_valid's fuel (no alias cycle) *)
Definition schema_aliases_resolve (s : src_schema) : bool :=
  forallb (fun d => match src_resolve (src_defs s) (S (List.length (src_defs s))) (SRef (fst d)) with
                    | Some _ => true | None => false end) (src_defs s).

(* the extra hypothesis: the member is not a one-branch union with a constrained branch *)
Definition field_union_plain (f : sfield) : bool :=
  match sf_type f with
  | SUnion [b] => match src_constraints b with [] => true | _ => false end
  | _ => true
  end.

(* the stream elements of checks/c01.py restricted to the hypotheses of parse_preserves_acceptance_partial_weak *)
Definition fe_accept_weak_domain (c : src_schema * string * string * json * bool) : bool :=
  let '(s, fmt, tname, j, _) := c in
  (fe_accept_in_domain c && schema_bounds_small s && schema_aliases_resolve s && str_in tname (map fst (src_defs s)))%bool.
(* a struct member satisfying the hypotheses of parse_jsonschema_keeps_constraints_partial_weak that is not kept *)
Definition field_in_kept_domain (f : sfield) : bool :=
  ((negb (sf_nullta f) || match src_constraints (sf_type f) with [] => true | _ => false end) && field_union_plain f)%bool.
Definition schema_kept_counterexamples (s : src_schema) : nat :=
  List.length (flat_map (fun d => match snd d with
                                  | SStruct fs => filter (fun f => (field_in_kept_domain f && negb (field_kept s (fst d) f))%bool) fs
                                  | _ => [] end) (src_defs s)).
Definition schema_kept_domain (s : src_schema) : nat :=
  List.length (flat_map (fun d => match snd d with SStruct fs => filter field_in_kept_domain fs | _ => [] end) (src_defs s)).
